// C11 - shared oracle machinery of the Euler monitor (several TUs include this).
//
// The reference rotation is built independently of the library's decoding
// (setOrder/angleOrder) and of its closed-form Shoemake matrices: it is the
// product of three elementary axis rotations in long double,
//
//   static   order, axis sequence A,B,C, angles a0,a1,a2:  M = E(A,a0) * E(B,a1) * E(C,a2)
//   rotating order, axis sequence A,B,C, angles a0,a1,a2:  M = E(A,a2) * E(B,a1) * E(C,a0)
//
// in Imath's row-vector convention (v' = v*M); E(axis,t) is the right-handed
// rotation about a coordinate axis, the same matrix Matrix44::setEulerAngles
// produces for a single non-zero angle.
//
// Axis sequence: for the 12 static orders it is parsed from the enumerator's
// NAME ("XZY" = first X, then Z, then Y about the fixed axes; the class
// comment documents that "the ijk vector order is the same as the enum"), and
// the monitor checks that the documented legend digits of the enumerator value
// (A initial axis, B parity even, C initial repeated, D frame static) decode to
// the same sequence.  For the 12 rotating ("r") orders the sequence is decoded
// from the legend digits only: 10 of the 12 "r" enumerator names do NOT spell the
// rotation their value encodes (e.g. XZYr = 0x2100 is initial Z, even: the static
// sequence Z,X,Y applied with reversed angles); the property says nothing about
// the names, so this is recorded as an observation, not judged.
//
// A consistent slip in the library's decoding (parity, axis, frame) that keeps
// toMatrix/extract/toQuat mutually consistent is therefore still seen.
#pragma once
#include "mon.h"
#include <ImathEuler.h>
#include <ImathMatrix.h>
#include <ImathMatrixAlgo.h>
#include <ImathQuat.h>
#include <ImathVec.h>
#include <string>
#include <vector>

namespace c11
{
using namespace mon;
using namespace IMATH_NAMESPACE;
typedef long double LD;

static const LD PI_LD    = 3.14159265358979323846264338327950288L;
static const LD TWOPI_LD = 6.28318530717958647692528676655900577L;

// ------------------------------------------------------------------ the 24 orders, by name
struct OrderInfo
{
    int         value; // enumerator value taken from the enum itself
    const char* name;
    int         ax[3]; // axis sequence of the static equivalent (see header comment)
    bool        rel;   // rotating frame
    bool        rep;   // first axis repeated as third
    // legend digits of the value (documented next to the enum): A initial axis, B parity even, C repeated, D static
    int  leg_axis;
    bool leg_even, leg_rep, leg_static;
    int  leg_seq[3];       // static-equivalent axis sequence decoded from the legend digits
    bool name_matches;     // the name (read as "apply in this order", reversed for r) spells leg_seq
};

#define C11_O(n) {(int) Euler<float>::n, #n, {0, 0, 0}, false, false, 0, false, false, false, {0, 0, 0}, false}
inline const OrderInfo*
orders ()
{
    static OrderInfo tab[24] = {
        C11_O (XYZ),  C11_O (XZY),  C11_O (YZX),  C11_O (YXZ),  C11_O (ZXY),  C11_O (ZYX),
        C11_O (XZX),  C11_O (XYX),  C11_O (YXY),  C11_O (YZY),  C11_O (ZYZ),  C11_O (ZXZ),
        C11_O (XYZr), C11_O (XZYr), C11_O (YZXr), C11_O (YXZr), C11_O (ZXYr), C11_O (ZYXr),
        C11_O (XZXr), C11_O (XYXr), C11_O (YXYr), C11_O (YZYr), C11_O (ZYZr), C11_O (ZXZr)};
    static bool init = [] {
        for (auto& o: tab)
        {
            o.leg_axis   = (o.value >> 12) & 0xf;
            o.leg_even   = ((o.value >> 8) & 0xf) == 1;
            o.leg_rep    = ((o.value >> 4) & 0xf) == 1;
            o.leg_static = (o.value & 0xf) == 1;
            int i = o.leg_axis % 3, j = o.leg_even ? (i + 1) % 3 : (i + 2) % 3;
            o.leg_seq[0] = i;
            o.leg_seq[1] = j;
            o.leg_seq[2] = o.leg_rep ? i : 3 - i - j;
            bool name_rel = o.name[3] == 'r';
            int  nm[3];
            for (int p = 0; p < 3; ++p) nm[p] = o.name[name_rel ? 2 - p : p] - 'X'; // rotating: applied in reverse
            o.name_matches = nm[0] == o.leg_seq[0] && nm[1] == o.leg_seq[1] && nm[2] == o.leg_seq[2];
            o.rel = name_rel;
            if (!name_rel)
            {
                for (int p = 0; p < 3; ++p) o.ax[p] = nm[p]; // static: from the NAME
                o.rep = o.name[0] == o.name[2];
            }
            else
            {
                for (int p = 0; p < 3; ++p) o.ax[p] = o.leg_seq[p]; // rotating: from the documented legend digits
                o.rep = o.leg_rep;
            }
        }
        return true;
    }();
    (void) init;
    return tab;
}
#undef C11_O

// indices (into orders()) of the six non-repeated static orders
static const int STATIC_NONREP[6] = {0, 1, 2, 3, 4, 5};

// ------------------------------------------------------------------ long double 3x3 algebra (loops only)
struct M3
{
    LD a[3][3];
};

inline M3
m3_ident ()
{
    M3 m;
    for (int i = 0; i < 3; ++i)
        for (int j = 0; j < 3; ++j) m.a[i][j] = i == j ? 1.0L : 0.0L;
    return m;
}

// right-handed rotation about a coordinate axis, row-vector convention
inline M3
m3_elem (int axis, LD t)
{
    M3 m  = m3_ident ();
    int b = (axis + 1) % 3, c = (axis + 2) % 3;
    LD  cs = cosl (t), sn = sinl (t);
    m.a[b][b] = cs;
    m.a[b][c] = sn;
    m.a[c][b] = -sn;
    m.a[c][c] = cs;
    return m;
}

inline M3
m3_mul (const M3& x, const M3& y)
{
    M3 m;
    for (int i = 0; i < 3; ++i)
        for (int j = 0; j < 3; ++j)
        {
            LD s = 0;
            for (int k = 0; k < 3; ++k) s += x.a[i][k] * y.a[k][j];
            m.a[i][j] = s;
        }
    return m;
}

inline M3
ref_rotation (const OrderInfo& o, const LD ang[3])
{
    // rotating frame: same axis sequence, angles taken in reverse
    M3 e0 = m3_elem (o.ax[0], ang[o.rel ? 2 : 0]), e1 = m3_elem (o.ax[1], ang[1]), e2 = m3_elem (o.ax[2], ang[o.rel ? 0 : 2]);
    return m3_mul (m3_mul (e0, e1), e2);
}

template <class T>
inline M3
ref_rotation (const OrderInfo& o, const Vec3<T>& v)
{
    LD a[3] = {(LD) v.x, (LD) v.y, (LD) v.z};
    return ref_rotation (o, a);
}

inline LD
m3_maxdiff (const M3& x, const M3& y)
{
    LD d = 0;
    for (int i = 0; i < 3; ++i)
        for (int j = 0; j < 3; ++j)
        {
            LD e = fabsl (x.a[i][j] - y.a[i][j]);
            if (!(e <= d)) d = e; // NaN propagates as "large"
        }
    return d;
}

// max |M M^T - I|
inline LD
m3_ortho_err (const M3& x)
{
    LD d = 0;
    for (int i = 0; i < 3; ++i)
        for (int j = 0; j < 3; ++j)
        {
            LD s = 0;
            for (int k = 0; k < 3; ++k) s += x.a[i][k] * x.a[j][k];
            LD e = fabsl (s - (i == j ? 1.0L : 0.0L));
            if (!(e <= d)) d = e;
        }
    return d;
}

inline LD
m3_det (const M3& x)
{
    LD d = 0;
    for (int i = 0; i < 3; ++i)
    {
        int j = (i + 1) % 3, k = (i + 2) % 3;
        d += x.a[0][i] * (x.a[1][j] * x.a[2][k] - x.a[1][k] * x.a[2][j]);
    }
    return d;
}

template <class T>
inline M3
m3_from (const Matrix33<T>& m)
{
    M3 r;
    for (int i = 0; i < 3; ++i)
        for (int j = 0; j < 3; ++j) r.a[i][j] = (LD) m[i][j];
    return r;
}
template <class T>
inline M3
m3_from (const Matrix44<T>& m)
{
    M3 r;
    for (int i = 0; i < 3; ++i)
        for (int j = 0; j < 3; ++j) r.a[i][j] = (LD) m[i][j];
    return r;
}

template <class T>
inline Matrix33<T>
to_m33 (const M3& m)
{
    Matrix33<T> r;
    for (int i = 0; i < 3; ++i)
        for (int j = 0; j < 3; ++j) r[i][j] = (T) m.a[i][j];
    return r;
}

// pure embedding of a 3x3 into a 4x4 (translation optional)
template <class T>
inline Matrix44<T>
embed44 (const Matrix33<T>& m, const Vec3<T>& t = Vec3<T> (0, 0, 0))
{
    Matrix44<T> r; // identity
    for (int i = 0; i < 3; ++i)
        for (int j = 0; j < 3; ++j) r[i][j] = m[i][j];
    r[3][0] = t.x;
    r[3][1] = t.y;
    r[3][2] = t.z;
    return r;
}

// quaternion (r; x,y,z), not necessarily unit -> rotation, row-vector convention.
// Column-vector textbook form R = ((r^2 - v.v) I + 2 v v^T + 2 r [v]x) / |q|^2, transposed.
inline M3
quat_to_m3 (LD r, const LD v[3])
{
    LD vv = 0;
    for (int i = 0; i < 3; ++i) vv += v[i] * v[i];
    LD n2 = r * r + vv;
    M3 m;
    for (int a = 0; a < 3; ++a)
        for (int b = 0; b < 3; ++b)
        {
            LD cross = 0; // [v]x [a][b] = -eps_abc v_c
            if (a != b)
            {
                int c   = 3 - a - b;
                LD  sgn = ((a + 1) % 3 == b) ? 1.0L : -1.0L; // eps_abc
                cross   = -sgn * v[c];
            }
            LD col = ((a == b) ? (r * r - vv) : 0.0L) + 2 * v[a] * v[b] + 2 * r * cross;
            m.a[b][a] = col / n2; // transpose: row-vector convention
        }
    return m;
}

// rotation (row-vector convention) -> unit quaternion, Shepperd's method
inline void
m3_to_quat (const M3& m, LD& r, LD v[3])
{
    LD C[3][3];
    for (int i = 0; i < 3; ++i)
        for (int j = 0; j < 3; ++j) C[i][j] = m.a[j][i];
    LD tr = C[0][0] + C[1][1] + C[2][2];
    if (tr > 0)
    {
        LD s = sqrtl (tr + 1.0L) * 2;
        r    = s / 4;
        for (int a = 0; a < 3; ++a)
        {
            int b = (a + 1) % 3, c = (a + 2) % 3;
            v[a]  = (C[c][b] - C[b][c]) / s;
        }
    }
    else
    {
        int a = 0;
        if (C[1][1] > C[a][a]) a = 1;
        if (C[2][2] > C[a][a]) a = 2;
        int b = (a + 1) % 3, c = (a + 2) % 3;
        LD  s = sqrtl (1.0L + C[a][a] - C[b][b] - C[c][c]) * 2;
        v[a]  = s / 4;
        v[b]  = (C[a][b] + C[b][a]) / s;
        v[c]  = (C[a][c] + C[c][a]) / s;
        r     = (C[c][b] - C[b][c]) / s;
    }
    LD n = sqrtl (r * r + v[0] * v[0] + v[1] * v[1] + v[2] * v[2]);
    r /= n;
    for (int i = 0; i < 3; ++i) v[i] /= n;
}

// uniformly distributed rotation
inline M3
random_rotation (Rng& r)
{
    LD q[4];
    LD n2;
    do
    {
        n2 = 0;
        for (int i = 0; i < 4; ++i)
        {
            q[i] = (LD) r.gauss ();
            n2 += q[i] * q[i];
        }
    } while (n2 < 1e-6L);
    return quat_to_m3 (q[0], q + 1);
}

// ------------------------------------------------------------------ angle workload
// 32 class slots; slot -> class name.  The middle angle is slot [1] of the ijk triple.
enum
{
    N_ANGLE_SLOTS = 32
};

inline const char*
gimbal_class_name (int k)
{
    static const char* n[16] = {"", "mid_gimbal_1e-1", "mid_gimbal_1e-2", "mid_gimbal_1e-3", "mid_gimbal_1e-4", "mid_gimbal_1e-5", "mid_gimbal_1e-6", "mid_gimbal_1e-7", "mid_gimbal_1e-8", "mid_gimbal_1e-9", "mid_gimbal_1e-10", "mid_gimbal_1e-11", "mid_gimbal_1e-12", "mid_gimbal_1e-13", "mid_gimbal_1e-14", "mid_gimbal_1e-15"};
    return n[k];
}

inline std::vector<std::string>
angle_class_names ()
{
    std::vector<std::string> v = {"uniform_pm_pi", "multi_period", "mid_gimbal_exact", "axis_aligned", "tiny_angles", "mid_gimbal_multi_period", "outer_quarter_turns_at_gimbal", "zero_or_pi"};
    for (int k = 1; k <= 15; ++k) v.push_back (gimbal_class_name (k));
    return v;
}

inline std::vector<std::string>
order_class_names (bool only_static_nonrep = false, bool only_nonrep = false)
{
    std::vector<std::string> v;
    for (int i = 0; i < 24; ++i)
    {
        const OrderInfo& o = orders ()[i];
        if (only_static_nonrep && (o.rel || o.rep)) continue;
        if (only_nonrep && o.rep) continue;
        v.push_back (std::string ("order_") + o.name);
    }
    return v;
}

inline std::vector<std::string>
concat (std::vector<std::string> a, const std::vector<std::string>& b)
{
    a.insert (a.end (), b.begin (), b.end ());
    return a;
}

// gimbal-lock value of the middle angle for this kind of order
inline double
gimbal_value (Rng& r, bool repeated)
{
    const double pi = 3.14159265358979323846;
    if (repeated)
    {
        int k = (int) r.range (0, 2);
        return k == 0 ? 0.0 : (k == 1 ? pi : -pi);
    }
    return r.coin () ? pi / 2 : -pi / 2;
}

// Generate an ijk angle triple of class slot `slot` (0..31); returns the class name.
// Angles are generated in double and rounded to T, so every value is exactly representable in T.
template <class T>
inline const char*
gen_angles (Rng& r, unsigned slot, bool repeated, T out[3])
{
    const double pi = 3.14159265358979323846;
    double       a[3];
    const char*  name;
    if (slot <= 5 || slot == 31)
    {
        for (int i = 0; i < 3; ++i) a[i] = r.sym (pi);
        name = "uniform_pm_pi";
    }
    else if (slot <= 9)
    {
        for (int i = 0; i < 3; ++i) a[i] = r.sym (8 * pi); // +-4 periods
        name = "multi_period";
    }
    else if (slot == 10)
    {
        a[0] = r.sym (pi);
        a[2] = r.sym (pi);
        a[1] = gimbal_value (r, repeated);
        name = "mid_gimbal_exact";
    }
    else if (slot <= 25)
    {
        int k = (int) slot - 10; // 1..15
        a[0]  = r.sym (pi);
        a[2]  = r.sym (pi);
        double d = std::pow (10.0, -k) * (r.coin () ? 1.0 : r.uniform (0.5, 2.0));
        a[1]     = gimbal_value (r, repeated) + (r.coin () ? d : -d);
        name     = gimbal_class_name (k);
    }
    else if (slot == 26)
    {
        for (int i = 0; i < 3; ++i) a[i] = (double) r.range (-4, 4) * (pi / 2);
        name = "axis_aligned";
    }
    else if (slot == 27)
    {
        for (int i = 0; i < 3; ++i)
        {
            double m = std::pow (10.0, -(double) r.range (1, 12)) * r.uniform (1.0, 10.0);
            a[i]     = r.coin () ? m : -m;
        }
        name = "tiny_angles";
    }
    else if (slot == 28)
    {
        a[0]     = r.sym (8 * pi);
        a[2]     = r.sym (8 * pi);
        double d = r.coin () ? 0.0 : std::pow (10.0, -(double) r.range (1, 15));
        a[1]     = gimbal_value (r, repeated) + (double) r.range (-3, 3) * 2 * pi + (r.coin () ? d : -d);
        name     = "mid_gimbal_multi_period";
    }
    else if (slot == 29)
    {
        a[0] = (double) r.range (-4, 4) * (pi / 2);
        a[2] = (double) r.range (-4, 4) * (pi / 2);
        a[1] = gimbal_value (r, repeated);
        name = "outer_quarter_turns_at_gimbal";
    }
    else // 30
    {
        for (int i = 0; i < 3; ++i) a[i] = (double) r.range (-2, 2) * pi;
        name = "zero_or_pi";
    }
    for (int i = 0; i < 3; ++i) out[i] = (T) a[i];
    return name;
}

template <class T> struct tname;
template <> struct tname<float>
{
    static const char* s () { return "float"; }
};
template <> struct tname<double>
{
    static const char* s () { return "double"; }
};

template <class T>
inline uint64_t
hash3 (uint64_t h, T a, T b, T c)
{
    h = hash_combine (h, d2u ((double) a));
    h = hash_combine (h, d2u ((double) b));
    return hash_combine (h, d2u ((double) c));
}

template <class T>
inline std::string
m33_str (const Matrix33<T>& m)
{
    std::string s = "[";
    for (int i = 0; i < 3; ++i)
        for (int j = 0; j < 3; ++j) s += (i + j ? "," : "") + jnum ((double) m[i][j]);
    return s + "]";
}

inline std::string
m3_str (const M3& m)
{
    std::string s = "[";
    for (int i = 0; i < 3; ++i)
        for (int j = 0; j < 3; ++j) s += (i + j ? "," : "") + jnum ((double) m.a[i][j]);
    return s + "]";
}

template <class T>
inline std::string
v3_str (const Vec3<T>& v)
{
    return "[" + jnum ((double) v.x) + "," + jnum ((double) v.y) + "," + jnum ((double) v.z) + "]";
}

template <class T>
inline bool
bits_equal (T a, T b)
{
    return std::memcmp (&a, &b, sizeof (T)) == 0;
}
template <class T>
inline bool
bits_equal (const Vec3<T>& a, const Vec3<T>& b)
{
    return bits_equal (a.x, b.x) && bits_equal (a.y, b.y) && bits_equal (a.z, b.z);
}

// |a - b| modulo 2 pi, in long double
inline LD
angle_diff_mod_2pi (LD a, LD b)
{
    return fabsl (remainderl (a - b, TWOPI_LD));
}

} // namespace c11
