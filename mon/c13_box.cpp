// C13 - Box / Interval are closed axis-aligned point sets; box transforms are tight.
//
// This TU: the set-theoretic part on the integer lattice.
//   model  = the set {p : lo <= p <= hi} with small int coordinates (c13_common.h);
//   copies = Box<Vec2<T>>, Box<Vec3<T>> (specialisations), the generic Box<V> on W2<T>, W3<T>
//            (thin classes derived from Vec2/Vec3, same data as the specialisations) and on
//            Vec4<T>, and Interval<T>;  T in {short,int,int64_t,float,double,half}.
// Sub-checks here: point_membership, box_queries, clip_nearest, intersects_box,
// empty_infinite.  c13_extend.cpp: extendBy histories and non-lattice (extreme) values.
// c13_algo.cpp: closestPointOnBox, transform / affineTransform.
//
// Every copy is compared with the integer model case by case; where the model is exact,
// agreement between the copies follows from that; where the statement leaves freedom
// (majorAxis ties, center of an empty box) the copies are compared with each other directly
// (keys "agree.*").
#include "c13_common.h"
#include <array>

using namespace c13;

// ------------------------------------------------------------------ per-thread lattice caches
static const std::vector<std::array<int, 4>>&
ipt_table (int D, int R)
{
    static thread_local std::map<int, std::vector<std::array<int, 4>>> m;
    auto& v = m[D * 16 + R];
    if (v.empty ())
    {
        uint64_t n = n_points (D, R);
        v.resize (n);
        for (uint64_t k = 0; k < n; ++k) decode_pt (k, D, R, v[k].data ());
    }
    return v;
}
template <class K> static const std::vector<typename K::P>&
pt_table (int R)
{
    static thread_local std::vector<typename K::P> tab;
    static thread_local int                        cr = -1;
    if (cr != R)
    {
        const auto& ip = ipt_table (K::D, R);
        tab.clear ();
        for (auto& p: ip) tab.push_back (mkpt<K> (p.data ()));
        cr = R;
    }
    return tab;
}
struct LTab
{
    std::vector<LBox>    b;
    std::vector<uint8_t> inv;
};
static const LTab&
lbox_table (int D, int R)
{
    static thread_local std::map<int, LTab> m;
    LTab& t = m[D * 16 + R];
    if (t.b.empty ())
    {
        uint64_t n = n_boxes (D, R);
        t.b.resize (n);
        t.inv.resize (n);
        for (uint64_t k = 0; k < n; ++k) { decode_box (k, D, R, t.b[k]); t.inv[k] = m_empty (t.b[k], D); }
    }
    return t;
}
template <class K> static const std::vector<typename K::B>&
box_table (int R)
{
    static thread_local std::vector<typename K::B> tab;
    static thread_local int                        cr = -1;
    if (cr != R)
    {
        const LTab& lt = lbox_table (K::D, R);
        tab.clear ();
        for (auto& b: lt.b) tab.push_back (mkbox<K> (b));
        cr = R;
    }
    return tab;
}

// ------------------------------------------------------------------ registration helpers
template <class K1, class K2, template <class, class> class Rn> static void
add_one (VarTable& t, int Rq, int Rt)
{
    t.add (K1::name (), n_boxes (K1::D, Rq), n_boxes (K1::D, Rt), [Rq, Rt] (Ctx& c, uint64_t g, uint64_t l) { Rn<K1, K2>::run (c, g, l, c.thorough ? Rt : Rq); });
}
template <class T, template <class, class> class Rn, bool WI> static void
add_dims (VarTable& t, const int (&R)[4][2])
{
    if constexpr (WI) add_one<IKind<T>, NoKind, Rn> (t, R[0][0], R[0][1]);
    add_one<VKind<Vec2<T>>, VKind<W2<T>>, Rn> (t, R[1][0], R[1][1]);
    add_one<VKind<Vec3<T>>, VKind<W3<T>>, Rn> (t, R[2][0], R[2][1]);
    add_one<VKind<Vec4<T>>, NoKind, Rn> (t, R[3][0], R[3][1]);
}
template <template <class, class> class Rn, bool WI> static VarTable
make_table (const int (&R)[4][2])
{
    VarTable t;
#define X(T) add_dims<T, Rn, WI> (t, R);
    C13_TYPES (X)
#undef X
    t.seal ();
    return t;
}
// lattice radii {quick, thorough} for D = 1,2,3,4: box coordinates in -R..R, points in -(R+1)..R+1
static const int R_MEMBERS[4][2] = {{3, 3}, {2, 2}, {2, 2}, {1, 2}};
static const int R_PAIRS[4][2]   = {{3, 3}, {2, 2}, {1, 2}, {1, 1}};

// ================================================================== point_membership
enum { PC_INV, PC_INTERIOR, PC_BOUNDARY, PC_ADJ, PC_OUT, PC_N };
static const char* const pc_name[PC_N] = {"inverted_box", "interior", "on_boundary", "outside_adjacent", "outside"};
static inline int
classify_pt (const LBox& b, int D, const int* p, bool inv)
{
    if (inv) return PC_INV;
    if (m_contains (b, D, p))
    {
        for (int a = 0; a < D; ++a) if (p[a] == b.lo[a] || p[a] == b.hi[a]) return PC_BOUNDARY;
        return PC_INTERIOR;
    }
    for (int a = 0; a < D; ++a) if (p[a] < b.lo[a] - 1 || p[a] > b.hi[a] + 1) return PC_OUT;
    return PC_ADJ;
}

template <class K1, class K2> struct Membership
{
    static void run (Ctx& c, uint64_t gidx, uint64_t code, int R)
    {
        constexpr int  D    = K1::D;
        constexpr bool two  = !std::is_same<K2, NoKind>::value;
        const int      Rp   = R + 1;
        LBox           lb;
        decode_box (code, D, R, lb);
        const bool  inv = m_empty (lb, D);
        const auto  b1  = mkbox<K1> (lb);
        const auto& P1  = pt_table<K1> (Rp);
        const auto& IP  = ipt_table (D, Rp);
        using K2e       = std::conditional_t<two, K2, K1>;
        const auto  b2  = mkbox<K2e> (lb);
        const auto& P2  = pt_table<K2e> (Rp);
        uint64_t    cnt[PC_N] = {0};
        for (size_t k = 0; k < IP.size (); ++k)
        {
            const int* p    = IP[k].data ();
            const bool want = m_contains (lb, D, p);
            const int  pc   = classify_pt (lb, D, p, inv);
            ++cnt[pc];
            const bool g1 = b1.intersects (P1[k]);
            if (g1 != want)
                c.fail ("intersects(point)." + K1::name () + ":" + pc_name[pc], gidx, [&] { return Obj ().kv ("box", lbox_str (lb, D)).kv ("point", ipt_str (p, D)).kv ("got", g1).kv ("want", want).str (); });
            if constexpr (two)
            {
                const bool g2 = b2.intersects (P2[k]);
                if (g2 != want)
                    c.fail ("intersects(point)." + K2::name () + ":" + pc_name[pc], gidx, [&] { return Obj ().kv ("box", lbox_str (lb, D)).kv ("point", ipt_str (p, D)).kv ("got", g2).kv ("want", want).str (); });
            }
        }
        c.eval (IP.size () * (two ? 2 : 1));
        for (int k = 0; k < PC_N; ++k) if (cnt[k]) c.cls (pc_name[k], cnt[k]);
        c.nontrivial_enum (cnt[PC_INV] + cnt[PC_BOUNDARY] + cnt[PC_ADJ]);
        if (code % 1009 == 17)
            c.sample (K1::name ().c_str (), [&] { return Obj ().kv ("box", lbox_str (lb, D)).kv ("points", (unsigned long long) IP.size ()).kv ("inside", (unsigned long long) (cnt[PC_INTERIOR] + cnt[PC_BOUNDARY])).str (); });
    }
};
static const VarTable&
tab_membership ()
{
    static const VarTable t = make_table<Membership, true> (R_MEMBERS);
    return t;
}
MON_SUB ([] (Ctx& c, uint64_t b, uint64_t e) { tab_membership ().run (c, b, e); }, "point_membership", tab_membership ().total (false), tab_membership ().total (true))
    .req ({"inverted_box", "interior", "on_boundary", "outside_adjacent", "outside"})
    .exh ()
    .chunked (64)
    .over ("intersects(point) = membership: every lattice box (min,max in {-2..2}^d, d=2,3; {-3..3} for Interval; {-1..1}^4 quick / {-2..2}^4 thorough for Vec4; inverted included) x every lattice point one step beyond, for Box<Vec2>, Box<Vec3>, generic Box on W2/W3/Vec4, Interval, T in {short,int,int64,float,double,half}; non-trivial = point on the boundary, adjacent outside, or box inverted");

// ================================================================== box_queries
struct QRes
{
    bool   empty, vol, inf;
    double size[4], center[4];
    int    major;
};
template <class K> static QRes
queries (const typename K::B& b)
{
    QRes r{};
    r.empty = b.isEmpty ();
    r.vol   = b.hasVolume ();
    r.inf   = b.isInfinite ();
    auto s  = b.size ();
    auto ce = b.center ();
    for (int a = 0; a < K::D; ++a) { r.size[a] = to_d (K::get (s, a)); r.center[a] = to_d (K::get (ce, a)); }
    if constexpr (!K::is_interval) r.major = (int) b.majorAxis ();
    else r.major = 0;
    return r;
}
static std::string
box_class (const LBox& lb, int D)
{
    int ninv = 0, nflat = 0;
    for (int a = 0; a < D; ++a) { ninv += lb.hi[a] < lb.lo[a]; nflat += lb.hi[a] == lb.lo[a]; }
    if (ninv == D) return "inverted_all_axes";
    if (ninv) return "inverted_some_axes";
    if (nflat == D) return "point_box";
    if (nflat) return "flat_box";
    return "volume_box";
}
template <class K> static void
judge_queries (Ctx& c, uint64_t gidx, const LBox& lb, const QRes& r, const std::string& bc)
{
    constexpr int D   = K::D;
    using S           = typename K::S;
    const bool inv    = m_empty (lb, D);
    bool       vol    = true;
    int        msz[4] = {0, 0, 0, 0}, mmax = 0;
    for (int a = 0; a < D; ++a)
    {
        if (lb.hi[a] <= lb.lo[a]) vol = false;
        msz[a] = inv ? 0 : lb.hi[a] - lb.lo[a];
        mmax   = std::max (mmax, msz[a]);
    }
    auto desc = [&] (const char* fn, double got, double want) { return Obj ().kv ("box", lbox_str (lb, D)).kv ("function", fn).kv ("got", got).kv ("want", want).str (); };
    if (r.empty != inv) c.fail ("isEmpty." + K::name () + ":" + bc, gidx, [&] { return desc ("isEmpty", r.empty, inv); });
    if (r.vol != vol) c.fail ("hasVolume." + K::name () + ":" + bc, gidx, [&] { return desc ("hasVolume", r.vol, vol); });
    if (r.inf) c.fail ("isInfinite." + K::name () + ":" + bc, gidx, [&] { return desc ("isInfinite", 1, 0); });
    for (int a = 0; a < D; ++a)
    {
        if (r.size[a] != (double) msz[a]) c.fail ("size." + K::name () + ":" + bc, gidx, [&] { return desc ("size", r.size[a], msz[a]); });
        if (!inv)
        {
            // (max+min)/2 in the element type: integer division truncates towards zero
            int    sum  = lb.hi[a] + lb.lo[a];
            double want = is_int_v<S> ? (double) (sum / 2) : sum / 2.0;
            if (r.center[a] != want) c.fail ("center." + K::name () + ":" + bc, gidx, [&] { return desc ("center", r.center[a], want); });
        }
    }
    if constexpr (!K::is_interval)
    {
        // "the dimension with the greatest difference between maximum and minimum" (size() is 0 for an empty box)
        if (r.major < 0 || r.major >= D || msz[r.major] != mmax)
            c.fail ("majorAxis." + K::name () + ":" + bc, gidx, [&] { return desc ("majorAxis", r.major, -1); });
    }
}
template <class K1, class K2> struct Queries
{
    static void run (Ctx& c, uint64_t gidx, uint64_t code, int R)
    {
        constexpr int  D   = K1::D;
        constexpr bool two = !std::is_same<K2, NoKind>::value;
        LBox           lb;
        decode_box (code, D, R, lb);
        std::string bc = box_class (lb, D);
        int  mmax = -1, nmax = 0;
        for (int a = 0; a < D; ++a)
        {
            int s = m_empty (lb, D) ? 0 : lb.hi[a] - lb.lo[a];
            if (s > mmax) { mmax = s; nmax = 1; }
            else if (s == mmax) ++nmax;
        }
        c.cls (bc);
        if (nmax > 1 && !K1::is_interval) c.cls ("major_axis_tie");
        if (!m_empty (lb, D))
        {
            bool odd = false, neg = false;
            for (int a = 0; a < D; ++a) { int s = lb.hi[a] + lb.lo[a]; if (s % 2) { odd = true; if (s < 0) neg = true; } }
            if (odd) c.cls ("center_half_integer");
            if (neg) c.cls ("center_negative_half_integer");
        }
        QRes r1 = queries<K1> (mkbox<K1> (lb));
        judge_queries<K1> (c, gidx, lb, r1, bc);
        c.eval (K1::is_interval ? 5 : 6);
        if constexpr (two)
        {
            QRes r2 = queries<K2> (mkbox<K2> (lb));
            judge_queries<K2> (c, gidx, lb, r2, bc);
            c.eval (6);
            // where the statement leaves freedom the copies must still coincide
            std::string pair = K1::name () + "_vs_" + K2::name ();
            if (r1.major != r2.major)
                c.fail ("agree.majorAxis." + pair + ":" + (nmax > 1 ? "tie" : "unique_maximum"), gidx, [&] { return Obj ().kv ("box", lbox_str (lb, D)).kv ("specialisation", r1.major).kv ("generic", r2.major).str (); });
            for (int a = 0; a < D; ++a)
            {
                if (r1.center[a] != r2.center[a])
                    c.fail ("agree.center." + pair + ":" + bc, gidx, [&] { return Obj ().kv ("box", lbox_str (lb, D)).kv ("axis", a).kv ("specialisation", r1.center[a]).kv ("generic", r2.center[a]).str (); });
                if (r1.size[a] != r2.size[a])
                    c.fail ("agree.size." + pair + ":" + bc, gidx, [&] { return Obj ().kv ("box", lbox_str (lb, D)).kv ("axis", a).kv ("specialisation", r1.size[a]).kv ("generic", r2.size[a]).str (); });
            }
            if (r1.empty != r2.empty || r1.vol != r2.vol || r1.inf != r2.inf)
                c.fail ("agree.predicates." + pair + ":" + bc, gidx, [&] { return Obj ().kv ("box", lbox_str (lb, D)).str (); });
        }
        c.nontrivial_enum (1);
        if (code % 977 == 5)
            c.sample ((K1::name () + ":" + bc).c_str (), [&] { return Obj ().kv ("box", lbox_str (lb, D)).kv ("isEmpty", r1.empty).kv ("hasVolume", r1.vol).kv ("majorAxis", r1.major).arr ("size", r1.size, D).arr ("center", r1.center, D).str (); });
    }
};
static const VarTable&
tab_queries ()
{
    static const VarTable t = make_table<Queries, true> (R_MEMBERS);
    return t;
}
MON_SUB ([] (Ctx& c, uint64_t b, uint64_t e) { tab_queries ().run (c, b, e); }, "box_queries", tab_queries ().total (false), tab_queries ().total (true))
    .req ({"inverted_all_axes", "inverted_some_axes", "point_box", "flat_box", "volume_box", "major_axis_tie", "center_half_integer", "center_negative_half_integer"})
    .exh ()
    .chunked (256)
    .over ("isEmpty, hasVolume, isInfinite, size, center, majorAxis on every lattice box (same enumeration as point_membership) against their definitions from min/max (size 0 and majorAxis over size 0 for empty boxes; center judged on non-empty boxes, integer types truncate); specialisation vs generic compared directly on center/size/majorAxis for every box");

// ================================================================== clip_nearest
// 1-D nearest point of [lo,hi] to p by brute force over the lattice (unique: the squared distance
// is strictly convex).  A d-dimensional box is a product of intervals and the squared distance a
// sum over the axes, so the nearest point is the per-axis nearest; this separability is itself
// re-checked by full d-dimensional brute force where that is cheap (T = int variants).
static const struct Near1
{
    int t[7][7][9];
    Near1 ()
    {
        for (int lo = -3; lo <= 3; ++lo)
            for (int hi = -3; hi <= 3; ++hi)
                for (int p = -4; p <= 4; ++p)
                {
                    int best = 99, bq = 0, nbest = 0;
                    for (int q = lo; q <= hi; ++q)
                    {
                        int d = (q - p) * (q - p);
                        if (d < best) { best = d; bq = q; nbest = 1; }
                        else if (d == best) ++nbest;
                    }
                    t[lo + 3][hi + 3][p + 4] = (nbest == 1) ? bq : 99;
                }
    }
    int operator() (int lo, int hi, int p) const { return t[lo + 3][hi + 3][p + 4]; }
} g_near1;

static bool
bruteforce_nearest (const LBox& lb, int D, const int* p, int* best_q)
{
    // all lattice points of the box; exact squared distances; the minimiser must be unique
    int  q[4], bestd = 1 << 30, nbest = 0;
    int  lo[4] = {0, 0, 0, 0}, hi[4] = {0, 0, 0, 0};
    for (int a = 0; a < D; ++a) { lo[a] = lb.lo[a]; hi[a] = lb.hi[a]; }
    for (q[3] = lo[3]; q[3] <= hi[3]; ++q[3])
        for (q[2] = lo[2]; q[2] <= hi[2]; ++q[2])
            for (q[1] = lo[1]; q[1] <= hi[1]; ++q[1])
                for (q[0] = lo[0]; q[0] <= hi[0]; ++q[0])
                {
                    int d = 0;
                    for (int a = 0; a < D; ++a) d += (q[a] - p[a]) * (q[a] - p[a]);
                    if (d < bestd) { bestd = d; nbest = 1; for (int a = 0; a < 4; ++a) best_q[a] = q[a]; }
                    else if (d == bestd) ++nbest;
                }
    return nbest == 1;
}

template <class K> static void
clip_one (Ctx& c, uint64_t gidx, const LBox& lb, const typename K::B& b, const int* p, const typename K::P& P, const int* want, const char* pcls)
{
    constexpr int D  = K::D;
    auto          q1 = clip (P, b);
    auto          q2 = closestPointInBox (P, b);
    for (int a = 0; a < D; ++a)
    {
        if (to_d (K::get (q1, a)) != (double) want[a])
            c.fail ("clip." + K::name () + ":" + pcls, gidx, [&] { return Obj ().kv ("box", lbox_str (lb, D)).kv ("point", ipt_str (p, D)).kv ("got", pt_str<K> (q1)).kv ("nearest", ipt_str (want, D)).str (); });
        if (to_d (K::get (q2, a)) != (double) want[a])
            c.fail ("closestPointInBox." + K::name () + ":" + pcls, gidx, [&] { return Obj ().kv ("box", lbox_str (lb, D)).kv ("point", ipt_str (p, D)).kv ("got", pt_str<K> (q2)).kv ("nearest", ipt_str (want, D)).str (); });
    }
}
template <class K1, class K2> struct Clip
{
    static void run (Ctx& c, uint64_t gidx, uint64_t code, int R)
    {
        constexpr int  D   = K1::D;
        constexpr bool two = !std::is_same<K2, NoKind>::value;
        const int      Rp  = R + 1;
        LBox           lb;
        decode_box (code, D, R, lb);
        const auto& IP = ipt_table (D, Rp);
        if (m_empty (lb, D))
        {
            c.cls ("skipped_empty_box", IP.size ()); // no nearest point exists: not judged
            return;
        }
        const auto  b1 = mkbox<K1> (lb);
        const auto& P1 = pt_table<K1> (Rp);
        using K2e      = std::conditional_t<two, K2, K1>;
        const auto  b2 = mkbox<K2e> (lb);
        const auto& P2 = pt_table<K2e> (Rp);
        const bool  bf = std::is_same<typename K1::S, int>::value && (D <= 3 || R == 1);
        uint64_t    n_in = 0, n_face = 0, n_edge = 0;
        for (size_t k = 0; k < IP.size (); ++k)
        {
            const int* p = IP[k].data ();
            int        want[4] = {0, 0, 0, 0}, moved = 0;
            for (int a = 0; a < D; ++a) { want[a] = g_near1 (lb.lo[a], lb.hi[a], p[a]); moved += want[a] != p[a]; }
            const char* pcls = moved == 0 ? "inside" : moved == 1 ? "outside_one_axis" : "outside_edge_or_corner";
            (moved == 0 ? n_in : moved == 1 ? n_face : n_edge)++;
            if (bf)
            {
                int  bq[4];
                bool uniq = bruteforce_nearest (lb, D, p, bq), same = true;
                for (int a = 0; a < D; ++a) same = same && bq[a] == want[a];
                if (!uniq || !same)
                    c.fail ("oracle.clip:separable_model_inconsistent", gidx, [&] { return Obj ().kv ("box", lbox_str (lb, D)).kv ("point", ipt_str (p, D)).kv ("bruteforce", ipt_str (bq, D)).kv ("model", ipt_str (want, D)).str (); });
            }
            clip_one<K1> (c, gidx, lb, b1, p, P1[k], want, pcls);
            if constexpr (two) clip_one<K2e> (c, gidx, lb, b2, p, P2[k], want, pcls);
        }
        c.eval (IP.size () * (two ? 4 : 2));
        c.cls ("inside", n_in);
        c.cls ("outside_one_axis", n_face);
        c.cls ("outside_edge_or_corner", n_edge);
        if (bf) c.cls ("bruteforce_crosscheck", IP.size ());
        c.nontrivial_enum (n_face + n_edge);
        if (code % 1201 == 600)
            c.sample (K1::name ().c_str (), [&] { return Obj ().kv ("box", lbox_str (lb, D)).kv ("points", (unsigned long long) IP.size ()).str (); });
    }
};
static const VarTable&
tab_clip ()
{
    static const VarTable t = make_table<Clip, false> (R_MEMBERS);
    return t;
}
MON_SUB ([] (Ctx& c, uint64_t b, uint64_t e) { tab_clip ().run (c, b, e); }, "clip_nearest", tab_clip ().total (false), tab_clip ().total (true))
    .req ({"inside", "outside_one_axis", "outside_edge_or_corner", "bruteforce_crosscheck", "skipped_empty_box"})
    .exh ()
    .chunked (64)
    .over ("clip and closestPointInBox = the nearest lattice point of the box (exact squared distances; per-axis brute force, cross-checked by full d-dimensional brute force for T=int): every non-empty lattice box x every lattice point, all Box copies and element types; empty boxes counted, not judged; non-trivial = point outside the box");

// ================================================================== intersects_box
// per-axis relation of two integer intervals by brute force over the lattice:
// 0 = no common point, 1 = exactly one common point (touching), 2 = more
static const struct Share1
{
    uint8_t t[7][7][7][7];
    Share1 ()
    {
        for (int a = -3; a <= 3; ++a)
            for (int b = -3; b <= 3; ++b)
                for (int c = -3; c <= 3; ++c)
                    for (int d = -3; d <= 3; ++d)
                    {
                        int n = 0;
                        for (int x = -4; x <= 4; ++x) n += (a <= x && x <= b && c <= x && x <= d);
                        t[a + 3][b + 3][c + 3][d + 3] = (uint8_t) std::min (n, 2);
                    }
    }
} g_share1;
// 0 disjoint, 1 touching, 2 overlapping (for two NON-EMPTY boxes; an empty box shares nothing)
static inline int
m_share (const LBox& a, const LBox& b, int D)
{
    int r = 2;
    for (int x = 0; x < D; ++x) r = std::min<int> (r, g_share1.t[a.lo[x] + 3][a.hi[x] + 3][b.lo[x] + 3][b.hi[x] + 3]);
    return r;
}
static const char* const share_name[3] = {"disjoint", "touching", "overlapping"};

template <class K> static inline void
pair_one (Ctx& c, uint64_t gidx, const LBox& A, const LBox& Bm, bool inverted, int share, const typename K::B& a, const typename K::B& b)
{
    const bool want = !inverted && share > 0;
    const bool gab = a.intersects (b), gba = b.intersects (a);
    if (gab == want && gba == want) return;
    constexpr int D = K::D;
    auto desc = [&] { return Obj ().kv ("a", lbox_str (A, D)).kv ("b", lbox_str (Bm, D)).kv ("a.intersects(b)", gab).kv ("b.intersects(a)", gba).kv ("sets_share_a_point", want).str (); };
    if (inverted)
    {
        // the statement quantifies over inverted (= empty) boxes: an empty set shares no point with anything
        c.fail ("intersects(box)." + K::name () + ":inverted_operand", gidx, desc);
        if (gab != gba) c.fail ("intersects(box)." + K::name () + ":asymmetric_inverted_operand", gidx, desc);
    }
    else
    {
        c.fail ("intersects(box)." + K::name () + ":" + share_name[share], gidx, desc);
        if (gab != gba) c.fail ("intersects(box)." + K::name () + ":asymmetric", gidx, desc);
    }
}
template <class K1, class K2> struct Pairs
{
    static void run (Ctx& c, uint64_t gidx, uint64_t codeA, int R)
    {
        constexpr int  D   = K1::D;
        constexpr bool two = !std::is_same<K2, NoKind>::value;
        const LTab&    lt  = lbox_table (D, R);
        const auto&    B1  = box_table<K1> (R);
        using K2e          = std::conditional_t<two, K2, K1>;
        const auto&    B2  = box_table<K2e> (R);
        const LBox&    A   = lt.b[codeA];
        const bool     invA = lt.inv[codeA];
        uint64_t       cnt[4] = {0, 0, 0, 0};
        const size_t   n = lt.b.size ();
        for (size_t cb = codeA; cb < n; ++cb)
        {
            const bool inverted = invA || lt.inv[cb];
            const int  share    = inverted ? 0 : m_share (A, lt.b[cb], D);
            ++cnt[inverted ? 3 : share];
            pair_one<K1> (c, gidx, A, lt.b[cb], inverted, share, B1[codeA], B1[cb]);
            if constexpr (two) pair_one<K2e> (c, gidx, A, lt.b[cb], inverted, share, B2[codeA], B2[cb]);
        }
        c.eval ((n - codeA) * (two ? 4 : 2));
        c.cls ("disjoint", cnt[0]);
        c.cls ("touching", cnt[1]);
        c.cls ("overlapping", cnt[2]);
        c.cls ("inverted_operand", cnt[3]);
        c.nontrivial_enum (cnt[0] + cnt[1] + cnt[3]);
        if (codeA % 401 == 7)
            c.sample (K1::name ().c_str (), [&] { return Obj ().kv ("a", lbox_str (A, D)).kv ("partners", (unsigned long long) (n - codeA)).kv ("touching", (unsigned long long) cnt[1]).kv ("overlapping", (unsigned long long) cnt[2]).str (); });
    }
};
// random pairs from the larger lattice {-2..2}^d where the full square is too big for the tier
template <class K1, class K2> struct PairsSampled
{
    static void run (Ctx& c, uint64_t gidx, uint64_t, int R)
    {
        constexpr int  D   = K1::D;
        constexpr bool two = !std::is_same<K2, NoKind>::value;
        Rng            r   = c.rng (gidx);
        const uint64_t nb  = n_boxes (D, R);
        uint64_t       cnt[4] = {0, 0, 0, 0};
        for (int k = 0; k < 64; ++k)
        {
            LBox A, Bm;
            uint64_t ca = r.u64 () % nb, cb = r.u64 () % nb;
            decode_box (ca, D, R, A);
            decode_box (cb, D, R, Bm);
            if (k % 4 == 1) // bias towards non-inverted pairs (rare in high dimension)
                for (int a = 0; a < D; ++a)
                {
                    if (A.hi[a] < A.lo[a]) std::swap (A.hi[a], A.lo[a]);
                    if (Bm.hi[a] < Bm.lo[a]) std::swap (Bm.hi[a], Bm.lo[a]);
                }
            const bool inverted = m_empty (A, D) || m_empty (Bm, D);
            const int  share    = inverted ? 0 : m_share (A, Bm, D);
            ++cnt[inverted ? 3 : share];
            pair_one<K1> (c, gidx, A, Bm, inverted, share, mkbox<K1> (A), mkbox<K1> (Bm));
            if constexpr (two) pair_one<K2> (c, gidx, A, Bm, inverted, share, mkbox<K2> (A), mkbox<K2> (Bm));
            c.nontrivial (hash_combine (hash_combine (ca, cb), hash_str (K1::name ().c_str ())));
        }
        c.eval (64 * (two ? 4 : 2));
        c.cls ("disjoint", cnt[0]);
        c.cls ("touching", cnt[1]);
        c.cls ("overlapping", cnt[2]);
        c.cls ("inverted_operand", cnt[3]);
        c.cls ("sampled_pairs", 64);
    }
};
template <class T> static void
add_pairs_sampled (VarTable& t)
{
    // d=3, {-2..2}: sampled in quick (the full square runs in thorough); d=4, {-2..2}: sampled in both tiers
    t.add ("sampled:" + VKind<Vec3<T>>::name (), 4096, 0, [] (Ctx& c, uint64_t g, uint64_t l) { PairsSampled<VKind<Vec3<T>>, VKind<W3<T>>>::run (c, g, l, 2); });
    t.add ("sampled:" + VKind<Vec4<T>>::name (), 4096, 262144, [] (Ctx& c, uint64_t g, uint64_t l) { PairsSampled<VKind<Vec4<T>>, NoKind>::run (c, g, l, 2); });
}
static const VarTable&
tab_pairs ()
{
    static const VarTable t = make_table<Pairs, true> (R_PAIRS);
    return t;
}
MON_SUB ([] (Ctx& c, uint64_t b, uint64_t e) { tab_pairs ().run (c, b, e); }, "intersects_box", tab_pairs ().total (false), tab_pairs ().total (true))
    .req ({"disjoint", "touching", "overlapping", "inverted_operand"})
    .exh ()
    .chunked (32)
    .over ("intersects(box), both directions, against 'the two sets share a lattice point' (per-axis brute force; empty = inverted boxes share nothing): all unordered pairs of lattice boxes over {-3..3} (Interval), {-2..2}^2, {-1..1}^3 quick / {-2..2}^3 thorough, {-1..1}^4; all copies and element types; non-trivial = disjoint, touching or with an inverted operand");

static const VarTable&
tab_pairs_sampled ()
{
    static const VarTable t = [] {
        VarTable t;
#define X(T) add_pairs_sampled<T> (t);
        C13_TYPES (X)
#undef X
        t.seal ();
        return t;
    }();
    return t;
}
MON_SUB ([] (Ctx& c, uint64_t b, uint64_t e) { tab_pairs_sampled ().run (c, b, e); }, "intersects_box_sampled", tab_pairs_sampled ().total (false), tab_pairs_sampled ().total (true))
    .req ({"disjoint", "touching", "overlapping", "inverted_operand", "sampled_pairs"})
    .chunked (64)
    .over ("as intersects_box on random pairs from the larger lattices whose full square does not fit the tier: {-2..2}^3 (quick only; enumerated in thorough) and {-2..2}^4 (both tiers), 64 pairs per index; distinct = hash of the pair");

// ================================================================== empty_infinite
template <class S> static std::vector<S>
extreme_pool ()
{
    using L = std::numeric_limits<S>;
    std::vector<S> v;
    v.push_back (L::lowest ());
    v.push_back (L::max ());
    v.push_back (from_i<S> (-1));
    v.push_back (from_i<S> (0));
    v.push_back (from_i<S> (1));
    if constexpr (is_int_v<S>)
    {
        v.push_back ((S) (L::lowest () + 1));
        v.push_back ((S) (L::max () - 1));
    }
    else
    {
        v.push_back (L::denorm_min ());
        v.push_back (-L::denorm_min ());
        v.push_back (L::min ());
        v.push_back (-from_i<S> (0)); // -0
        if constexpr (std::is_floating_point<S>::value)
        {
            v.push_back (std::nextafter (L::lowest (), (S) 0));
            v.push_back (std::nextafter (L::max (), (S) 0));
        }
    }
    return v;
}
template <class S> static S
near_extreme (bool upper)
{
    using L = std::numeric_limits<S>;
    if constexpr (is_int_v<S>) return upper ? (S) (L::max () - 1) : (S) (L::lowest () + 1);
    else if constexpr (std::is_floating_point<S>::value) return upper ? std::nextafter (L::max (), (S) 0) : std::nextafter (L::lowest (), (S) 0);
    else return upper ? from_i<S> (60000) : from_i<S> (-60000);
}
template <class K> static const std::vector<typename K::P>&
extreme_points ()
{
    static thread_local std::vector<typename K::P> pts;
    if (pts.empty ())
    {
        auto     pool = extreme_pool<typename K::S> ();
        uint64_t n    = ipow (pool.size (), K::D);
        for (uint64_t k = 0; k < n; ++k)
        {
            typename K::P p = typename K::P ();
            uint64_t      x = k;
            for (int a = 0; a < K::D; ++a) { K::set (p, a, pool[x % pool.size ()]); x /= pool.size (); }
            pts.push_back (p);
        }
    }
    return pts;
}
template <class K> static void
check_canonical_empty (Ctx& c, uint64_t gidx, const typename K::B& b, const char* how)
{
    using L           = std::numeric_limits<typename K::S>;
    constexpr int D   = K::D;
    std::string   key = std::string (how) + "." + K::name ();
    auto desc = [&] (const char* what) { return Obj ().kv ("made_by", how).kv ("box", box_str<K> (b)).kv ("failed", what).str (); };
    if (!b.isEmpty ()) c.fail (key + ":isEmpty_false", gidx, [&] { return desc ("isEmpty"); });
    if (b.hasVolume ()) c.fail (key + ":hasVolume_true", gidx, [&] { return desc ("hasVolume"); });
    if (b.isInfinite ()) c.fail (key + ":isInfinite_true", gidx, [&] { return desc ("isInfinite"); });
    auto s = b.size ();
    for (int a = 0; a < D; ++a)
    {
        if (to_d (K::get (s, a)) != 0.0) c.fail (key + ":size_nonzero", gidx, [&] { return desc ("size"); });
        // documented representation: min = max(), max = lowest()
        if (!(K::get (b.min, a) == L::max ()) || !(K::get (b.max, a) == L::lowest ())) c.fail (key + ":bounds", gidx, [&] { return desc ("min/max representation"); });
    }
    if constexpr (!K::is_interval)
        if (b.majorAxis () >= (unsigned) D) c.fail (key + ":majorAxis_range", gidx, [&] { return desc ("majorAxis"); });
    const auto& pts = extreme_points<K> ();
    for (auto& p: pts)
        if (b.intersects (p)) c.fail (key + ":contains_point", gidx, [&] { return Obj ().kv ("made_by", how).kv ("box", box_str<K> (b)).kv ("point", pt_str<K> (p)).str (); });
    c.eval (pts.size () + 5);
    c.cls ("empty_contains_nothing", pts.size ());
}
template <class K> static void
check_infinite (Ctx& c, uint64_t gidx, const typename K::B& b, const char* how)
{
    using L           = std::numeric_limits<typename K::S>;
    constexpr int D   = K::D;
    std::string   key = std::string ("makeInfinite.") + K::name ();
    auto desc = [&] (const char* what) { return Obj ().kv ("made_by", how).kv ("box", box_str<K> (b)).kv ("failed", what).str (); };
    if (b.isEmpty ()) c.fail (key + ":isEmpty_true", gidx, [&] { return desc ("isEmpty"); });
    if (!b.hasVolume ()) c.fail (key + ":hasVolume_false", gidx, [&] { return desc ("hasVolume"); });
    if (!b.isInfinite ()) c.fail (key + ":isInfinite_false", gidx, [&] { return desc ("isInfinite"); });
    for (int a = 0; a < D; ++a)
        if (!(K::get (b.min, a) == L::lowest ()) || !(K::get (b.max, a) == L::max ())) c.fail (key + ":bounds", gidx, [&] { return desc ("min/max representation"); });
    const auto& pts = extreme_points<K> ();
    for (auto& p: pts)
        if (!b.intersects (p)) c.fail (key + ":misses_representable_point", gidx, [&] { return Obj ().kv ("made_by", how).kv ("box", box_str<K> (b)).kv ("point", pt_str<K> (p)).str (); });
    c.eval (pts.size () + 4);
    c.cls ("infinite_contains_extremes", pts.size ());
}
template <class K> static void
run_empty_infinite (Ctx& c, uint64_t gidx, uint64_t k)
{
    using S         = typename K::S;
    using P         = typename K::P;
    using B         = typename K::B;
    using L         = std::numeric_limits<S>;
    constexpr int D = K::D;
    LBox seed;
    decode_box ((k * 7919 + 3) % n_boxes (D, 2), D, 2, seed);
    B b0;
    check_canonical_empty<K> (c, gidx, b0, "default_ctor");
    B b = mkbox<K> (seed);
    b.makeEmpty ();
    check_canonical_empty<K> (c, gidx, b, "makeEmpty");
    b = mkbox<K> (seed);
    b.makeInfinite ();
    check_infinite<K> (c, gidx, b, "lattice box, makeInfinite");
    b0.makeInfinite ();
    check_infinite<K> (c, gidx, b0, "default, makeInfinite");
    b0.makeEmpty ();
    check_canonical_empty<K> (c, gidx, b0, "makeEmpty");
    // partially infinite boxes: every subset of the 2D slots at its extreme, the others at a
    // lattice value (filler 0) or one step inside the extreme (filler 1)
    for (int filler = 0; filler < 2; ++filler)
        for (unsigned mask = 0; mask < (1u << (2 * D)); ++mask)
        {
            P mn = P (), mx = P ();
            for (int a = 0; a < D; ++a)
            {
                K::set (mn, a, (mask >> a) & 1 ? L::lowest () : filler ? near_extreme<S> (false) : from_i<S> (seed.lo[a]));
                K::set (mx, a, (mask >> (D + a)) & 1 ? L::max () : filler ? near_extreme<S> (true) : from_i<S> (seed.hi[a]));
            }
            B    pb (mn, mx);
            bool full = mask + 1 == (1u << (2 * D));
            bool wante = false, wantv = true;
            for (int a = 0; a < D; ++a)
            {
                long double lo = to_ld (K::get (mn, a)), hi = to_ld (K::get (mx, a));
                if (hi < lo) wante = true;
                if (hi <= lo) wantv = false;
            }
            const char* cl = full ? "all_slots_extreme" : (mask == 0 ? "no_slot_extreme" : "some_slots_extreme");
            c.cls (cl);
            if (pb.isInfinite () != full)
                c.fail ("isInfinite." + K::name () + ":" + cl, gidx, [&] { return Obj ().kv ("box", box_str<K> (pb)).kv ("mask", mask).kv ("got", pb.isInfinite ()).kv ("want", full).str (); });
            if (pb.isEmpty () != wante)
                c.fail ("isEmpty." + K::name () + ":" + cl, gidx, [&] { return Obj ().kv ("box", box_str<K> (pb)).kv ("got", pb.isEmpty ()).kv ("want", wante).str (); });
            if (pb.hasVolume () != wantv)
                c.fail ("hasVolume." + K::name () + ":" + cl, gidx, [&] { return Obj ().kv ("box", box_str<K> (pb)).kv ("got", pb.hasVolume ()).kv ("want", wantv).str (); });
            c.eval (3);
            c.nontrivial (hash_combine (hash_combine (mask * 2 + filler, k), hash_str (K::name ().c_str ())));
        }
    if (k == 0) c.sample (K::name ().c_str (), [&] { return Obj ().kv ("seed_box", lbox_str (seed, D)).kv ("extreme_points", (unsigned long long) extreme_points<K> ().size ()).str (); });
}
template <class T> static void
add_ei (VarTable& t)
{
    auto reg = [&t] (std::string nm, void (*f) (Ctx&, uint64_t, uint64_t)) { t.add (nm, 8, 8, f); };
    reg (IKind<T>::name (), run_empty_infinite<IKind<T>>);
    reg (VKind<Vec2<T>>::name (), run_empty_infinite<VKind<Vec2<T>>>);
    reg (VKind<W2<T>>::name (), run_empty_infinite<VKind<W2<T>>>);
    reg (VKind<Vec3<T>>::name (), run_empty_infinite<VKind<Vec3<T>>>);
    reg (VKind<W3<T>>::name (), run_empty_infinite<VKind<W3<T>>>);
    reg (VKind<Vec4<T>>::name (), run_empty_infinite<VKind<Vec4<T>>>);
}
static const VarTable&
tab_ei ()
{
    static const VarTable t = [] {
        VarTable t;
#define X(T) add_ei<T> (t);
        C13_TYPES (X)
#undef X
        t.seal ();
        return t;
    }();
    return t;
}
MON_SUB ([] (Ctx& c, uint64_t b, uint64_t e) { tab_ei ().run (c, b, e); }, "empty_infinite", tab_ei ().total (false), tab_ei ().total (true))
    .req ({"empty_contains_nothing", "infinite_contains_extremes", "all_slots_extreme", "some_slots_extreme", "no_slot_extreme"})
    .exh ()
    .noscale ()
    .chunked (1)
    .over ("default construction and makeEmpty contain none of the points {lowest,max,0,+-1,neighbours of the extremes,+-denormal,-0}^d and are isEmpty/!hasVolume/!isInfinite/size 0 with the documented min/max; makeInfinite contains all of them and isInfinite; isInfinite/isEmpty/hasVolume on every box with a subset of its 2d slots at the extreme value (others at a lattice value or one step inside the extreme); all copies and element types");

MON_MAIN ("c13_box")
