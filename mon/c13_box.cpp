// C13 - Box / Interval are closed axis-aligned point sets; box transforms are tight.
//
// This TU: the set-theoretic part on the integer lattice.
//   model  = the set {p : lo <= p <= hi} with small int coordinates (c13_common.h);
//   copies = Box<Vec2<T>>, Box<Vec3<T>> (specialisations), the generic Box<V> on W2<T>, W3<T>
//            (thin classes derived from Vec2/Vec3, same data as the specialisations) and on
//            Vec4<T>, and Interval<T>;  T in {short,int,int64_t,float,double,half}.
// Sub-checks here: point_membership, box_queries, clip_nearest.  c13_pairs.cpp: intersects_box,
// intersects_box_sampled, empty_infinite.  c13_extend.cpp: extendBy histories and non-lattice
// (extreme) values.  c13_algo.cpp: closestPointOnBox, transform / affineTransform.
//
// Every copy is compared with the integer model case by case; where the model is exact,
// agreement between the copies follows from that; where the statement leaves freedom
// (majorAxis ties, center of an empty box) the copies are compared with each other directly
// (keys "agree.*").
#include "c13_lattice.h"

using namespace c13;

// ================================================================== point_membership
enum { PC_INV, PC_INTERIOR, PC_BOUNDARY, PC_ADJ, PC_OUT, PC_N };
static const char* const pc_name[PC_N] = {"inverted_box", "interior", "on_boundary", "outside_adjacent", "outside"};
static inline int
classify_pt (const LBox& b, int D, const int* p, bool inv)
{
    if (inv) return PC_INV;
    if (m_contains (b, D, p))
    {
        for (int a = 0; a < D; ++a) if (p[a] == b.lo[a] || p[a] == b.hi[a]) return PC_BOUNDARY;
        return PC_INTERIOR;
    }
    for (int a = 0; a < D; ++a) if (p[a] < b.lo[a] - 1 || p[a] > b.hi[a] + 1) return PC_OUT;
    return PC_ADJ;
}

template <class K1, class K2> struct Membership
{
    static void run (Ctx& c, uint64_t gidx, uint64_t code, int R)
    {
        constexpr int  D    = K1::D;
        constexpr bool two  = !std::is_same<K2, NoKind>::value;
        const int      Rp   = R + 1;
        LBox           lb;
        decode_box (code, D, R, lb);
        const bool  inv = m_empty (lb, D);
        const auto  b1  = mkbox<K1> (lb);
        const auto& P1  = pt_table<K1> (Rp);
        const auto& IP  = ipt_table (D, Rp);
        using K2e       = std::conditional_t<two, K2, K1>;
        const auto  b2  = mkbox<K2e> (lb);
        const auto& P2  = pt_table<K2e> (Rp);
        uint64_t    cnt[PC_N] = {0};
        for (size_t k = 0; k < IP.size (); ++k)
        {
            const int* p    = IP[k].data ();
            const bool want = m_contains (lb, D, p);
            const int  pc   = classify_pt (lb, D, p, inv);
            ++cnt[pc];
            const bool g1 = b1.intersects (P1[k]);
            if (g1 != want)
                c.fail ("intersects(point)." + K1::name () + ":" + pc_name[pc], gidx, [&] { return Obj ().kv ("box", lbox_str (lb, D)).kv ("point", ipt_str (p, D)).kv ("got", g1).kv ("want", want).str (); });
            if constexpr (two)
            {
                const bool g2 = b2.intersects (P2[k]);
                if (g2 != want)
                    c.fail ("intersects(point)." + K2::name () + ":" + pc_name[pc], gidx, [&] { return Obj ().kv ("box", lbox_str (lb, D)).kv ("point", ipt_str (p, D)).kv ("got", g2).kv ("want", want).str (); });
            }
        }
        c.eval (IP.size () * (two ? 2 : 1));
        for (int k = 0; k < PC_N; ++k) if (cnt[k]) c.cls (pc_name[k], cnt[k]);
        c.nontrivial_enum (cnt[PC_INV] + cnt[PC_BOUNDARY] + cnt[PC_ADJ]);
        if (code % 1009 == 17)
            c.sample (K1::name ().c_str (), [&] { return Obj ().kv ("box", lbox_str (lb, D)).kv ("points", (unsigned long long) IP.size ()).kv ("inside", (unsigned long long) (cnt[PC_INTERIOR] + cnt[PC_BOUNDARY])).str (); });
    }
};
static const VarTable&
tab_membership ()
{
    static const VarTable t = make_table<Membership, true> (R_MEMBERS);
    return t;
}
MON_SUB ([] (Ctx& c, uint64_t b, uint64_t e) { tab_membership ().run (c, b, e); }, "point_membership", tab_membership ().total (false), tab_membership ().total (true))
    .req ({"inverted_box", "interior", "on_boundary", "outside_adjacent", "outside"})
    .exh ()
    .chunked (64)
    .over ("intersects(point) = membership: every lattice box (min,max in {-2..2}^d, d=2,3; {-3..3} for Interval; {-1..1}^4 quick / {-2..2}^4 thorough for Vec4; inverted included) x every lattice point one step beyond, for Box<Vec2>, Box<Vec3>, generic Box on W2/W3/Vec4, Interval, T in {short,int,int64,float,double,half}; non-trivial = point on the boundary, adjacent outside, or box inverted");

// ================================================================== box_queries
struct QRes
{
    bool   empty, vol, inf;
    double size[4], center[4];
    int    major;
};
template <class K> static QRes
queries (const typename K::B& b)
{
    QRes r{};
    r.empty = b.isEmpty ();
    r.vol   = b.hasVolume ();
    r.inf   = b.isInfinite ();
    auto s  = b.size ();
    auto ce = b.center ();
    for (int a = 0; a < K::D; ++a) { r.size[a] = to_d (K::get (s, a)); r.center[a] = to_d (K::get (ce, a)); }
    if constexpr (!K::is_interval) r.major = (int) b.majorAxis ();
    else r.major = 0;
    return r;
}
static std::string
box_class (const LBox& lb, int D)
{
    int ninv = 0, nflat = 0;
    for (int a = 0; a < D; ++a) { ninv += lb.hi[a] < lb.lo[a]; nflat += lb.hi[a] == lb.lo[a]; }
    if (ninv == D) return "inverted_all_axes";
    if (ninv) return "inverted_some_axes";
    if (nflat == D) return "point_box";
    if (nflat) return "flat_box";
    return "volume_box";
}
template <class K> static void
judge_queries (Ctx& c, uint64_t gidx, const LBox& lb, const QRes& r, const std::string& bc)
{
    constexpr int D   = K::D;
    using S           = typename K::S;
    const bool inv    = m_empty (lb, D);
    bool       vol    = true;
    int        msz[4] = {0, 0, 0, 0}, mmax = 0;
    for (int a = 0; a < D; ++a)
    {
        if (lb.hi[a] <= lb.lo[a]) vol = false;
        msz[a] = inv ? 0 : lb.hi[a] - lb.lo[a];
        mmax   = std::max (mmax, msz[a]);
    }
    auto desc = [&] (const char* fn, double got, double want) { return Obj ().kv ("box", lbox_str (lb, D)).kv ("function", fn).kv ("got", got).kv ("want", want).str (); };
    if (r.empty != inv) c.fail ("isEmpty." + K::name () + ":" + bc, gidx, [&] { return desc ("isEmpty", r.empty, inv); });
    if (r.vol != vol) c.fail ("hasVolume." + K::name () + ":" + bc, gidx, [&] { return desc ("hasVolume", r.vol, vol); });
    if (r.inf) c.fail ("isInfinite." + K::name () + ":" + bc, gidx, [&] { return desc ("isInfinite", 1, 0); });
    for (int a = 0; a < D; ++a)
    {
        if (r.size[a] != (double) msz[a]) c.fail ("size." + K::name () + ":" + bc, gidx, [&] { return desc ("size", r.size[a], msz[a]); });
        if (!inv)
        {
            // (max+min)/2 in the element type: integer division truncates towards zero
            int    sum  = lb.hi[a] + lb.lo[a];
            double want = is_int_v<S> ? (double) (sum / 2) : sum / 2.0;
            if (r.center[a] != want) c.fail ("center." + K::name () + ":" + bc, gidx, [&] { return desc ("center", r.center[a], want); });
        }
    }
    if constexpr (!K::is_interval)
    {
        // "the dimension with the greatest difference between maximum and minimum" (size() is 0 for an empty box)
        if (r.major < 0 || r.major >= D || msz[r.major] != mmax)
            c.fail ("majorAxis." + K::name () + ":" + bc, gidx, [&] { return desc ("majorAxis", r.major, -1); });
    }
}
template <class K1, class K2> struct Queries
{
    static void run (Ctx& c, uint64_t gidx, uint64_t code, int R)
    {
        constexpr int  D   = K1::D;
        constexpr bool two = !std::is_same<K2, NoKind>::value;
        LBox           lb;
        decode_box (code, D, R, lb);
        std::string bc = box_class (lb, D);
        int  mmax = -1, nmax = 0;
        for (int a = 0; a < D; ++a)
        {
            int s = m_empty (lb, D) ? 0 : lb.hi[a] - lb.lo[a];
            if (s > mmax) { mmax = s; nmax = 1; }
            else if (s == mmax) ++nmax;
        }
        c.cls (bc);
        if (nmax > 1 && !K1::is_interval) c.cls ("major_axis_tie");
        if (!m_empty (lb, D))
        {
            bool odd = false, neg = false;
            for (int a = 0; a < D; ++a) { int s = lb.hi[a] + lb.lo[a]; if (s % 2) { odd = true; if (s < 0) neg = true; } }
            if (odd) c.cls ("center_half_integer");
            if (neg) c.cls ("center_negative_half_integer");
        }
        QRes r1 = queries<K1> (mkbox<K1> (lb));
        judge_queries<K1> (c, gidx, lb, r1, bc);
        c.eval (K1::is_interval ? 5 : 6);
        if constexpr (two)
        {
            QRes r2 = queries<K2> (mkbox<K2> (lb));
            judge_queries<K2> (c, gidx, lb, r2, bc);
            c.eval (6);
            // where the statement leaves freedom the copies must still coincide
            std::string pair = K1::name () + "_vs_" + K2::name ();
            if (r1.major != r2.major)
                c.fail ("agree.majorAxis." + pair + ":" + (nmax > 1 ? "tie" : "unique_maximum"), gidx, [&] { return Obj ().kv ("box", lbox_str (lb, D)).kv ("specialisation", r1.major).kv ("generic", r2.major).str (); });
            for (int a = 0; a < D; ++a)
            {
                if (r1.center[a] != r2.center[a])
                    c.fail ("agree.center." + pair + ":" + bc, gidx, [&] { return Obj ().kv ("box", lbox_str (lb, D)).kv ("axis", a).kv ("specialisation", r1.center[a]).kv ("generic", r2.center[a]).str (); });
                if (r1.size[a] != r2.size[a])
                    c.fail ("agree.size." + pair + ":" + bc, gidx, [&] { return Obj ().kv ("box", lbox_str (lb, D)).kv ("axis", a).kv ("specialisation", r1.size[a]).kv ("generic", r2.size[a]).str (); });
            }
            if (r1.empty != r2.empty || r1.vol != r2.vol || r1.inf != r2.inf)
                c.fail ("agree.predicates." + pair + ":" + bc, gidx, [&] { return Obj ().kv ("box", lbox_str (lb, D)).str (); });
        }
        c.nontrivial_enum (1);
        if (code % 977 == 5)
            c.sample ((K1::name () + ":" + bc).c_str (), [&] { return Obj ().kv ("box", lbox_str (lb, D)).kv ("isEmpty", r1.empty).kv ("hasVolume", r1.vol).kv ("majorAxis", r1.major).arr ("size", r1.size, D).arr ("center", r1.center, D).str (); });
    }
};
static const VarTable&
tab_queries ()
{
    static const VarTable t = make_table<Queries, true> (R_MEMBERS);
    return t;
}
MON_SUB ([] (Ctx& c, uint64_t b, uint64_t e) { tab_queries ().run (c, b, e); }, "box_queries", tab_queries ().total (false), tab_queries ().total (true))
    .req ({"inverted_all_axes", "inverted_some_axes", "point_box", "flat_box", "volume_box", "major_axis_tie", "center_half_integer", "center_negative_half_integer"})
    .exh ()
    .chunked (256)
    .over ("isEmpty, hasVolume, isInfinite, size, center, majorAxis on every lattice box (same enumeration as point_membership) against their definitions from min/max (size 0 and majorAxis over size 0 for empty boxes; center judged on non-empty boxes, integer types truncate); specialisation vs generic compared directly on center/size/majorAxis for every box");

// ================================================================== clip_nearest
// 1-D nearest point of [lo,hi] to p by brute force over the lattice (unique: the squared distance
// is strictly convex).  A d-dimensional box is a product of intervals and the squared distance a
// sum over the axes, so the nearest point is the per-axis nearest; this separability is itself
// re-checked by full d-dimensional brute force where that is cheap (T = int variants).
static const struct Near1
{
    int t[7][7][9];
    Near1 ()
    {
        for (int lo = -3; lo <= 3; ++lo)
            for (int hi = -3; hi <= 3; ++hi)
                for (int p = -4; p <= 4; ++p)
                {
                    int best = 99, bq = 0, nbest = 0;
                    for (int q = lo; q <= hi; ++q)
                    {
                        int d = (q - p) * (q - p);
                        if (d < best) { best = d; bq = q; nbest = 1; }
                        else if (d == best) ++nbest;
                    }
                    t[lo + 3][hi + 3][p + 4] = (nbest == 1) ? bq : 99;
                }
    }
    int operator() (int lo, int hi, int p) const { return t[lo + 3][hi + 3][p + 4]; }
} g_near1;

static bool
bruteforce_nearest (const LBox& lb, int D, const int* p, int* best_q)
{
    // all lattice points of the box; exact squared distances; the minimiser must be unique
    int  q[4], bestd = 1 << 30, nbest = 0;
    int  lo[4] = {0, 0, 0, 0}, hi[4] = {0, 0, 0, 0};
    for (int a = 0; a < D; ++a) { lo[a] = lb.lo[a]; hi[a] = lb.hi[a]; }
    for (q[3] = lo[3]; q[3] <= hi[3]; ++q[3])
        for (q[2] = lo[2]; q[2] <= hi[2]; ++q[2])
            for (q[1] = lo[1]; q[1] <= hi[1]; ++q[1])
                for (q[0] = lo[0]; q[0] <= hi[0]; ++q[0])
                {
                    int d = 0;
                    for (int a = 0; a < D; ++a) d += (q[a] - p[a]) * (q[a] - p[a]);
                    if (d < bestd) { bestd = d; nbest = 1; for (int a = 0; a < 4; ++a) best_q[a] = q[a]; }
                    else if (d == bestd) ++nbest;
                }
    return nbest == 1;
}

template <class K> static void
clip_one (Ctx& c, uint64_t gidx, const LBox& lb, const typename K::B& b, const int* p, const typename K::P& P, const int* want, const char* pcls)
{
    constexpr int D  = K::D;
    auto          q1 = clip (P, b);
    auto          q2 = closestPointInBox (P, b);
    for (int a = 0; a < D; ++a)
    {
        if (to_d (K::get (q1, a)) != (double) want[a])
            c.fail ("clip." + K::name () + ":" + pcls, gidx, [&] { return Obj ().kv ("box", lbox_str (lb, D)).kv ("point", ipt_str (p, D)).kv ("got", pt_str<K> (q1)).kv ("nearest", ipt_str (want, D)).str (); });
        if (to_d (K::get (q2, a)) != (double) want[a])
            c.fail ("closestPointInBox." + K::name () + ":" + pcls, gidx, [&] { return Obj ().kv ("box", lbox_str (lb, D)).kv ("point", ipt_str (p, D)).kv ("got", pt_str<K> (q2)).kv ("nearest", ipt_str (want, D)).str (); });
    }
}
template <class K1, class K2> struct Clip
{
    static void run (Ctx& c, uint64_t gidx, uint64_t code, int R)
    {
        constexpr int  D   = K1::D;
        constexpr bool two = !std::is_same<K2, NoKind>::value;
        const int      Rp  = R + 1;
        LBox           lb;
        decode_box (code, D, R, lb);
        const auto& IP = ipt_table (D, Rp);
        if (m_empty (lb, D))
        {
            c.cls ("skipped_empty_box", IP.size ()); // no nearest point exists: not judged
            return;
        }
        const auto  b1 = mkbox<K1> (lb);
        const auto& P1 = pt_table<K1> (Rp);
        using K2e      = std::conditional_t<two, K2, K1>;
        const auto  b2 = mkbox<K2e> (lb);
        const auto& P2 = pt_table<K2e> (Rp);
        const bool  bf = std::is_same<typename K1::S, int>::value && (D <= 3 || R == 1);
        uint64_t    n_in = 0, n_face = 0, n_edge = 0;
        for (size_t k = 0; k < IP.size (); ++k)
        {
            const int* p = IP[k].data ();
            int        want[4] = {0, 0, 0, 0}, moved = 0;
            for (int a = 0; a < D; ++a) { want[a] = g_near1 (lb.lo[a], lb.hi[a], p[a]); moved += want[a] != p[a]; }
            const char* pcls = moved == 0 ? "inside" : moved == 1 ? "outside_one_axis" : "outside_edge_or_corner";
            (moved == 0 ? n_in : moved == 1 ? n_face : n_edge)++;
            if (bf)
            {
                int  bq[4];
                bool uniq = bruteforce_nearest (lb, D, p, bq), same = true;
                for (int a = 0; a < D; ++a) same = same && bq[a] == want[a];
                if (!uniq || !same)
                    c.fail ("oracle.clip:separable_model_inconsistent", gidx, [&] { return Obj ().kv ("box", lbox_str (lb, D)).kv ("point", ipt_str (p, D)).kv ("bruteforce", ipt_str (bq, D)).kv ("model", ipt_str (want, D)).str (); });
            }
            clip_one<K1> (c, gidx, lb, b1, p, P1[k], want, pcls);
            if constexpr (two) clip_one<K2e> (c, gidx, lb, b2, p, P2[k], want, pcls);
        }
        c.eval (IP.size () * (two ? 4 : 2));
        c.cls ("inside", n_in);
        c.cls ("outside_one_axis", n_face);
        c.cls ("outside_edge_or_corner", n_edge);
        if (bf) c.cls ("bruteforce_crosscheck", IP.size ());
        c.nontrivial_enum (n_face + n_edge);
        if (code % 1201 == 600)
            c.sample (K1::name ().c_str (), [&] { return Obj ().kv ("box", lbox_str (lb, D)).kv ("points", (unsigned long long) IP.size ()).str (); });
    }
};
static const VarTable&
tab_clip ()
{
    static const VarTable t = make_table<Clip, false> (R_MEMBERS);
    return t;
}
MON_SUB ([] (Ctx& c, uint64_t b, uint64_t e) { tab_clip ().run (c, b, e); }, "clip_nearest", tab_clip ().total (false), tab_clip ().total (true))
    .req ({"inside", "outside_one_axis", "outside_edge_or_corner", "bruteforce_crosscheck", "skipped_empty_box"})
    .exh ()
    .chunked (64)
    .over ("clip and closestPointInBox = the nearest lattice point of the box (exact squared distances; per-axis brute force, cross-checked by full d-dimensional brute force for T=int): every non-empty lattice box x every lattice point, all Box copies and element types; empty boxes counted, not judged; non-trivial = point outside the box");


MON_MAIN ("c13_box")
