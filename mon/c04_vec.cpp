// C04 - operators and equality of Vec2/3/4 x {short,int,int64_t,half,float,double}
// (harness in c04_common.h).  This TU also holds MON_MAIN of the c04_aggregates monitor.
#include "c04_common.h"
using namespace IMATH_INTERNAL_NAMESPACE;

C04_REG_OPS (Vec2<short>, "Vec2_short");
C04_REG_OPS (Vec2<int>, "Vec2_int");
C04_REG_OPS (Vec2<int64_t>, "Vec2_int64");
C04_REG_OPS (Vec2<half>, "Vec2_half");
C04_REG_OPS (Vec2<float>, "Vec2_float");
C04_REG_OPS (Vec2<double>, "Vec2_double");
C04_REG_OPS (Vec3<short>, "Vec3_short");
C04_REG_OPS (Vec3<int>, "Vec3_int");
C04_REG_OPS (Vec3<int64_t>, "Vec3_int64");
C04_REG_OPS (Vec3<half>, "Vec3_half");
C04_REG_OPS (Vec3<float>, "Vec3_float");
C04_REG_OPS (Vec3<double>, "Vec3_double");
C04_REG_OPS (Vec4<short>, "Vec4_short");
C04_REG_OPS (Vec4<int>, "Vec4_int");
C04_REG_OPS (Vec4<int64_t>, "Vec4_int64");
C04_REG_OPS (Vec4<half>, "Vec4_half");
C04_REG_OPS (Vec4<float>, "Vec4_float");
C04_REG_OPS (Vec4<double>, "Vec4_double");

C04_REG_EQ (Vec2<short>, "Vec2_short");
C04_REG_EQ (Vec2<int>, "Vec2_int");
C04_REG_EQ (Vec2<int64_t>, "Vec2_int64");
C04_REG_EQ (Vec2<half>, "Vec2_half");
C04_REG_EQ (Vec2<float>, "Vec2_float");
C04_REG_EQ (Vec2<double>, "Vec2_double");
C04_REG_EQ (Vec3<short>, "Vec3_short");
C04_REG_EQ (Vec3<int>, "Vec3_int");
C04_REG_EQ (Vec3<int64_t>, "Vec3_int64");
C04_REG_EQ (Vec3<half>, "Vec3_half");
C04_REG_EQ (Vec3<float>, "Vec3_float");
C04_REG_EQ (Vec3<double>, "Vec3_double");
C04_REG_EQ (Vec4<short>, "Vec4_short");
C04_REG_EQ (Vec4<int>, "Vec4_int");
C04_REG_EQ (Vec4<int64_t>, "Vec4_int64");
C04_REG_EQ (Vec4<half>, "Vec4_half");
C04_REG_EQ (Vec4<float>, "Vec4_float");
C04_REG_EQ (Vec4<double>, "Vec4_double");

MON_MAIN ("c04_aggregates")
