// C04 - operators and equality of Vec2/3/4 x {short,int,int64_t,half,float,double}
// (harness in c04_common.h).  This TU also holds MON_MAIN of the c04_aggregates monitor.
#include "c04_common.h"
using namespace IMATH_INTERNAL_NAMESPACE;

C04_REG_OPS (Vec2<short>, "Vec2_short");
C04_REG_OPS (Vec2<int>, "Vec2_int");
C04_REG_OPS (Vec2<int64_t>, "Vec2_int64");
C04_REG_OPS (Vec2<half>, "Vec2_half");
C04_REG_OPS (Vec2<float>, "Vec2_float");
C04_REG_OPS (Vec2<double>, "Vec2_double");
C04_REG_OPS (Vec3<short>, "Vec3_short");
C04_REG_OPS (Vec3<int>, "Vec3_int");
C04_REG_OPS (Vec3<int64_t>, "Vec3_int64");
C04_REG_OPS (Vec3<half>, "Vec3_half");
C04_REG_OPS (Vec3<float>, "Vec3_float");
C04_REG_OPS (Vec3<double>, "Vec3_double");
C04_REG_OPS (Vec4<short>, "Vec4_short");
C04_REG_OPS (Vec4<int>, "Vec4_int");
C04_REG_OPS (Vec4<int64_t>, "Vec4_int64");
C04_REG_OPS (Vec4<half>, "Vec4_half");
C04_REG_OPS (Vec4<float>, "Vec4_float");
C04_REG_OPS (Vec4<double>, "Vec4_double");

C04_REG_EQ (Vec2<short>, "Vec2_short");
C04_REG_EQ (Vec2<int>, "Vec2_int");
C04_REG_EQ (Vec2<int64_t>, "Vec2_int64");
C04_REG_EQ (Vec2<half>, "Vec2_half");
C04_REG_EQ (Vec2<float>, "Vec2_float");
C04_REG_EQ (Vec2<double>, "Vec2_double");
C04_REG_EQ (Vec3<short>, "Vec3_short");
C04_REG_EQ (Vec3<int>, "Vec3_int");
C04_REG_EQ (Vec3<int64_t>, "Vec3_int64");
C04_REG_EQ (Vec3<half>, "Vec3_half");
C04_REG_EQ (Vec3<float>, "Vec3_float");
C04_REG_EQ (Vec3<double>, "Vec3_double");
C04_REG_EQ (Vec4<short>, "Vec4_short");
C04_REG_EQ (Vec4<int>, "Vec4_int");
C04_REG_EQ (Vec4<int64_t>, "Vec4_int64");
C04_REG_EQ (Vec4<half>, "Vec4_half");
C04_REG_EQ (Vec4<float>, "Vec4_float");
C04_REG_EQ (Vec4<double>, "Vec4_double");

// ---- == and != between vectors of DIFFERENT element types (template <class S> operator== (const VecN<S>&)): the result is the
// AND / OR over slots of the scalar comparison under the usual arithmetic conversions - a right operand that is not representable
// in the left operand's element type must not be narrowed first.  Added after seeded change C04-8.
namespace
{
template <class T, class S> inline typename std::enable_if<std::is_floating_point<S>::value, S>::type unrepresentable_neighbour (T a)
{
    if (std::is_integral<T>::value) return (S) a + (S) 0.5;
    return std::nextafter ((S) a, (S) 1e30); // S wider than T
}
template <class T, class S> inline typename std::enable_if<std::is_integral<S>::value, S>::type unrepresentable_neighbour (T a)
{
    return (S) ((S) a + (S) ((S) 1 << (8 * sizeof (T)))); // wider integer: differs by 2^bits(T)
}
template <class V, class W> void run_eq_mixed (mon::Ctx& c, uint64_t idx)
{
    using namespace c04;
    typedef typename Tr<V>::E T;
    typedef typename Tr<W>::E S;
    constexpr int N = Tr<V>::N;
    mon::Rng r = c.rng (idx);
    T        a[N];
    S        b[N];
    for (int i = 0; i < N; ++i) { a[i] = (T) r.range (-100, 100); b[i] = (S) a[i]; }
    const int k = (int) ((idx / 3) % N);
    const char* cls = "mixed_types_all_slots_equal";
    if (idx % 3 == 1) { b[k] = unrepresentable_neighbour<T, S> (a[k]); cls = "mixed_types_one_slot_differs_by_an_amount_lost_in_narrowing"; }
    else if (idx % 3 == 2) { b[k] = (S) (a[k] + (T) 1); cls = "mixed_types_one_slot_differs_by_one"; }
    c.cls (cls);
    c.nontrivial (hash_combine (hash_vals (11, a, N), idx % (3 * N)));
    const V va = make<V> (a);
    const W vb = make<W> (b);
    bool weq = true, wne = false;
    for (int i = 0; i < N; ++i) { weq = weq && (a[i] == b[i]); wne = wne || (a[i] != b[i]); }
    c.eval (2);
    const bool geq = va == vb, gne = va != vb;
    auto desc = [&] { return Obj ().kv ("class", cls).raw ("a", sarr (a, N)).raw ("b", sarr (b, N)).kv ("slot", k).kv ("==", geq).kv ("!=", gne).kv ("want==", weq).kv ("want!=", wne).str (); };
    if (geq != weq) c.fail (std::string ("operator==(Vec<S>).") + Tr<V>::name () + ":" + cls, idx, desc);
    if (gne != wne) c.fail (std::string ("operator!=(Vec<S>).") + Tr<V>::name () + ":" + cls, idx, desc);
}
} // namespace
#define C04_REG_EQMIX(V, W, tag)                                                                                     \
    MON_SUB_IDX ((run_eq_mixed<V, W>), "eq_mixed_" tag, 12000, 1200000)                                                \
        .req ({"mixed_types_all_slots_equal", "mixed_types_one_slot_differs_by_an_amount_lost_in_narrowing", "mixed_types_one_slot_differs_by_one"}) \
        .over ("==, != of a vector with a vector of another element type: AND / OR over slots of the scalar comparison; idx mod 3: equal / one slot differs by an amount that narrowing to the left type would lose / by one")
C04_REG_EQMIX (Vec2<int>, Vec2<float>, "Vec2_int_float");
C04_REG_EQMIX (Vec2<float>, Vec2<double>, "Vec2_float_double");
C04_REG_EQMIX (Vec2<short>, Vec2<int>, "Vec2_short_int");
C04_REG_EQMIX (Vec3<int>, Vec3<double>, "Vec3_int_double");
C04_REG_EQMIX (Vec3<float>, Vec3<double>, "Vec3_float_double");
C04_REG_EQMIX (Vec3<int>, Vec3<int64_t>, "Vec3_int_int64");
C04_REG_EQMIX (Vec4<int>, Vec4<float>, "Vec4_int_float");
C04_REG_EQMIX (Vec4<float>, Vec4<double>, "Vec4_float_double");
C04_REG_EQMIX (Vec4<short>, Vec4<int>, "Vec4_short_int");
C04_REG_EQMIX (Vec4<int>, Vec4<int64_t>, "Vec4_int_int64");

MON_MAIN ("c04_aggregates")
