// C09 part 2 - the in-place forms act on ARBITRARY (non-affine) current matrices as the
// documented product:
//     M.translate(t) = setTranslation(t) * M      M.scale(s) = setScale(s) * M
//     M.shear(h)     = setShear(h) * M            Matrix44::rotate(r) = setEulerAngles(r) * M
//     Matrix22/33::rotate(a) = M * setRotation(a)                      (post-multiplication!)
//
// The set* matrix is the library's own (part 1 judges it against the documentation); the
// product is evaluated (i) by loops in long double here and (ii) by the library's operator*.
// Integer-lattice cases must agree bit for bit with both; all other cases must lie within
// C*eps*sum|terms| of (i) - the bound that holds for ANY evaluation order of a 4-term sum of
// products - and the distance to (ii) in ulps is recorded (0 on every case so far).
// The rotate forms are additionally compared with a Rodrigues reference built here.
#include "c09_common.h"
using namespace c09;

static const double C_INPLACE     = 16; // |got - ref| <= C (eps sum|terms| + underflow); theory for any evaluation order of 4 terms: 2; worst seen 1.87
static const double C_ROT_INPLACE = 24; // rotate forms vs Rodrigues reference: |got - R_ref M| <= C eps sum_k |M_kj|; worst seen 2.13

static const char* const OPN[12] = {"Matrix33.translate",  "Matrix33.scale",         "Matrix33.shear(S)", "Matrix33.shear(Vec2)",
                                    "Matrix44.translate",  "Matrix44.scale",         "Matrix44.shear(Vec3)", "Matrix44.shear(Shear6)",
                                    "Matrix44.rotate",     "Matrix22.scale",         "Matrix22.rotate",   "Matrix33.rotate"};
static const int         OPDIM[12] = {3, 3, 3, 3, 4, 4, 4, 4, 4, 2, 2, 3};
static const int         OPNP[12]  = {2, 2, 1, 2, 3, 3, 3, 6, 3, 2, 1, 1};

template <class T, class MT, class OpF, class SetF> static void
run_op (int N, const T M0[4][4], OpF op, SetF set, bool post, T G[4][4], T S[4][4], T W[4][4], bool& retref)
{
    MT m;
    for (int i = 0; i < N; ++i) for (int j = 0; j < N; ++j) m[i][j] = M0[i][j];
    MT        m0 (m);
    const MT& ret = op (m);
    retref        = &ret == &m;
    MT s; // set* overwrites every entry (judged in part 1)
    set (s);
    MT w = post ? m0 * s : s * m0;
    for (int i = 0; i < N; ++i)
        for (int j = 0; j < N; ++j) { G[i][j] = m[i][j]; S[i][j] = s[i][j]; W[i][j] = w[i][j]; }
}

template <class T> static void
sub_inplace (Ctx& c, Local& L, uint64_t idx)
{
    Rng            r   = c.rng (idx);
    const bool     F   = TN<T>::is_float;
    const unsigned op  = (unsigned) (idx % 12);
    const unsigned mc  = (unsigned) ((idx / 12) % 8);
    const int      N = OPDIM[op], np = OPNP[op];
    const bool     post = op >= 10, isrot = op == 8 || op >= 10;
    const char *fn = OPN[op], *ty = TN<T>::n ();

    // ---- current matrix by class
    static const char* const MCN[8] = {"lattice",        "random_dense_nonaffine", "affine",          "wide_exponent",
                                       "sparse",         "identity",               "last_column_only", "dense_one_nonzero_param"};
    const char* mcn = MCN[mc];
    T           M0[4][4];
    for (int i = 0; i < 4; ++i)
        for (int j = 0; j < 4; ++j)
        {
            T v;
            switch (mc)
            {
                case 0: v = (T) r.range (-8, 8); break;
                case 2: v = j == N - 1 ? (T) (i == N - 1 ? 1 : 0) : (T) (r.gauss () * 2); break;
                case 3: v = (T) r.logscale (-20, 20); break;
                case 4: v = r.coin () ? (T) 0 : (T) (r.gauss () * 2); break;
                case 5: v = (T) (i == j ? 1 : 0); break;
                case 6: v = j == N - 1 ? (T) (r.gauss () * 2) : (T) (i == j ? 1 : 0); break;
                default: v = (T) (r.gauss () * 2); break;
            }
            M0[i][j] = v;
        }
    // ---- parameters
    T           par[6] = {0, 0, 0, 0, 0, 0};
    const char *a0 = "", *a1 = "", *a2 = "";
    bool        zero_angle = false;
    if (isrot)
    {
        unsigned k = (unsigned) (idx / 96);
        par[0] = gen_angle<T> (r, k, a0);
        if (np == 3) { par[1] = gen_angle<T> (r, k / 8, a1); par[2] = gen_angle<T> (r, k / 64, a2); }
        if (mc == 5 || (mc == 0 && r.coin ())) { zero_angle = true; for (int i = 0; i < np; ++i) par[i] = r.coin () ? (T) 0 : -(T) 0; }
    }
    else
    {
        int nz = (int) r.range (0, np - 1);
        for (int i = 0; i < np; ++i)
            par[i] = mc == 0 ? (T) r.range (-8, 8) : mc == 7 ? (i == nz ? (T) (r.gauss () * 4) : (T) 0) : mc == 3 ? (T) r.logscale (-20, 20) : (T) (r.gauss () * 4);
    }

    // ---- run the library: in-place form, set* matrix, library product
    T    G[4][4] = {}, S[4][4] = {}, W[4][4] = {};
    bool retref = false;
    typedef Matrix22<T> M2;
    typedef Matrix33<T> M3;
    typedef Matrix44<T> M4;
    Vec2<T>   v2 (par[0], par[1]);
    Vec3<T>   v3 (par[0], par[1], par[2]);
    Shear6<T> h6;
    h6.xy = par[0]; h6.xz = par[1]; h6.yz = par[2]; h6.yx = par[3]; h6.zx = par[4]; h6.zy = par[5];
    switch (op)
    {
        case 0: run_op<T, M3> (N, M0, [&] (M3& m) -> const M3& { return m.translate (v2); }, [&] (M3& s) { s.setTranslation (v2); }, post, G, S, W, retref); break;
        case 1: run_op<T, M3> (N, M0, [&] (M3& m) -> const M3& { return m.scale (v2); }, [&] (M3& s) { s.setScale (v2); }, post, G, S, W, retref); break;
        case 2: run_op<T, M3> (N, M0, [&] (M3& m) -> const M3& { return m.shear (par[0]); }, [&] (M3& s) { s.setShear (par[0]); }, post, G, S, W, retref); break;
        case 3: run_op<T, M3> (N, M0, [&] (M3& m) -> const M3& { return m.shear (v2); }, [&] (M3& s) { s.setShear (v2); }, post, G, S, W, retref); break;
        case 4: run_op<T, M4> (N, M0, [&] (M4& m) -> const M4& { return m.translate (v3); }, [&] (M4& s) { s.setTranslation (v3); }, post, G, S, W, retref); break;
        case 5: run_op<T, M4> (N, M0, [&] (M4& m) -> const M4& { return m.scale (v3); }, [&] (M4& s) { s.setScale (v3); }, post, G, S, W, retref); break;
        case 6: run_op<T, M4> (N, M0, [&] (M4& m) -> const M4& { return m.shear (v3); }, [&] (M4& s) { s.setShear (v3); }, post, G, S, W, retref); break;
        case 7: run_op<T, M4> (N, M0, [&] (M4& m) -> const M4& { return m.shear (h6); }, [&] (M4& s) { s.setShear (h6); }, post, G, S, W, retref); break;
        case 8: run_op<T, M4> (N, M0, [&] (M4& m) -> const M4& { return m.rotate (v3); }, [&] (M4& s) { s.setEulerAngles (v3); }, post, G, S, W, retref); break;
        case 9: run_op<T, M2> (N, M0, [&] (M2& m) -> const M2& { return m.scale (v2); }, [&] (M2& s) { s.setScale (v2); }, post, G, S, W, retref); break;
        case 10: run_op<T, M2> (N, M0, [&] (M2& m) -> const M2& { return m.rotate (par[0]); }, [&] (M2& s) { s.setRotation (par[0]); }, post, G, S, W, retref); break;
        default: run_op<T, M3> (N, M0, [&] (M3& m) -> const M3& { return m.rotate (par[0]); }, [&] (M3& s) { s.setRotation (par[0]); }, post, G, S, W, retref); break;
    }

    c.eval ();
    L.cls (mcn);
    L.cls (fn);
    if (isrot) { L.cls (a0); if (zero_angle) L.cls ("rotate_zero_angle"); }
    {
        uint64_t h = hash_arr (par, np, op);
        for (int i = 0; i < N; ++i) h = hash_arr (M0[i], N, h);
        c.nontrivial (h);
    }
    auto desc = [&] {
        Obj o;
        o.kv ("fn", fn).kv ("type", ty).kv ("matrix_class", mcn).raw ("params", vstr (par, np));
        std::string m0 = "[", g = "[", s = "[", w = "[";
        for (int i = 0; i < N; ++i)
            for (int j = 0; j < N; ++j)
            {
                if (i || j) { m0 += ","; g += ","; s += ","; w += ","; }
                m0 += jnum ((double) M0[i][j]); g += jnum ((double) G[i][j]); s += jnum ((double) S[i][j]); w += jnum ((double) W[i][j]);
            }
        o.raw ("current_matrix", m0 + "]").raw ("after_inplace_form", g + "]").raw ("set_matrix", s + "]")
            .raw (post ? "library_M_times_set" : "library_set_times_M", w + "]");
        return o.str ();
    };

    if (!retref) c.fail (K (fn, ty) + "return_ref", idx, desc);

    // ---- (i) long double product of the library's set* matrix with the current matrix
    const bool exact = (mc == 0 && !isrot) || zero_angle; // integer lattice / rotation by exactly 0: every operation is exact
    uint64_t   maxulp = 0;
    double     worst = 0;
    bool       bad_exact = false, bad_tol = false, bad_lib = false;
    int        bi = 0, bj = 0;
    for (int i = 0; i < N; ++i)
        for (int j = 0; j < N; ++j)
        {
            LD ref = 0, sa = 0;
            for (int k = 0; k < N; ++k)
            {
                LD t = post ? (LD) M0[i][k] * (LD) S[k][j] : (LD) S[i][k] * (LD) M0[k][j];
                ref += t;
                sa += fabsl (t);
            }
            uint64_t u = ulpdiff (G[i][j], W[i][j]);
            maxulp     = std::max (maxulp, u);
            if (exact)
            {
                if (!((LD) G[i][j] == ref)) { if (!bad_exact) { bi = i; bj = j; } bad_exact = true; }
                if (u != 0) { if (!bad_lib) { bi = i; bj = j; } bad_lib = true; }
            }
            else
            {
                LD     err = fabsl ((LD) G[i][j] - ref), den = (LD) EPS<T> () * sa + uflow<T> (N);
                double ratio = (double) (err / den);
                worst        = std::max (worst, ratio);
                if (!(ratio <= C_INPLACE)) { if (!bad_tol) { bi = i; bj = j; } bad_tol = true; }
            }
        }
    std::string slot = "slot[" + std::to_string (bi) + "][" + std::to_string (bj) + "]";
    if (bad_exact) c.fail (K (fn, ty) + "exact_vs_set_times_M:" + slot, idx, desc);
    if (bad_lib) c.fail (K (fn, ty) + "exact_vs_library_product:" + slot, idx, desc);
    if (bad_tol) c.fail (K (fn, ty) + "" + mcn + ":" + slot, idx, desc);
    if (!exact)
    {
        L.worst (F ? "inplace.float.err_over_eps_sumabs" : "inplace.double.err_over_eps_sumabs", worst, idx, desc);
        L.worst (F ? "inplace.float.ulps_vs_library_product" : "inplace.double.ulps_vs_library_product", (double) maxulp, idx, desc);
        L.cls (maxulp == 0 ? "bit_identical_to_library_product" : "differs_from_library_product_in_last_bits");
    }
    else L.cls ("exact_case");

    // ---- (ii) rotate forms against a Rodrigues reference (independent of setRotation / setEulerAngles)
    if (isrot)
    {
        LD R[4][4];
        for (int i = 0; i < 4; ++i) for (int j = 0; j < 4; ++j) R[i][j] = i == j ? 1 : 0;
        LD R3[3][3];
        if (op == 8)
        {
            LD Rx[3][3], Ry[3][3], Rz[3][3], Rxy[3][3];
            rodrigues (mk (1, 0, 0), (LD) par[0], Rx);
            rodrigues (mk (0, 1, 0), (LD) par[1], Ry);
            rodrigues (mk (0, 0, 1), (LD) par[2], Rz);
            mul33 (Rx, Ry, Rxy);
            mul33 (Rxy, Rz, R3);
            for (int i = 0; i < 3; ++i) for (int j = 0; j < 3; ++j) R[i][j] = R3[i][j];
        }
        else
        {
            rodrigues (mk (0, 0, 1), (LD) par[0], R3); // about (0,0,1): counter-clockwise in the xy plane
            for (int i = 0; i < 2; ++i) for (int j = 0; j < 2; ++j) R[i][j] = R3[i][j];
        }
        const int nb = op == 8 ? 3 : 2;
        double    wr = 0;
        bool      bad = false;
        for (int i = 0; i < N; ++i)
            for (int j = 0; j < N; ++j)
            {
                LD ref = 0, sa = 0;
                for (int k = 0; k < N; ++k)
                {
                    const int a = post ? k : i, b = post ? j : k; // indices into R
                    LD        mv = post ? (LD) M0[i][k] : (LD) M0[k][j];
                    ref += R[a][b] * mv;
                    // scale: the entries of the current matrix that meet a structurally non-zero entry of R
                    // (|R| <= 1; the library's rotation entries are within a few eps of R absolutely)
                    if ((a < nb && b < nb) || a == b) sa += fabsl (mv);
                }
                LD     err = fabsl ((LD) G[i][j] - ref), den = (LD) EPS<T> () * sa + uflow<T> (N);
                double ratio = (double) (err / den);
                wr           = std::max (wr, ratio);
                if (!(ratio <= C_ROT_INPLACE)) { if (!bad) { bi = i; bj = j; } bad = true; }
            }
        L.worst (F ? "rotate.float.err_vs_rodrigues_over_eps_sumabs" : "rotate.double.err_vs_rodrigues_over_eps_sumabs", wr, idx, desc);
        if (bad) c.fail (K (fn, ty) + "vs_rodrigues:slot[" + std::to_string (bi) + "][" + std::to_string (bj) + "]", idx, desc);
    }
    if (idx < 96) c.sample ((std::string (fn) + "/" + mcn).c_str (), desc);
}
#define INPLACE_REQ                                                                                                                   \
    {"lattice", "random_dense_nonaffine", "affine", "wide_exponent", "sparse", "identity", "last_column_only",                         \
     "dense_one_nonzero_param", "exact_case", "bit_identical_to_library_product", "rotate_zero_angle", C09_ANGLE_CLASSES,              \
     "Matrix33.translate", "Matrix33.scale", "Matrix33.shear(S)", "Matrix33.shear(Vec2)", "Matrix44.translate", "Matrix44.scale",      \
     "Matrix44.shear(Vec3)", "Matrix44.shear(Shear6)", "Matrix44.rotate", "Matrix22.scale", "Matrix22.rotate", "Matrix33.rotate"}
MON_SUB (ranged<sub_inplace<float>>, "inplace_forms_float", 2400000, 240000000)
    .req (INPLACE_REQ)
    .over ("12 in-place forms (M33/M44 translate, scale, shear all overloads, M44 rotate, M22 scale; M22/M33 rotate) x 8 classes of CURRENT matrix "
           "(integer lattice, dense non-affine, affine, wide exponents, sparse, identity, identity with dense last column, dense with one non-zero parameter): "
           "result vs set*(..)*M (M*setRotation for M22/M33 rotate), exact on lattices");
MON_SUB (ranged<sub_inplace<double>>, "inplace_forms_double", 2400000, 240000000)
    .req (INPLACE_REQ)
    .over ("as inplace_forms_float, for double");

// ------------------------------------------------------------------ mixed parameter types
// Every builder and in-place form is a template on the parameter's element type S (translate (const Vec2<S>&) ...).  With
// S != T:  (a) set*(p) stores T (p[i]) - bit-identical to set*(Vec<T> (p));  (b) the in-place form still equals
// set*(p) * M within C eps_T sum|terms| (the parameter may enter unrounded: |p - T(p)| |M| <= eps_T |p||M|).
// Added after seeded change C09-5 (Matrix33::shear (Vec2<S>) copied the current matrix into a Matrix33<S>).
template <class T, class S> static void
sub_inplace_mixed (Ctx& c, Local& L, uint64_t idx)
{
    static const char* const FN[9] = {"Matrix33.translate", "Matrix33.scale", "Matrix33.shear(S)", "Matrix33.shear(Vec2)", "Matrix44.translate",
                                      "Matrix44.scale",     "Matrix44.shear(Vec3)", "Matrix44.shear(Shear6)", "Matrix22.scale"};
    static const int         DIM[9] = {3, 3, 3, 3, 4, 4, 4, 4, 2};
    static const int         NP[9]  = {2, 2, 1, 2, 3, 3, 3, 6, 2};
    Rng            r  = c.rng (idx);
    const unsigned op = (unsigned) (idx % 9);
    const unsigned mc = (unsigned) ((idx / 9) % 3);
    const int      N = DIM[op], np = NP[op];
    const bool     intS = std::is_integral<S>::value;
    static const char* const MCN[3] = {"mixed.current_matrix_non_integer_dense", "mixed.current_matrix_affine", "mixed.current_matrix_wide_exponent"};
    T M0[4][4];
    for (int i = 0; i < 4; ++i)
        for (int j = 0; j < 4; ++j)
            M0[i][j] = mc == 1 ? (j == N - 1 ? (T) (i == N - 1 ? 1 : 0) : (T) (r.gauss () * 2)) : mc == 2 ? (T) r.logscale (-12, 12) : (T) (r.gauss () * 2);
    S par[6];
    for (int i = 0; i < 6; ++i) par[i] = intS ? (S) r.range (-8, 8) : (S) (r.gauss () * 4);
    T parT[6];
    for (int i = 0; i < 6; ++i) parT[i] = (T) par[i];
    typedef Matrix22<T> M2;
    typedef Matrix33<T> M3;
    typedef Matrix44<T> M4;
    Vec2<S>   v2 (par[0], par[1]);
    Vec3<S>   v3 (par[0], par[1], par[2]);
    Vec2<T>   w2 (parT[0], parT[1]);
    Vec3<T>   w3 (parT[0], parT[1], parT[2]);
    Shear6<S> h6;
    h6.xy = par[0]; h6.xz = par[1]; h6.yz = par[2]; h6.yx = par[3]; h6.zx = par[4]; h6.zy = par[5];
    Shear6<T> g6;
    g6.xy = parT[0]; g6.xz = parT[1]; g6.yz = parT[2]; g6.yx = parT[3]; g6.zx = parT[4]; g6.zy = parT[5];
    T G[4][4] = {}, SS[4][4] = {}, ST[4][4] = {};
    auto load3 = [&] (M3& m) { for (int i = 0; i < 3; ++i) for (int j = 0; j < 3; ++j) m[i][j] = M0[i][j]; };
    auto load4 = [&] (M4& m) { for (int i = 0; i < 4; ++i) for (int j = 0; j < 4; ++j) m[i][j] = M0[i][j]; };
    auto out3  = [&] (const M3& m, T (*D)[4]) { for (int i = 0; i < 3; ++i) for (int j = 0; j < 3; ++j) D[i][j] = m[i][j]; };
    auto out4  = [&] (const M4& m, T (*D)[4]) { for (int i = 0; i < 4; ++i) for (int j = 0; j < 4; ++j) D[i][j] = m[i][j]; };
    M3 a3, s3, t3;
    M4 a4, s4, t4;
    M2 a2, s2, t2;
    switch (op)
    {
        case 0: load3 (a3); a3.translate (v2); s3.setTranslation (v2); t3.setTranslation (w2); out3 (a3, G); out3 (s3, SS); out3 (t3, ST); break;
        case 1: load3 (a3); a3.scale (v2); s3.setScale (v2); t3.setScale (w2); out3 (a3, G); out3 (s3, SS); out3 (t3, ST); break;
        case 2: load3 (a3); a3.shear (par[0]); s3.setShear (par[0]); t3.setShear (parT[0]); out3 (a3, G); out3 (s3, SS); out3 (t3, ST); break;
        case 3: load3 (a3); a3.shear (v2); s3.setShear (v2); t3.setShear (w2); out3 (a3, G); out3 (s3, SS); out3 (t3, ST); break;
        case 4: load4 (a4); a4.translate (v3); s4.setTranslation (v3); t4.setTranslation (w3); out4 (a4, G); out4 (s4, SS); out4 (t4, ST); break;
        case 5: load4 (a4); a4.scale (v3); s4.setScale (v3); t4.setScale (w3); out4 (a4, G); out4 (s4, SS); out4 (t4, ST); break;
        case 6: load4 (a4); a4.shear (v3); s4.setShear (v3); t4.setShear (w3); out4 (a4, G); out4 (s4, SS); out4 (t4, ST); break;
        case 7: load4 (a4); a4.shear (h6); s4.setShear (h6); t4.setShear (g6); out4 (a4, G); out4 (s4, SS); out4 (t4, ST); break;
        default:
            for (int i = 0; i < 2; ++i) for (int j = 0; j < 2; ++j) a2[i][j] = M0[i][j];
            a2.scale (v2); s2.setScale (v2); t2.setScale (w2);
            for (int i = 0; i < 2; ++i) for (int j = 0; j < 2; ++j) { G[i][j] = a2[i][j]; SS[i][j] = s2[i][j]; ST[i][j] = t2[i][j]; }
            break;
    }
    c.eval ();
    L.cls (MCN[mc]);
    L.cls (FN[op]);
    {
        uint64_t h = hash_arr (parT, np, op + 100);
        for (int i = 0; i < N; ++i) h = hash_arr (M0[i], N, h);
        c.nontrivial (h);
    }
    const std::string ty = std::string (TN<T>::n ()) + "_with_" + (intS ? "int" : sizeof (S) == 4 ? "float" : "double") + "_parameters";
    auto desc = [&] {
        Obj o;
        o.kv ("fn", FN[op]).kv ("type", ty).kv ("matrix_class", MCN[mc]).raw ("params_as_T", vstr (parT, np));
        std::string m0 = "[", g = "[";
        for (int i = 0; i < N; ++i)
            for (int j = 0; j < N; ++j) { if (i || j) { m0 += ","; g += ","; } m0 += jnum ((double) M0[i][j]); g += jnum ((double) G[i][j]); }
        o.raw ("current_matrix", m0 + "]").raw ("after_inplace_form", g + "]");
        return o.str ();
    };
    bool bad_set = false, bad_tol = false;
    int  bi = 0, bj = 0;
    double worst = 0;
    for (int i = 0; i < N; ++i)
        for (int j = 0; j < N; ++j)
        {
            if (ulpdiff (SS[i][j], ST[i][j]) != 0) bad_set = true;
            LD ref = 0, sa = 0;
            for (int k = 0; k < N; ++k)
            {
                LD t = (LD) ST[i][k] * (LD) M0[k][j];
                ref += t;
                sa += fabsl (t);
            }
            LD     err = fabsl ((LD) G[i][j] - ref), den = (LD) EPS<T> () * sa + uflow<T> (N);
            double ratio = (double) (err / den);
            worst        = std::max (worst, ratio);
            if (!(ratio <= C_INPLACE)) { if (!bad_tol) { bi = i; bj = j; } bad_tol = true; }
        }
    if (bad_set) c.fail (std::string (FN[op]) + "." + ty + ":set_form_differs_from_converted_parameter", idx, desc);
    if (bad_tol) c.fail (std::string (FN[op]) + "." + ty + ":inplace_vs_set_times_M:slot[" + std::to_string (bi) + "][" + std::to_string (bj) + "]", idx, desc);
    L.worst ("inplace.mixed.err_over_eps_sumabs", worst, idx, desc);
}
#define MIXED_REQ                                                                                                                        \
    {"mixed.current_matrix_non_integer_dense", "mixed.current_matrix_affine", "mixed.current_matrix_wide_exponent", "Matrix33.translate",   \
     "Matrix33.scale", "Matrix33.shear(S)", "Matrix33.shear(Vec2)", "Matrix44.translate", "Matrix44.scale", "Matrix44.shear(Vec3)",        \
     "Matrix44.shear(Shear6)", "Matrix22.scale"}
MON_SUB ((ranged<sub_inplace_mixed<float, double>>), "inplace_forms_float_matrix_double_parameters", 270000, 27000000).req (MIXED_REQ)
    .over ("9 in-place forms and their set* twins on a float matrix with double parameters x 3 classes of current matrix: set*(p) == set*(T(p)) bitwise; in-place form vs set*(p)*M within C eps_T sum|terms|");
MON_SUB ((ranged<sub_inplace_mixed<double, float>>), "inplace_forms_double_matrix_float_parameters", 270000, 27000000).req (MIXED_REQ).over ("as above, double matrix, float parameters");
MON_SUB ((ranged<sub_inplace_mixed<float, int>>), "inplace_forms_float_matrix_int_parameters", 270000, 27000000).req (MIXED_REQ).over ("as above, float matrix, int parameters");
MON_SUB ((ranged<sub_inplace_mixed<double, int>>), "inplace_forms_double_matrix_int_parameters", 270000, 27000000).req (MIXED_REQ).over ("as above, double matrix, int parameters");
