// C06 monitor, float instantiation + main (see c06_inv.h for the oracle and conventions)
#include "c06_inv.h"
#define C06_T float
#define C06_TN "float"
#include "c06_inv_reg.h"
MON_MAIN ("c06_inv")
