// C06 - matrix inversion returns a true inverse or a clean singular outcome.
// Shared template machinery of the C06 monitor (instantiated for float in
// c06_inv_float.cpp and for double in c06_inv_double.cpp).
//
// Oracle: Gauss-Jordan with FULL pivoting written as loops over indices in a
// wider type R (long double for float, __float128 for double).  Nothing of
// the library's unrolled cofactor expressions or its partial-pivot loop is
// reused.  Exact integer arithmetic (int64) decides singularity of lattices.
//
// Norms: infinity norm (max absolute row sum of the stored array x[i][j]) for
// ||M||, ||Xref|| and cond = ||M||*||Xref||; the entrywise error is
// err = max_ij |X_ij - Xref_ij| and the judged quantity is
//     ratio = err / (cond * eps * ||Xref||_inf).
// "Amplification" of the cofactor path (known finding *:sv_gap):
//     amp = ||B||_inf^2 / ||adj B||_inf ,   B = the 3x3 block that is inverted by cofactors,
// with adj B computed by index loops in R.  amp ~ s1/s2 (ratio of the two largest singular
// values): 1 for the identity, large when two singular values are small.
#pragma once
#include "mon.h"
#include <ImathMatrix.h>
#include <limits>
#include <quadmath.h>
#include <stdexcept>

namespace c06
{
using namespace mon;
using namespace IMATH_NAMESPACE;

template <class T> struct RefOf;
template <> struct RefOf<float> { typedef long double type; };
template <> struct RefOf<double> { typedef __float128 type; };
template <class T> struct TName;
template <> struct TName<float> { static const char* s () { return "float"; } };
template <> struct TName<double> { static const char* s () { return "double"; } };

template <class R> inline R rabs (R x) { return x < 0 ? -x : x; }

// ---------------------------------------------------------------- plain N x N array (N <= 4)
template <class S> struct Arr
{
    int n;
    S   a[4][4];
    Arr () : n (0) { for (int i = 0; i < 4; ++i) for (int j = 0; j < 4; ++j) a[i][j] = S (0); }
    explicit Arr (int nn) : n (nn) { for (int i = 0; i < 4; ++i) for (int j = 0; j < 4; ++j) a[i][j] = S (0); }
    static Arr identity (int nn)
    {
        Arr r (nn);
        for (int i = 0; i < nn; ++i) r.a[i][i] = S (1);
        return r;
    }
};

template <class S> inline bool arr_finite (const Arr<S>& m)
{
    for (int i = 0; i < m.n; ++i)
        for (int j = 0; j < m.n; ++j)
            if (!std::isfinite (m.a[i][j])) return false;
    return true;
}
template <class S> inline bool arr_is_identity (const Arr<S>& m)
{
    for (int i = 0; i < m.n; ++i)
        for (int j = 0; j < m.n; ++j)
            if (!(m.a[i][j] == (i == j ? S (1) : S (0)))) return false;
    return true;
}
template <class S> inline bool arr_biteq (const Arr<S>& p, const Arr<S>& q)
{
    for (int i = 0; i < p.n; ++i)
        for (int j = 0; j < p.n; ++j)
            if (std::memcmp (&p.a[i][j], &q.a[i][j], sizeof (S)) != 0) return false;
    return true;
}
template <class S> inline uint64_t arr_hash (const Arr<S>& m)
{
    uint64_t h = 0x1234567ull + (uint64_t) m.n;
    for (int i = 0; i < m.n; ++i)
        for (int j = 0; j < m.n; ++j)
        {
            uint64_t u = 0;
            std::memcpy (&u, &m.a[i][j], sizeof (S));
            h = hash_combine (h, u);
        }
    return h;
}
template <class S> inline std::string arr_json (const Arr<S>& m)
{
    std::string s = "[";
    for (int i = 0; i < m.n; ++i)
    {
        s += i ? ",[" : "[";
        for (int j = 0; j < m.n; ++j) { if (j) s += ","; s += jnum ((double) m.a[i][j]); }
        s += "]";
    }
    return s + "]";
}
// bit patterns, so that a witness can be reconstructed exactly
inline std::string arr_bits (const Arr<float>& m)
{
    std::string s;
    for (int i = 0; i < m.n; ++i) for (int j = 0; j < m.n; ++j) { if (!s.empty ()) s += " "; s += hex32 (f2u (m.a[i][j])); }
    return s;
}
inline std::string arr_bits (const Arr<double>& m)
{
    std::string s;
    for (int i = 0; i < m.n; ++i) for (int j = 0; j < m.n; ++j) { if (!s.empty ()) s += " "; s += hex64 (d2u (m.a[i][j])); }
    return s;
}

// ---------------------------------------------------------------- library matrices <-> Arr
template <class T, int N> struct MatOf;
template <class T> struct MatOf<T, 2> { typedef Matrix22<T> type; };
template <class T> struct MatOf<T, 3> { typedef Matrix33<T> type; };
template <class T> struct MatOf<T, 4> { typedef Matrix44<T> type; };

template <class T, int N> inline typename MatOf<T, N>::type to_mat (const Arr<T>& a)
{
    typename MatOf<T, N>::type m;
    for (int i = 0; i < N; ++i) for (int j = 0; j < N; ++j) m[i][j] = a.a[i][j];
    return m;
}
template <class T, class M> inline Arr<T> from_mat (const M& m, int n)
{
    Arr<T> a (n);
    for (int i = 0; i < n; ++i) for (int j = 0; j < n; ++j) a.a[i][j] = m[i][j];
    return a;
}

// ---------------------------------------------------------------- reference (full pivoting Gauss-Jordan in R)
template <class R> struct Ref
{
    bool   singular = false; // an exactly zero pivot was met (only meaningful for exactly representable structure)
    Arr<R> X;                // reference inverse
    R      normM = 0, normX = 0, cond = 0, det = 0;
};

template <class R> inline R norm_inf (const Arr<R>& m)
{
    R best = 0;
    for (int i = 0; i < m.n; ++i)
    {
        R s = 0;
        for (int j = 0; j < m.n; ++j) s += rabs (m.a[i][j]);
        if (s > best) best = s;
    }
    return best;
}

template <class R, class T> inline Arr<R> widen (const Arr<T>& m)
{
    Arr<R> r (m.n);
    for (int i = 0; i < m.n; ++i) for (int j = 0; j < m.n; ++j) r.a[i][j] = (R) m.a[i][j];
    return r;
}

template <class R> inline Ref<R> ref_inverse (const Arr<R>& M)
{
    const int n = M.n;
    Ref<R>    out;
    Arr<R>    a = M, b = Arr<R>::identity (n);
    int       cq[4] = {0, 0, 0, 0};
    R         det = 1;
    out.normM = norm_inf (M);
    for (int k = 0; k < n; ++k)
    {
        int p = k, q = k;
        R   best = 0;
        for (int i = k; i < n; ++i)
            for (int j = k; j < n; ++j)
                if (rabs (a.a[i][j]) > best) { best = rabs (a.a[i][j]); p = i; q = j; }
        if (!(best > 0))
        {
            out.singular = true;
            out.det      = 0;
            out.X        = Arr<R>::identity (n);
            out.cond     = std::numeric_limits<double>::infinity ();
            return out;
        }
        if (p != k)
        {
            for (int j = 0; j < n; ++j) { std::swap (a.a[k][j], a.a[p][j]); std::swap (b.a[k][j], b.a[p][j]); }
            det = -det;
        }
        cq[k] = q;
        if (q != k)
        {
            for (int i = 0; i < n; ++i) std::swap (a.a[i][k], a.a[i][q]);
            det = -det;
        }
        R piv = a.a[k][k];
        det *= piv;
        for (int j = 0; j < n; ++j) { a.a[k][j] /= piv; b.a[k][j] /= piv; }
        for (int i = 0; i < n; ++i)
        {
            if (i == k) continue;
            R f = a.a[i][k];
            if (f == 0) continue;
            for (int j = 0; j < n; ++j) { a.a[i][j] -= f * a.a[k][j]; b.a[i][j] -= f * b.a[k][j]; }
        }
    }
    for (int k = n - 1; k >= 0; --k)
        if (cq[k] != k)
            for (int j = 0; j < n; ++j) std::swap (b.a[k][j], b.a[cq[k]][j]);
    out.X     = b;
    out.det   = det;
    out.normX = norm_inf (b);
    out.cond  = out.normM * out.normX;
    return out;
}

// determinant of the leading k x k block by cofactor loops in R (k <= 3) -- used for class counters only
template <class R> inline R det_block (const Arr<R>& m, int k)
{
    if (k == 1) return m.a[0][0];
    if (k == 2) return m.a[0][0] * m.a[1][1] - m.a[0][1] * m.a[1][0];
    R d = 0;
    for (int j = 0; j < 3; ++j)
    {
        int j1 = (j + 1) % 3, j2 = (j + 2) % 3;
        d += m.a[0][j] * (m.a[1][j1] * m.a[2][j2] - m.a[1][j2] * m.a[2][j1]);
    }
    return d;
}

// amplification ||B||^2/||adj B|| (infinity norms) of the leading 3x3 block
template <class R> inline double amp33 (const Arr<R>& m)
{
    Arr<R> B (3), A (3);
    for (int i = 0; i < 3; ++i) for (int j = 0; j < 3; ++j) B.a[i][j] = m.a[i][j];
    for (int i = 0; i < 3; ++i)
        for (int j = 0; j < 3; ++j)
        {
            int i1 = (i + 1) % 3, i2 = (i + 2) % 3, j1 = (j + 1) % 3, j2 = (j + 2) % 3;
            A.a[j][i] = B.a[i1][j1] * B.a[i2][j2] - B.a[i1][j2] * B.a[i2][j1]; // cyclic indices: sign is already +
        }
    R nb = norm_inf (B), na = norm_inf (A);
    if (!(na > 0)) return std::numeric_limits<double>::infinity ();
    return (double) (nb * nb / na);
}

// exact integer determinant (entries small), Laplace expansion by loops
inline int64_t idet (int n, const int64_t m[4][4])
{
    if (n == 1) return m[0][0];
    int64_t d = 0;
    for (int c = 0; c < n; ++c)
    {
        int64_t sub[4][4];
        for (int i = 1; i < n; ++i)
        {
            int cc = 0;
            for (int j = 0; j < n; ++j)
            {
                if (j == c) continue;
                sub[i - 1][cc++] = m[i][j];
            }
        }
        int64_t t = m[0][c] * idet (n - 1, sub);
        d += (c & 1) ? -t : t;
    }
    return d;
}

// ---------------------------------------------------------------- which library path inverts the matrix
enum Path { P_22 = 0, P_33_COF, P_33_AFF, P_44_GJ, P_44_AFF, P_GJ };
inline const char* path_name (Path p)
{
    static const char* n[] = {"adj2x2", "cofactor3x3", "affine2x2", "general_gj", "affine_cofactor3x3", "gj"};
    return n[p];
}
template <class T> inline Path inverse_path (const Arr<T>& m)
{
    if (m.n == 2) return P_22;
    if (m.n == 3) return (m.a[0][2] != 0 || m.a[1][2] != 0 || m.a[2][2] != 1) ? P_33_COF : P_33_AFF;
    return (m.a[0][3] != 0 || m.a[1][3] != 0 || m.a[2][3] != 0 || m.a[3][3] != 1) ? P_44_GJ : P_44_AFF;
}
inline bool path_is_cofactor3 (Path p) { return p == P_33_COF || p == P_44_AFF; }

// ---------------------------------------------------------------- calling every form of the library
// outcome of one call: the matrix returned (or left in place) or "threw invalid_argument" / "threw something else"
template <class T> struct Out
{
    Arr<T> X;
    int    threw = 0; // 0 no, 1 std::invalid_argument, 2 anything else
    bool   self  = true; // in-place forms: returned reference is the object itself
};

enum Form
{
    F_INVERSE = 0,   // inverse()
    F_INVERSE_F,     // inverse(false)
    F_INVERSE_T,     // inverse(true)
    F_INVERT,        // invert()
    F_INVERT_F,
    F_INVERT_T,
    F_GJINVERSE,
    F_GJINVERSE_F,
    F_GJINVERSE_T,
    F_GJINVERT,
    F_GJINVERT_F,
    F_GJINVERT_T,
    F_COUNT
};
inline const char* form_name (int f)
{
    static const char* n[] = {"inverse", "inverse(false)", "inverse(true)", "invert", "invert(false)", "invert(true)", "gjInverse", "gjInverse(false)", "gjInverse(true)", "gjInvert", "gjInvert(false)", "gjInvert(true)"};
    return n[f];
}
inline bool form_is_gj (int f) { return f >= F_GJINVERSE; }
inline bool form_is_inplace (int f) { return (f >= F_INVERT && f <= F_INVERT_T) || f >= F_GJINVERT; }
inline int  form_value_twin (int f) { return f - 3; } // in-place form -> value form with the same argument

template <class T, int N> struct Caller
{
    typedef typename MatOf<T, N>::type M;
    template <class F> static Out<T> val (const M& m, F f)
    {
        Out<T> o;
        o.X = Arr<T> (N);
        try
        {
            M r = f (m);
            o.X = from_mat<T> (r, N);
        }
        catch (const std::invalid_argument&) { o.threw = 1; }
        catch (...) { o.threw = 2; }
        return o;
    }
    template <class F> static Out<T> inpl (const M& m, F f)
    {
        Out<T> o;
        M      w = m;
        try
        {
            const M& r = f (w);
            o.self     = (&r == &w);
        }
        catch (const std::invalid_argument&) { o.threw = 1; }
        catch (...) { o.threw = 2; }
        o.X = from_mat<T> (w, N); // after a throw: whatever was left in the object
        return o;
    }
};

// M22 has no Gauss-Jordan forms
template <class T> inline void call_all (const Arr<T>& a, Out<T> out[F_COUNT], bool have[F_COUNT])
{
    for (int f = 0; f < F_COUNT; ++f) have[f] = false;
    if (a.n == 2)
    {
        typedef Matrix22<T> M;
        typedef Caller<T, 2> C;
        M m = to_mat<T, 2> (a);
        out[F_INVERSE]   = C::val (m, [] (const M& x) { return x.inverse (); });
        out[F_INVERSE_F] = C::val (m, [] (const M& x) { return x.inverse (false); });
        out[F_INVERSE_T] = C::val (m, [] (const M& x) { return x.inverse (true); });
        out[F_INVERT]    = C::inpl (m, [] (M& x) -> const M& { return x.invert (); });
        out[F_INVERT_F]  = C::inpl (m, [] (M& x) -> const M& { return x.invert (false); });
        out[F_INVERT_T]  = C::inpl (m, [] (M& x) -> const M& { return x.invert (true); });
        for (int f = F_INVERSE; f <= F_INVERT_T; ++f) have[f] = true;
    }
    else if (a.n == 3)
    {
        typedef Matrix33<T> M;
        typedef Caller<T, 3> C;
        M m = to_mat<T, 3> (a);
        out[F_INVERSE]     = C::val (m, [] (const M& x) { return x.inverse (); });
        out[F_INVERSE_F]   = C::val (m, [] (const M& x) { return x.inverse (false); });
        out[F_INVERSE_T]   = C::val (m, [] (const M& x) { return x.inverse (true); });
        out[F_INVERT]      = C::inpl (m, [] (M& x) -> const M& { return x.invert (); });
        out[F_INVERT_F]    = C::inpl (m, [] (M& x) -> const M& { return x.invert (false); });
        out[F_INVERT_T]    = C::inpl (m, [] (M& x) -> const M& { return x.invert (true); });
        out[F_GJINVERSE]   = C::val (m, [] (const M& x) { return x.gjInverse (); });
        out[F_GJINVERSE_F] = C::val (m, [] (const M& x) { return x.gjInverse (false); });
        out[F_GJINVERSE_T] = C::val (m, [] (const M& x) { return x.gjInverse (true); });
        out[F_GJINVERT]    = C::inpl (m, [] (M& x) -> const M& { return x.gjInvert (); });
        out[F_GJINVERT_F]  = C::inpl (m, [] (M& x) -> const M& { return x.gjInvert (false); });
        out[F_GJINVERT_T]  = C::inpl (m, [] (M& x) -> const M& { return x.gjInvert (true); });
        for (int f = 0; f < F_COUNT; ++f) have[f] = true;
    }
    else
    {
        typedef Matrix44<T> M;
        typedef Caller<T, 4> C;
        M m = to_mat<T, 4> (a);
        out[F_INVERSE]     = C::val (m, [] (const M& x) { return x.inverse (); });
        out[F_INVERSE_F]   = C::val (m, [] (const M& x) { return x.inverse (false); });
        out[F_INVERSE_T]   = C::val (m, [] (const M& x) { return x.inverse (true); });
        out[F_INVERT]      = C::inpl (m, [] (M& x) -> const M& { return x.invert (); });
        out[F_INVERT_F]    = C::inpl (m, [] (M& x) -> const M& { return x.invert (false); });
        out[F_INVERT_T]    = C::inpl (m, [] (M& x) -> const M& { return x.invert (true); });
        out[F_GJINVERSE]   = C::val (m, [] (const M& x) { return x.gjInverse (); });
        out[F_GJINVERSE_F] = C::val (m, [] (const M& x) { return x.gjInverse (false); });
        out[F_GJINVERSE_T] = C::val (m, [] (const M& x) { return x.gjInverse (true); });
        out[F_GJINVERT]    = C::inpl (m, [] (M& x) -> const M& { return x.gjInvert (); });
        out[F_GJINVERT_F]  = C::inpl (m, [] (M& x) -> const M& { return x.gjInvert (false); });
        out[F_GJINVERT_T]  = C::inpl (m, [] (M& x) -> const M& { return x.gjInvert (true); });
        for (int f = 0; f < F_COUNT; ++f) have[f] = true;
    }
}

inline std::string key_of (int n, int form, const char* tname, const std::string& cls)
{
    return std::string ("M") + std::to_string (n) + std::to_string (n) + "." + form_name (form) + "." + tname + ":" + cls;
}

} // namespace c06
#include "c06_inv_gen.h"
#include "c06_inv_subs.h"
