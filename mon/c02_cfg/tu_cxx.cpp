#include "tu.inc"
