#include "tu.inc"
