// C18 - Random generators are deterministic, range-correct and rand48-compatible.
//
// Sub-checks in this TU
//   rand48_states      every judged call starts from a chosen 48-bit state (uniform + boundary):
//                      Imath nrand48/erand48 vs POSIX ::nrand48/::erand48 vs an independent LCG.
//   call_histories     sequences (length 1..64) mixing erand48/nrand48 on caller-owned arrays,
//                      srand48/lrand48/drand48 on the static state, Rand48/Rand32 members,
//                      init() and samplers; every call judged, same-seed twins compared.
//   member_sequences   Rand32/Rand48: seeds x 10^4 positions, ranges of nextb/nexti/nextf/nextf(a,b),
//                      Rand48 members vs POSIX on the observed state, purity against a twin.
// (sphere / gauss samplers: c18_samplers.cpp)
#include "c18_common.h"

using namespace mon;
using namespace c18;
namespace IM = IMATH_NAMESPACE;

static const unsigned short GUARD = 0xA5C3;
struct Arr
{
    unsigned short g0   = GUARD;
    unsigned short w[3] = {0, 0, 0};
    unsigned short g1   = GUARD;
    bool           guards_ok () const { return g0 == GUARD && g1 == GUARD; }
};

static const double TWO_M48 = 0x1p-48;

static std::string
words (const unsigned short w[3])
{
    char b[40];
    std::snprintf (b, sizeof b, "[0x%04x,0x%04x,0x%04x]", w[0], w[1], w[2]);
    return b;
}

// One caller-owned state observed three ways
struct Triple
{
    Arr            A;    // handed to Imath
    unsigned short P[3]; // handed to POSIX
    uint64_t       m;    // independent LCG
    void           set (uint64_t x) { unpack48 (x, A.w); unpack48 (x, P); m = x; }
};

// judged call of nrand48; returns false if anything differed (the Imath array is then resynchronised)
static bool
step_nrand48 (Ctx& c, uint64_t idx, const char* cls, Triple& t)
{
    uint64_t before = t.m;
    long     gi     = IM::nrand48 (t.A.w);
    long     gp     = ::nrand48 (t.P);
    t.m             = lcg_next (t.m);
    long gm         = (long) (t.m >> 17);
    bool ok         = true;
    auto d          = [&] {
        return Obj ().kv ("state_before", hex64 (before)).kv ("imath", gi).kv ("posix", gp).kv ("lcg", gm).kv ("imath_state_after", words (t.A.w)).kv ("posix_state_after", words (t.P)).kv ("lcg_state_after", hex64 (t.m)).str ();
    };
    if (gi != gp) { ok = false; c.fail (std::string ("nrand48.value_vs_posix:") + cls, idx, d); }
    if (gi != gm) { ok = false; c.fail (std::string ("nrand48.value_vs_lcg:") + cls, idx, d); }
    if (std::memcmp (t.A.w, t.P, 6) != 0) { ok = false; c.fail (std::string ("nrand48.state_vs_posix:") + cls, idx, d); }
    if (pack48 (t.A.w) != t.m) { ok = false; c.fail (std::string ("nrand48.state_vs_lcg:") + cls, idx, d); }
    if (!t.A.guards_ok ()) { ok = false; c.fail (std::string ("nrand48.state:wrote_outside_array"), idx, d); t.A.g0 = t.A.g1 = GUARD; }
    if (!ok) std::memcpy (t.A.w, t.P, 6);
    return ok;
}

// judged call of erand48; *diff48 receives |imath - posix| * 2^48
static bool
step_erand48 (Ctx& c, uint64_t idx, const char* cls, Triple& t, double* diff48)
{
    uint64_t before = t.m;
    double   gi     = IM::erand48 (t.A.w);
    double   gp     = ::erand48 (t.P);
    t.m             = lcg_next (t.m);
    double gm       = std::ldexp ((double) t.m, -48); // exact: 48 bits
    bool   ok       = true;
    auto   d        = [&] {
        return Obj ().kv ("state_before", hex64 (before)).kv ("imath", gi).kv ("imath_bits", hex64 (d2u (gi))).kv ("posix", gp).kv ("lcg", gm).kv ("imath_state_after", words (t.A.w)).kv ("posix_state_after", words (t.P)).kv ("lcg_state_after", hex64 (t.m)).str ();
    };
    double dp = std::fabs (gi - gp), dm = std::fabs (gi - gm);
    if (diff48) *diff48 = dp / TWO_M48;
    if (!(gi >= 0.0 && gi < 1.0)) { ok = false; c.fail (std::string ("erand48.range:") + cls, idx, d); }
    if (!(dp < TWO_M48)) { ok = false; c.fail (std::string ("erand48.value_vs_posix:") + cls, idx, d); }
    if (!(dm < TWO_M48)) { ok = false; c.fail (std::string ("erand48.value_vs_lcg:") + cls, idx, d); }
    if (std::memcmp (t.A.w, t.P, 6) != 0) { ok = false; c.fail (std::string ("erand48.state_vs_posix:") + cls, idx, d); }
    if (pack48 (t.A.w) != t.m) { ok = false; c.fail (std::string ("erand48.state_vs_lcg:") + cls, idx, d); }
    if (!t.A.guards_ok ()) { ok = false; c.fail (std::string ("erand48.state:wrote_outside_array"), idx, d); t.A.g0 = t.A.g1 = GUARD; }
    if (!ok) std::memcpy (t.A.w, t.P, 6);
    return ok;
}

// ====================================================================== rand48_states
static const unsigned N_UNIFORM_SLOTS = 18, N_SLOTS = N_UNIFORM_SLOTS + B_COUNT; // 32

static void
sub_states (Ctx& c, uint64_t b, uint64_t e)
{
    uint64_t n_cls[B_COUNT + 1] = {0};
    uint64_t n_calls = 0, n_min = 0, n_max = 0, n_imax = 0, n_izero = 0;
    double   wdiff = -1; uint64_t widx = 0, wstate = 0;
    for (uint64_t idx = b; idx < e; ++idx)
    {
        Rng         r   = c.rng (idx);
        unsigned    sel = (unsigned) (idx % N_SLOTS);
        uint64_t    x0;
        const char* cls;
        if (sel < N_UNIFORM_SLOTS) { x0 = r.u64 () & MASK48; cls = "uniform"; ++n_cls[B_COUNT]; }
        else { x0 = boundary_state (r, sel - N_UNIFORM_SLOTS); cls = B_NAMES[sel - N_UNIFORM_SLOTS]; ++n_cls[sel - N_UNIFORM_SLOTS]; }
        if ((idx & 3) == 0 || sel >= N_UNIFORM_SLOTS) c.nontrivial (x0); // uniform states: every 4th recorded (lower bound)

        // both functions from the very same state
        Triple t;
        double d48;
        t.set (x0);
        step_nrand48 (c, idx, cls, t);
        uint64_t s1 = t.m;
        if ((s1 >> 17) == 0x7fffffffu) ++n_imax;
        if ((s1 >> 17) == 0) ++n_izero;
        t.set (x0);
        step_erand48 (c, idx, cls, t, &d48);
        if (d48 > wdiff) { wdiff = d48; widx = idx; wstate = x0; }
        if (s1 == 0) ++n_min;
        if (s1 == MASK48) ++n_max;
        // then a short chain on the same arrays, mixing the two entry points
        uint64_t bits = r.u64 ();
        for (int k = 0; k < 6; ++k)
        {
            uint64_t xb = t.m;
            if ((bits >> k) & 1) step_nrand48 (c, idx, cls, t);
            else
            {
                step_erand48 (c, idx, cls, t, &d48);
                if (d48 > wdiff) { wdiff = d48; widx = idx; wstate = xb; }
            }
        }
        n_calls += 8;
        if (sel >= N_UNIFORM_SLOTS && idx < 4 * N_SLOTS)
            c.sample (cls, [&] { return Obj ().kv ("class", cls).kv ("state", hex64 (x0)).kv ("successor", hex64 (lcg_next (x0))).kv ("nrand48", (unsigned long long) (lcg_next (x0) >> 17)).kv ("erand48_posix", std::ldexp ((double) lcg_next (x0), -48)).str (); });
    }
    c.eval (n_calls);
    for (unsigned k = 0; k < B_COUNT; ++k) c.cls (B_NAMES[k], n_cls[k]);
    c.cls ("uniform", n_cls[B_COUNT]);
    c.cls ("erand48_returned_min", n_min);
    c.cls ("erand48_returned_max", n_max);
    c.cls ("nrand48_returned_0x7fffffff", n_imax);
    c.cls ("nrand48_returned_0", n_izero);
    if (wdiff >= 0) c.worst ("erand48.abs_diff_vs_posix_over_2^-48 (must be < 1)", wdiff, widx, [&] { return Obj ().kv ("state_before", hex64 (wstate)).str (); });
}
MON_SUB (sub_states, "rand48_states", 20000000, 1280000000)
    .req ({"uniform", "state_zero", "state_allones", "succ_zero_erand48_min", "succ_allones_erand48_max", "succ_hi31_ones", "succ_hi31_zero", "succ_hi16_ones", "succ_hi16_zero",
           "word_combo", "succ_word_combo", "single_bit", "succ_single_bit", "succ_near_min", "succ_near_max", "erand48_returned_min", "erand48_returned_max",
           "nrand48_returned_0x7fffffff", "nrand48_returned_0"})
    .chunked (8192)
    .over ("48-bit states: 18/32 uniform, 14/32 boundary classes (0, 2^48-1, successor all-zero / all-ones, successor high 31 or 16 bits all-ones / all-zero, 0/1/0x7fff/0x8000/0xffff word "
           "combinations, single bits, erand48 near min / max); from each state nrand48 and erand48 are both called, then 6 further calls chained on the same arrays; every call compared with "
           "POSIX and with an independent LCG (return value and state array)");

// ====================================================================== member operations
enum { K_NEXTB = 0, K_NEXTI, K_NEXTF, K_RANGE, K_INIT, K_SOLID, K_HOLLOW, K_GAUSS, K_GSPHERE, K_COUNT };
static const char* const K_NAMES[K_COUNT] = {"op_nextb", "op_nexti", "op_nextf", "op_nextf_range", "op_init", "op_solidSphereRand", "op_hollowSphereRand", "op_gaussRand", "op_gaussSphereRand"};

struct MemberOp
{
    unsigned      kind = 0, rc = 0;
    double        a = 0, b = 0; // exact floats for Rand32
    unsigned long seed = 0;
};

struct Local // per-thread-per-chunk tallies, flushed by the caller
{
    uint64_t n_op[K_COUNT] = {0};
    uint64_t n_rc[2][RC_COUNT] = {{0}};
    uint64_t n_f_zero[2] = {0, 0}, n_f_max[2] = {0, 0};
    double   w_range[2] = {-1, -1}; uint64_t w_idx[2] = {0, 0}; double w_a[2] = {0, 0}, w_b[2] = {0, 0}, w_v[2] = {0, 0};
    double   w_solid = -1e300, w_hollow = -1;
    uint64_t n_skipped = 0;
    void flush (Ctx& c)
    {
        for (unsigned k = 0; k < K_COUNT; ++k) if (n_op[k]) c.cls (K_NAMES[k], n_op[k]);
        for (unsigned g = 0; g < 2; ++g)
            for (unsigned k = 0; k < RC_COUNT; ++k)
                if (n_rc[g][k]) c.cls (std::string (g ? "Rand48." : "Rand32.") + RC_NAMES[k], n_rc[g][k]);
        if (n_skipped) c.cls ("skipped_generator_makes_samplers_hang", n_skipped);
        if (n_f_zero[0]) c.cls ("Rand32.nextf_returned_0", n_f_zero[0]);
        if (n_f_zero[1]) c.cls ("Rand48.nextf_returned_0", n_f_zero[1]);
        if (n_f_max[0]) c.cls ("Rand32.nextf_returned_max", n_f_max[0]);
        if (n_f_max[1]) c.cls ("Rand48.nextf_returned_max", n_f_max[1]);
        for (unsigned g = 0; g < 2; ++g)
            if (w_range[g] >= 0)
                c.worst (g ? "Rand48.nextf(a,b).excess_over_(eps*max|a|,|b|+denorm_min)" : "Rand32.nextf(a,b).excess_over_(eps*max|a|,|b|+denorm_min)", w_range[g], w_idx[g],
                         [&] { return Obj ().kv ("a", w_a[g]).kv ("b", w_b[g]).kv ("got", w_v[g]).str (); });
        *this = Local ();
    }
};

template <class R>
static MemberOp
gen_op (Rng& r, bool history)
{
    typedef typename Gen<R>::F F;
    MemberOp op;
    unsigned k = (unsigned) (r.u64 () % (history ? 20 : 13));
    // 0-1 nextb, 2-4 nexti, 5-7 nextf, 8-12 nextf(a,b); histories only: 13-14 init, 15-19 samplers
    op.kind = k < 2 ? K_NEXTB : k < 5 ? K_NEXTI : k < 8 ? K_NEXTF : k < 13 ? K_RANGE : k < 15 ? K_INIT : k < 17 ? K_SOLID : k == 17 ? K_HOLLOW : k == 18 ? K_GAUSS : K_GSPHERE;
    if (op.kind == K_RANGE)
    {
        op.rc = (unsigned) (r.u64 () % RC_COUNT);
        F a, b;
        gen_range<F> (r, op.rc, a, b);
        op.a = a; op.b = b;
    }
    else if (op.kind == K_INIT) op.seed = r.coin () ? (unsigned long) r.u64 () : (unsigned long) r.u32 ();
    return op;
}

template <class R> static unsigned gix ();
template <> unsigned gix<Rand32> () { return 0; }
template <> unsigned gix<Rand48> () { return 1; }

// ---- scalar judgements that differ between the two generators
static uint64_t
do_nextb (Ctx& c, uint64_t idx, Rand32& g, bool judge)
{
    bool          v = g.nextb ();
    unsigned char raw;
    std::memcpy (&raw, &v, 1);
    if (judge && raw > 1) c.fail ("Rand32.nextb:not_boolean", idx, [&] { return Obj ().kv ("byte", (unsigned) raw).str (); });
    return raw;
}
static uint64_t
do_nextb (Ctx& c, uint64_t idx, Rand48& g, bool judge)
{
    uint64_t      before = state_of (g);
    bool          v      = g.nextb ();
    unsigned char raw;
    std::memcpy (&raw, &v, 1);
    if (judge)
    {
        unsigned short P[3];
        unpack48 (before, P);
        long     w     = ::nrand48 (P);
        uint64_t after = state_of (g);
        auto     d     = [&] { return Obj ().kv ("state_before", hex64 (before)).kv ("got_byte", (unsigned) raw).kv ("posix_nrand48", w).kv ("state_after", hex64 (after)).kv ("posix_state_after", hex64 (pack48 (P))).str (); };
        if (raw > 1) c.fail ("Rand48.nextb:not_boolean", idx, d);
        if ((long) (raw & 1) != (w & 1)) c.fail ("Rand48.nextb:vs_posix_nrand48", idx, d);
        if (after != pack48 (P)) c.fail ("Rand48.nextb:state_vs_posix", idx, d);
    }
    return raw;
}
static uint64_t
do_nexti (Ctx& c, uint64_t idx, Rand32& g, bool judge)
{
    unsigned long v = g.nexti ();
    if (judge && v > 0xfffffffful) c.fail ("Rand32.nexti:range", idx, [&] { return Obj ().kv ("got", hex64 (v)).kv ("documented_max", "0xffffffff").str (); });
    return v;
}
static uint64_t
do_nexti (Ctx& c, uint64_t idx, Rand48& g, bool judge)
{
    uint64_t before = state_of (g);
    long     v      = g.nexti ();
    if (judge)
    {
        unsigned short P[3];
        unpack48 (before, P);
        long     w     = ::nrand48 (P);
        uint64_t after = state_of (g);
        auto     d     = [&] { return Obj ().kv ("state_before", hex64 (before)).kv ("got", v).kv ("posix_nrand48", w).kv ("state_after", hex64 (after)).kv ("posix_state_after", hex64 (pack48 (P))).str (); };
        if (v < 0 || v > 0x7fffffffl) c.fail ("Rand48.nexti:range", idx, d);
        if (v != w) c.fail ("Rand48.nexti:vs_posix_nrand48", idx, d);
        if (after != pack48 (P)) c.fail ("Rand48.nexti:state_vs_posix", idx, d);
    }
    return (uint64_t) v;
}
static uint64_t
do_nextf (Ctx& c, uint64_t idx, Rand32& g, bool judge, Local& L)
{
    float v = g.nextf ();
    if (judge)
    {
        if (!(v >= 0.0f && v < 1.0f)) c.fail ("Rand32.nextf:range", idx, [&] { return Obj ().kv ("got", v).kv ("bits", hex32 (f2u (v))).str (); });
        if (v == 0.0f) ++L.n_f_zero[0];
        if (v == 1.0f - 0x1p-23f) ++L.n_f_max[0];
    }
    return f2u (v);
}
static uint64_t
do_nextf (Ctx& c, uint64_t idx, Rand48& g, bool judge, Local& L)
{
    uint64_t before = state_of (g);
    double   v      = g.nextf ();
    if (judge)
    {
        unsigned short P[3];
        unpack48 (before, P);
        double   w     = ::erand48 (P);
        uint64_t after = state_of (g);
        auto     d     = [&] { return Obj ().kv ("state_before", hex64 (before)).kv ("got", v).kv ("posix_erand48", w).kv ("state_after", hex64 (after)).kv ("posix_state_after", hex64 (pack48 (P))).str (); };
        if (!(v >= 0.0 && v < 1.0)) c.fail ("Rand48.nextf:range", idx, d);
        if (!(std::fabs (v - w) < TWO_M48)) c.fail ("Rand48.nextf:vs_posix_erand48", idx, d);
        if (after != pack48 (P)) c.fail ("Rand48.nextf:state_vs_posix", idx, d);
        if (v == 0.0) ++L.n_f_zero[1];
        if (v == 1.0 - 0x1p-52) ++L.n_f_max[1];
    }
    return d2u (v);
}
static inline uint64_t fbits (float v) { return f2u (v); }
static inline uint64_t fbits (double v) { return d2u (v); }

// Execute one member operation on g; judge it (unless replaying on a twin); return the output's bit pattern
template <class R>
static uint64_t
exec_member (Ctx& c, uint64_t idx, R& g, const MemberOp& op, bool judge, Local& L)
{
    typedef typename Gen<R>::F F;
    const unsigned G = gix<R> ();
    if (judge) ++L.n_op[op.kind];
    switch (op.kind)
    {
        case K_NEXTB: return do_nextb (c, idx, g, judge);
        case K_NEXTI: return do_nexti (c, idx, g, judge);
        case K_NEXTF: return do_nextf (c, idx, g, judge, L);
        case K_RANGE: {
            F a = (F) op.a, b = (F) op.b;
            F v = g.nextf (a, b);
            if (judge)
            {
                ++L.n_rc[G][op.rc];
                double ratio = range_excess<F> (a, b, v);
                if (ratio > L.w_range[G]) { L.w_range[G] = ratio; L.w_idx[G] = idx; L.w_a[G] = a; L.w_b[G] = b; L.w_v[G] = v; }
                if (!(ratio <= RANGE_TOL))
                    c.fail (std::string (Gen<R>::name ()) + ".nextf_range:" + RC_NAMES[op.rc], idx, [&] {
                        return Obj ().kv ("a", (double) a).kv ("b", (double) b).kv ("got", (double) v).kv ("excess_in_roundings", ratio).kv ("allowed", RANGE_TOL).str ();
                    });
            }
            return fbits (v);
        }
        case K_INIT: g.init (op.seed); return 0;
        default: break;
    }
    // samplers: rejection loops, see sampler_probe() / SamplerGuard in c18_common.h
    if (sampler_probe ().hang[G]) { if (judge) ++L.n_skipped; return 0; }
    SamplerGuard guard;
    switch (op.kind)
    {
        case K_SOLID: {
            uint64_t s = state_of (g);
            V3f      v = IM::solidSphereRand<V3f> (g);
            if (judge) { double q = judge_solid<V3f, R> (c, idx, v, s); if (q > L.w_solid) L.w_solid = q; }
            return vec_bits (v);
        }
        case K_HOLLOW: {
            uint64_t s = state_of (g);
            V2d      v = IM::hollowSphereRand<V2d> (g);
            if (judge) { double q = judge_hollow<V2d, R> (c, idx, v, s); if (q > L.w_hollow) L.w_hollow = q; }
            return vec_bits (v);
        }
        case K_GAUSS: {
            uint64_t s = state_of (g);
            float    v = IM::gaussRand (g);
            if (judge) judge_gauss<R> (c, idx, v, s);
            return f2u (v);
        }
        default: {
            uint64_t s = state_of (g);
            V3f      v = IM::gaussSphereRand<V3f> (g);
            if (judge) judge_gsphere<V3f, R> (c, idx, v, s);
            return vec_bits (v);
        }
    }
}

static std::string
op_json (const MemberOp& op)
{
    Obj o;
    o.kv ("op", K_NAMES[op.kind]);
    if (op.kind == K_RANGE) o.kv ("a", op.a).kv ("b", op.b);
    if (op.kind == K_INIT) o.kv ("seed", hex64 (op.seed));
    return o.str ();
}

// ====================================================================== call_histories
// The Imath static state (and glibc's) is process-global: one history at a time.
static std::mutex g_static_state_mutex;

static const uint64_t K_STATIC = LCG_A * 0x330e + LCG_C; // successor of (s << 16 | 0x330e) = ((a*s mod 2^32) << 16) + K_STATIC
enum { SS_ZERO = 0, SS_MINUS1, SS_U32MAX, SS_BIT32, SS_LONGMAX, SS_LONGMIN, SS_RANDOM32, SS_RANDOM64, SS_SUCC_HI_ONES, SS_SUCC_HI_ZERO, SS_COUNT };
static const char* const SS_NAMES[SS_COUNT] = {"seed_zero", "seed_minus1", "seed_0xffffffff", "seed_bit32_and_up", "seed_long_max", "seed_long_min", "seed_random32", "seed_random64", "seed_lrand48_max", "seed_lrand48_zero"};

static long
static_seed (Rng& r, unsigned which)
{
    static const uint64_t a32inv = inv_odd (LCG_A) & 0xffffffffull;
    switch (which % SS_COUNT)
    {
        case SS_ZERO: return 0;
        case SS_MINUS1: return -1;
        case SS_U32MAX: return 0xffffffffl;
        case SS_BIT32: return (long) ((uint64_t) (r.u64 () & 0x7fffffffull) << 32) | (long) (r.coin () ? r.u32 () : 0u);
        case SS_LONGMAX: return LONG_MAX;
        case SS_LONGMIN: return LONG_MIN;
        case SS_RANDOM32: return (long) r.u32 ();
        case SS_RANDOM64: return (long) r.u64 ();
        case SS_SUCC_HI_ONES: { // first successor has its high 32 bits all ones: lrand48 = 0x7fffffff, drand48 close to 1
            uint64_t s = (a32inv * (0xffffffffull - (K_STATIC >> 16))) & 0xffffffffull;
            return (long) (s | (r.coin () ? (r.u64 () << 32) : 0));
        }
        default: { // first successor has its high 32 bits zero
            uint64_t s = (a32inv * (0ull - (K_STATIC >> 16))) & 0xffffffffull;
            return (long) (s | (r.coin () ? (r.u64 () << 32) : 0));
        }
    }
}

template <class R> struct Twins
{
    Slot<R>               sa, sb, sn, sc; // two same-seed generators, a differently seeded one, a clean replay
    unsigned long         seed = 0;
    std::vector<MemberOp> script;
    std::vector<uint64_t> outa, outb;
    Rng                   rs;
    Twins (Rng s) : rs (s) {}
};

template <class R>
static void
twin_step (Ctx& c, uint64_t idx, Twins<R>& T, unsigned who, Local& L, Rng& r)
{
    if (who == 2)
    { // the unrelated generator: any member call
        MemberOp op = gen_op<R> (r, true);
        exec_member<R> (c, idx, T.sn.get (), op, true, L);
        return;
    }
    std::vector<uint64_t>& out = who ? T.outb : T.outa;
    size_t                 p   = out.size ();
    while (T.script.size () <= p) T.script.push_back (gen_op<R> (T.rs, true));
    out.push_back (exec_member<R> (c, idx, who ? T.sb.get () : T.sa.get (), T.script[p], true, L));
}

template <class R>
static void
twin_finish (Ctx& c, uint64_t idx, Twins<R>& T, Local& L)
{
    size_t n = std::min (T.outa.size (), T.outb.size ()), m = std::max (T.outa.size (), T.outb.size ());
    for (size_t p = 0; p < n; ++p)
        if (T.outa[p] != T.outb[p])
        {
            c.fail (std::string (Gen<R>::name ()) + ".purity:interleaved_twins_differ@" + K_NAMES[T.script[p].kind], idx, [&] {
                return Obj ().kv ("seed", hex64 (T.seed)).kv ("position", (unsigned long long) p).raw ("op", op_json (T.script[p])).kv ("twin_a_bits", hex64 (T.outa[p])).kv ("twin_b_bits", hex64 (T.outb[p])).str ();
            });
            break;
        }
    // a third same-seed generator, run alone after everything else has happened
    R& g = T.sc.make (T.seed, 0x3c);
    const std::vector<uint64_t>& longer = T.outa.size () >= T.outb.size () ? T.outa : T.outb;
    for (size_t p = 0; p < m; ++p)
    {
        uint64_t o = exec_member<R> (c, idx, g, T.script[p], false, L);
        if (o != longer[p])
        {
            c.fail (std::string (Gen<R>::name ()) + ".purity:replay_alone_differs@" + K_NAMES[T.script[p].kind], idx, [&] {
                return Obj ().kv ("seed", hex64 (T.seed)).kv ("position", (unsigned long long) p).raw ("op", op_json (T.script[p])).kv ("interleaved_bits", hex64 (longer[p])).kv ("alone_bits", hex64 (o)).str ();
            });
            break;
        }
    }
}

static unsigned long
member_seed (Rng& r)
{
    static const unsigned long X[] = {0ul, 1ul, 0x7ffffffful, 0x80000000ul, 0xfffffffful, 0x100000000ul, ~0ul, (unsigned long) LONG_MAX, 0x8000000000000000ul};
    unsigned k = (unsigned) (r.u64 () % 4);
    return k == 0 ? X[r.u64 () % (sizeof X / sizeof X[0])] : k == 1 ? (unsigned long) r.u32 () : (unsigned long) r.u64 ();
}

static void
sub_histories (Ctx& c, uint64_t b, uint64_t e)
{
    Local    L;
    report_probe (c, b);
    uint64_t n_calls = 0, n_e = 0, n_n = 0, n_s = 0, n_l = 0, n_d = 0, n_m48 = 0, n_m32 = 0, n_seedcls[SS_COUNT] = {0}, n_bstate = 0, n_len[3] = {0, 0, 0};
    for (uint64_t idx = b; idx < e; ++idx)
    {
        std::lock_guard<std::mutex> lock (g_static_state_mutex);
        Rng      r   = c.rng (idx);
        unsigned len = 1 + (unsigned) (r.u64 () % 64);
        if (idx % 16 == 0) len = 1;
        if (idx % 16 == 1) len = 64;
        ++n_len[len == 1 ? 0 : len == 64 ? 2 : 1];
        // caller-owned arrays
        Triple      S[3];
        const char* scls[3];
        for (int k = 0; k < 3; ++k)
        {
            if (r.one_in (3)) { unsigned w = (unsigned) (r.u64 () % B_COUNT); S[k].set (boundary_state (r, w)); scls[k] = B_NAMES[w]; ++n_bstate; }
            else { S[k].set (r.u64 () & MASK48); scls[k] = "uniform"; }
        }
        // static state: every history seeds it first (it is whatever the previous history left)
        unsigned sc   = (unsigned) ((idx / 16) % SS_COUNT);
        long     seed = static_seed (r, sc);
        IM::srand48 (seed);
        ::srand48 (seed);
        uint64_t ms = (((uint64_t) seed & 0xffffffffull) << 16) | 0x330e;
        ++n_seedcls[sc];
        unsigned    since_seed = 0;
        bool        static_ok  = true;
        const char* seedcls    = SS_NAMES[sc];
        long        cur_seed   = seed;
        // generators
        Twins<Rand48> T48 (Rng (c.seed, c.sub_id ^ 0x48, idx));
        Twins<Rand32> T32 (Rng (c.seed, c.sub_id ^ 0x32, idx));
        T48.seed = member_seed (r);
        T32.seed = member_seed (r);
        T48.sa.make (T48.seed, 0x00); T48.sb.make (T48.seed, 0xff); T48.sn.make (member_seed (r), 0x5a);
        T32.sa.make (T32.seed, 0x00); T32.sb.make (T32.seed, 0xff); T32.sn.make (member_seed (r), 0x5a);
        c.nontrivial (hash_combine (hash_combine (S[0].m, S[1].m), hash_combine ((uint64_t) seed, hash_combine (T48.seed, T32.seed) + len)));

        for (unsigned step = 0; step < len; ++step)
        {
            unsigned what = (unsigned) (r.u64 () % 12);
            ++n_calls;
            if (what < 2) { unsigned k = (unsigned) (r.u64 () % 3); step_erand48 (c, idx, scls[k], S[k], nullptr); ++n_e; }
            else if (what < 4) { unsigned k = (unsigned) (r.u64 () % 3); step_nrand48 (c, idx, scls[k], S[k]); ++n_n; }
            else if (what == 4)
            {
                sc   = (unsigned) (r.u64 () % SS_COUNT);
                seed = static_seed (r, sc);
                IM::srand48 (seed);
                ::srand48 (seed);
                ms = (((uint64_t) seed & 0xffffffffull) << 16) | 0x330e;
                since_seed = 0; static_ok = true; seedcls = SS_NAMES[sc]; cur_seed = seed;
                ++n_seedcls[sc]; ++n_s;
            }
            else if (what == 5 || what == 6)
            {
                long gi = IM::lrand48 ();
                long gp = ::lrand48 ();
                ms      = lcg_next (ms);
                long gm = (long) (ms >> 17);
                ++n_l;
                if (static_ok && (gi != gp || gi != gm))
                {
                    auto d = [&] { return Obj ().kv ("last_seed", hex64 ((uint64_t) cur_seed)).kv ("draws_since_srand48", since_seed + 1).kv ("imath", gi).kv ("posix", gp).kv ("lcg", gm).str (); };
                    if (since_seed == 0) c.fail (std::string ("srand48.first_lrand48_after_seed:") + seedcls, idx, d);
                    else c.fail (gi != gp ? "lrand48.value_vs_posix" : "lrand48.value_vs_lcg", idx, d);
                    static_ok = false; // one report per divergence; judged again after the next srand48
                }
                ++since_seed;
            }
            else if (what == 7)
            {
                double gi = IM::drand48 ();
                double gp = ::drand48 ();
                ms        = lcg_next (ms);
                double gm = std::ldexp ((double) ms, -48);
                ++n_d;
                auto d = [&] { return Obj ().kv ("last_seed", hex64 ((uint64_t) cur_seed)).kv ("draws_since_srand48", since_seed + 1).kv ("imath", gi).kv ("posix", gp).kv ("lcg", gm).str (); };
                if (!(gi >= 0.0 && gi < 1.0)) c.fail ("drand48.range", idx, d);
                if (static_ok && !(std::fabs (gi - gp) < TWO_M48 && std::fabs (gi - gm) < TWO_M48))
                {
                    if (since_seed == 0) c.fail (std::string ("srand48.first_drand48_after_seed:") + seedcls, idx, d);
                    else c.fail (!(std::fabs (gi - gp) < TWO_M48) ? "drand48.value_vs_posix" : "drand48.value_vs_lcg", idx, d);
                    static_ok = false;
                }
                ++since_seed;
            }
            else if (what < 10) { twin_step<Rand48> (c, idx, T48, (unsigned) (r.u64 () % 3), L, r); ++n_m48; }
            else { twin_step<Rand32> (c, idx, T32, (unsigned) (r.u64 () % 3), L, r); ++n_m32; }
        }
        // the arrays nobody touched in the last steps must still be what the models say
        for (int k = 0; k < 3; ++k)
            if (std::memcmp (S[k].A.w, S[k].P, 6) != 0 || pack48 (S[k].A.w) != S[k].m || !S[k].A.guards_ok ())
                c.fail ("history.caller_state:changed_by_other_calls", idx, [&] { return Obj ().kv ("array", k).kv ("imath", words (S[k].A.w)).kv ("posix", words (S[k].P)).kv ("lcg", hex64 (S[k].m)).str (); });
        // the static state must have survived everything else: one closing draw
        if (static_ok)
        {
            long gi = IM::lrand48 (), gp = ::lrand48 ();
            ++n_calls; ++n_l;
            if (gi != gp)
                c.fail (since_seed == 0 ? std::string ("srand48.first_lrand48_after_seed:") + seedcls : std::string ("lrand48.value_vs_posix"), idx,
                        [&] { return Obj ().kv ("last_seed", hex64 ((uint64_t) cur_seed)).kv ("draws_since_srand48", since_seed + 1).kv ("imath", gi).kv ("posix", gp).kv ("closing_draw", true).str (); });
        }
        twin_finish<Rand48> (c, idx, T48, L);
        twin_finish<Rand32> (c, idx, T32, L);
        if (idx < 2) c.sample (idx ? "history_len64" : "history_len1", [&] { return Obj ().kv ("length", len).kv ("first_seed", hex64 ((uint64_t) cur_seed)).kv ("rand48_seed", hex64 (T48.seed)).kv ("rand32_seed", hex64 (T32.seed)).str (); });
    }
    c.eval (n_calls);
    c.cls ("op_erand48", n_e); c.cls ("op_nrand48", n_n); c.cls ("op_srand48", n_s); c.cls ("op_lrand48", n_l); c.cls ("op_drand48", n_d);
    c.cls ("op_Rand48_member", n_m48); c.cls ("op_Rand32_member", n_m32);
    c.cls ("caller_state_boundary", n_bstate);
    c.cls ("length_1", n_len[0]); c.cls ("length_2_63", n_len[1]); c.cls ("length_64", n_len[2]);
    for (unsigned k = 0; k < SS_COUNT; ++k) c.cls (SS_NAMES[k], n_seedcls[k]);
    L.flush (c);
}
MON_SUB (sub_histories, "call_histories", 400000, 24000000)
    .req ({"op_erand48", "op_nrand48", "op_srand48", "op_lrand48", "op_drand48", "op_Rand48_member", "op_Rand32_member", "op_init", "op_nextb", "op_nexti", "op_nextf", "op_nextf_range",
           "op_solidSphereRand", "op_hollowSphereRand", "op_gaussRand", "op_gaussSphereRand", "caller_state_boundary", "length_1", "length_2_63", "length_64", "seed_zero", "seed_minus1",
           "seed_0xffffffff", "seed_bit32_and_up", "seed_long_max", "seed_long_min", "seed_random32", "seed_random64", "seed_lrand48_max", "seed_lrand48_zero"})
    .chunked (256)
    .over ("call sequences of length 1..64 (1 and 64 forced every 16th) mixing erand48/nrand48 on 3 caller-owned arrays (uniform or boundary states), srand48 (10 seed classes incl. negative, "
           ">32-bit and seeds solved for an extreme first draw), lrand48, drand48 on the static state, and member calls / init / samplers on two same-seed Rand48, two same-seed Rand32 and "
           "one unrelated generator of each kind; each call judged against POSIX and the LCG model, twins compared position by position and against a replay run alone; histories are "
           "serialised by a mutex because the static state is process-global");

// ====================================================================== member_sequences
static const unsigned long EXTREME_SEEDS[] = {0ul, 1ul, 2ul, 0x7ffffffful, 0x80000000ul, 0xfffffffful, 0x100000000ul, 0x5a5a5a5aul, 0xa5a573a5ul, ~0ul, (unsigned long) LONG_MAX, 0x8000000000000000ul, 0xffffffff00000000ul};
static const unsigned N_EXTREME = sizeof EXTREME_SEEDS / sizeof EXTREME_SEEDS[0];
static const unsigned POSITIONS = 10000;

// state of a Rand32 whose next state has the given low 32 bits (generation only)
static uint64_t
rand32_prev (uint32_t y)
{
    static const uint32_t mi = (uint32_t) inv_odd (1664525u);
    return (uint32_t) (mi * (y - 1013904223u));
}
static uint64_t
injected_state (Rng& r, Rand32*)
{
    static const uint32_t NEXT[] = {0u, 0xffffffffu, 0x007fffffu, 0x00800000u, 0xff800000u, 0x80000000u, 0x7fffffffu, 0x00400000u};
    unsigned k = (unsigned) (r.u64 () % 14);
    uint64_t hi = r.coin () ? (r.u64 () << 32) : 0;
    if (k < 8) return hi | rand32_prev (NEXT[k]);
    if (k == 8) return 0;
    if (k == 9) return 0xffffffffull;
    if (k == 10) return ~0ull;
    if (k == 11) return 0x8000000000000000ull;
    return hi | r.u32 ();
}
static uint64_t
injected_state (Rng& r, Rand48*)
{
    return boundary_state (r, (unsigned) (r.u64 () % B_COUNT));
}

template <class R>
static void
member_seq (Ctx& c, uint64_t idx, Local& L, std::vector<uint64_t>& outs)
{
    Rng           r (c.seed, c.sub_id ^ (gix<R> () ? 0x4848 : 0x3232), idx);
    unsigned      mode = (unsigned) (idx % 8);
    unsigned long seed;
    bool          inj = false;
    uint64_t      x   = 0;
    if (mode == 0) { seed = EXTREME_SEEDS[(idx / 8) % N_EXTREME]; c.cls ("seed_extreme"); c.nontrivial (hash_combine (seed, gix<R> ())); }
    else if (mode == 1) { seed = 0; inj = true; x = injected_state (r, (R*) nullptr); c.cls ("state_injected_extreme"); c.nontrivial (hash_combine (x, 2 + gix<R> ())); }
    else { seed = (mode & 1) ? (unsigned long) r.u64 () : (unsigned long) r.u32 (); c.cls (mode & 1 ? "seed_random64" : "seed_random32"); c.nontrivial_enum (POSITIONS); }
    const unsigned forced = (unsigned) ((idx / 8) % 4); // K_NEXTB, K_NEXTI, K_NEXTF, K_RANGE
    Slot<R> sg, st, sn;
    R&      g = sg.make (seed, 0x00);
    R&      t = st.make (seed, 0xff);
    R&      noise = sn.make ((unsigned long) r.u64 (), 0x5a);
    if (inj) { inject (g, x); inject (t, x); }
    outs.resize (POSITIONS);
    {
        Rng rs (c.seed, c.sub_id ^ 0x5c, idx), rn (c.seed, c.sub_id ^ 0x6e, idx);
        for (unsigned p = 0; p < POSITIONS; ++p)
        {
            MemberOp op = gen_op<R> (rs, false);
            if (inj && p == 0) while (op.kind != forced) op = gen_op<R> (rs, false); // the injected state decides the first call only
            uint64_t nb = rn.u64 ();
            if ((nb & 3) == 0) { if (nb & 4) noise.nexti (); else noise.nextf (); } // unrelated generator in between
            outs[p] = exec_member<R> (c, idx, g, op, true, L);
        }
    }
    {
        Rng rs (c.seed, c.sub_id ^ 0x5c, idx);
        for (unsigned p = 0; p < POSITIONS; ++p)
        {
            MemberOp op = gen_op<R> (rs, false);
            if (inj && p == 0) while (op.kind != forced) op = gen_op<R> (rs, false);
            uint64_t o  = exec_member<R> (c, idx, t, op, false, L);
            if (o != outs[p])
            {
                c.fail (std::string (Gen<R>::name ()) + ".purity:same_seed_sequence_differs@" + K_NAMES[op.kind], idx, [&] {
                    return Obj ().kv ("seed", hex64 (seed)).kv ("injected_state", inj ? hex64 (x) : std::string ("-")).kv ("position", p).raw ("op", op_json (op)).kv ("first_bits", hex64 (outs[p])).kv ("twin_bits", hex64 (o)).str ();
                });
                break;
            }
        }
    }
    if (idx < 16 && mode < 2)
        c.sample (gix<R> () ? (mode ? "Rand48_injected" : "Rand48_extreme_seed") : (mode ? "Rand32_injected" : "Rand32_extreme_seed"),
                  [&] { return Obj ().kv ("generator", Gen<R>::name ()).kv ("seed", hex64 (seed)).kv ("injected_state", inj ? hex64 (x) : std::string ("-")).kv ("positions", POSITIONS).kv ("first_output_bits", hex64 (outs[0])).str (); });
}

static void
sub_members (Ctx& c, uint64_t b, uint64_t e)
{
    Local                                     L;
    static thread_local std::vector<uint64_t> outs;
    for (uint64_t idx = b; idx < e; ++idx)
    {
        member_seq<Rand32> (c, idx, L, outs);
        member_seq<Rand48> (c, idx, L, outs);
        c.eval (2 * POSITIONS);
    }
    L.flush (c);
}
MON_SUB (sub_members, "member_sequences", 10000, 600000)
    .req ({"seed_extreme", "state_injected_extreme", "seed_random32", "seed_random64", "op_nextb", "op_nexti", "op_nextf", "op_nextf_range",
           "Rand32.range_ordered", "Rand32.range_reversed", "Rand32.range_equal", "Rand32.range_huge", "Rand32.range_tiny", "Rand32.range_unit", "Rand32.range_mixed_scale", "Rand32.range_zero",
           "Rand48.range_ordered", "Rand48.range_reversed", "Rand48.range_equal", "Rand48.range_huge", "Rand48.range_tiny", "Rand48.range_unit", "Rand48.range_mixed_scale", "Rand48.range_zero",
           "Rand32.nextf_returned_0", "Rand32.nextf_returned_max", "Rand48.nextf_returned_0", "Rand48.nextf_returned_max"})
    .chunked (8)
    .over ("per index one Rand32 and one Rand48 sequence of 10^4 member calls (nextb / nexti / nextf / nextf(a,b) with a,b from 8 classes: ordered, reversed, equal, huge incl. +-MAX, "
           "subnormal, unit, mixed scale, zero) from a seed (6/8 random 32/64-bit, 1/8 from 13 extreme seeds) or an injected extreme state (1/8: states whose successor gives nextf its "
           "minimum / maximum, all-ones, zero, ...), interleaved with an unrelated generator; then a same-seed twin built in differently pre-filled storage replays the calls alone");

// ---- drand48 / lrand48 on the static state BEFORE anything has seeded it (all words zero): one observation per process, taken
// during static initialisation - every other sub-check seeds first, so this state is unreachable from them (seeded change C18-7)
namespace
{
struct NeverSeeded
{
    double d;
    long   l;
    NeverSeeded () { d = IM::drand48 (); l = IM::lrand48 (); }
};
static const NeverSeeded g_never_seeded;
static void
sub_never_seeded (Ctx& c, uint64_t idx)
{
    unsigned short st[3] = {0, 0, 0};
    double         e = ::erand48 (st);
    long           n = ::nrand48 (st);
    c.eval (2);
    c.cls ("static_state_never_seeded");
    c.nontrivial (idx + 1);
    if (g_never_seeded.d != e)
        c.fail ("drand48.never_seeded_static_state", idx, [&] { return Obj ().kv ("imath_first_drand48", g_never_seeded.d).kv ("erand48_on_zero_state", e).str (); });
    if (g_never_seeded.l != n)
        c.fail ("lrand48.after_first_drand48_on_never_seeded_state", idx, [&] { return Obj ().kv ("imath", (int64_t) g_never_seeded.l).kv ("posix_nrand48", (int64_t) n).str (); });
}
} // namespace
MON_SUB_IDX (sub_never_seeded, "never_seeded_static_state", 1, 1).req ({"static_state_never_seeded"}).noscale ()
    .over ("the first drand48() and the following lrand48() of the process, taken during static initialisation before any srand48: equal to POSIX erand48 / nrand48 on the all-zero state");

MON_MAIN ("c18_random")
