// C09 part 3 - frame builders of ImathMatrixAlgo.h / ImathFrame.h return orthonormal,
// right-handed frames with the documented axes and origin:
//   rotationMatrix(from,to)                 from -> to
//   rotationMatrixWithUpDir(from,to,up)     from -> to, world up (0,1,0) -> up (both taken perpendicular to from / to)
//   alignZAxisWithTargetDir(M,target,up)    row 2 = target, row 1 = up made perpendicular to target, row 0 = up x target
//   computeLocalFrame(p,xDir,normal)        row 0 = xDir, row 1 = normal x xDir, row 2 = normal made perpendicular to xDir, origin p
//   firstFrame(pi,pj,pk)                    row 0 = pj-pi, row 1 = (pj-pi) x (pk-pi), row 2 = row0 x row1, origin pi
//   nextFrame(Mi,pi,pj,ti,tj)               frame Mi (row 0 = ti, origin pi) carried to origin pj with row 0 = tj
//   lastFrame(Mi,pi,pj)                     frame Mi translated by pj-pi
//
// "Nearly parallel" (the statement's exclusion) is fixed here as
//      sin(angle between the two directions) < sqrt(eps)      (float 3.5e-4, double 1.5e-8;
//      nextFrame: sqrt(eps_float) for both types because it calls acosf)
// Such pairs are executed but skipped-and-counted.  Above the threshold the tolerances scale
// with the conditioning of the cross product: C * eps / sin(angle).  Exactly parallel pairs
// (cross product exactly zero as real vectors) and zero vectors are judged only for
// alignZAxisWithTargetDir and rotationMatrixWithUpDir, which promise a valid frame there.
// Direction lengths are 2^-12 .. 2^12 (no under/overflow of the triple products in float).
// firstFrame is never called with pj == pi (noexcept + normalizeExc = std::terminate).
#include "c09_common.h"
using namespace c09;

// ---- tolerances in units of eps * conditioning (calibration: thorough tier, unchanged tree)
// (worst ratio seen = full thorough tier, seed 1, 8*10^7 cases per sub-check; every bound >= 8x that)
static const double C_FRAME      = 40;  // orthonormality / handedness / determinant: alignZ 2.8, rotWithUp 2.3, computeLocalFrame 2.7, firstFrame 4.5
static const double C_FRAME_ROTM = 160; // the same for rotationMatrix (un-normalised quaternion -> matrix): worst seen 18.4
static const double C_FRAME_NEXT = 128; // the same for nextFrame (setAxisAngle about a tiny cross product): worst seen 12.4
static const double C_AXIS       = 24;  // an axis of the frame vs its documented direction: worst seen 2.24 (firstFrame binormal)
static const double C_AXIS_ROTM  = 96;  // rotationMatrix: from -> to: worst seen 10.4
static const double C_ZAXIS      = 12;  // axes that are a plain normalisation of an argument (no cross product): worst seen 1.37
static const double C_ORIGIN     = 12;  // origin of nextFrame / lastFrame: |o - pj| <= C eps (|pi|+|pj|): worst seen 0.99 (nextFrame: 0, exact)
static const double C_NEXTDIR    = 48;  // nextFrame row 0 vs tj, in units of eps_FLOAT / sin(angle(ti,tj)) (acosf): worst seen 2.9; a dot product
                                        // rounded up to 1 (no rotation at all) can reach ~9

template <class T> static LD thr () { return sqrtl ((LD) EPS<T> ()); }

// ------------------------------------------------------------------ direction pairs
enum
{
    P_GENERIC, P_NEAR_PAR, P_NEAR_ANTI, P_PERP, P_AXIS, P_WIDE_LEN, P_OBTUSE, P_GENERIC2, // never exactly degenerate (8)
    P_EXACT_PAR_POW2, P_EXACT_ANTI_POW2, P_EXACT_PAR_LATTICE, P_ZERO_A, P_ZERO_B, P_ZERO_BOTH, P_PAR_ALONG_X, P_SAME // degenerate (8)
};
static const char* const PCN[16] = {"pair_generic",          "pair_nearly_parallel_1e-k", "pair_nearly_antiparallel_1e-k", "pair_perpendicular_exact",
                                    "pair_axis_aligned",     "pair_wide_lengths",         "pair_obtuse",                   "pair_generic_unit",
                                    "pair_exactly_parallel_pow2", "pair_exactly_antiparallel_pow2", "pair_exactly_parallel_lattice", "pair_first_zero",
                                    "pair_second_zero",      "pair_both_zero",            "pair_parallel_along_x",         "pair_identical"};

template <class T> static void
gen_pair (Rng& r, unsigned pc, T a[3], T b[3])
{
    const bool F = TN<T>::is_float;
    double     da[3], db[3];
    gen_dir (r, da);
    gen_dir (r, db);
    double la = std::ldexp (1.0 + r.uniform (), (int) r.range (-3, 3)), lb = std::ldexp (1.0 + r.uniform (), (int) r.range (-3, 3));
    auto   set = [&] (T* o, const double* d, double l) { for (int i = 0; i < 3; ++i) o[i] = (T) (d[i] * l); };
    switch (pc)
    {
        case P_GENERIC: set (a, da, la); set (b, db, lb); break;
        case P_GENERIC2: set (a, da, 1.0); set (b, db, 1.0); break;
        case P_WIDE_LEN:
            set (a, da, std::ldexp (1.0 + r.uniform (), (int) r.range (-12, 11)));
            set (b, db, std::ldexp (1.0 + r.uniform (), (int) r.range (-12, 11)));
            break;
        case P_NEAR_PAR:
        case P_NEAR_ANTI:
        case P_OBTUSE: {
            // e: unit vector perpendicular to da
            double e[3], dd = 0, n = 0;
            for (int i = 0; i < 3; ++i) dd += db[i] * da[i];
            for (int i = 0; i < 3; ++i) { e[i] = db[i] - dd * da[i]; n += e[i] * e[i]; }
            n = std::sqrt (n);
            if (n < 1e-3) { e[0] = da[1]; e[1] = -da[0]; e[2] = 0; n = std::sqrt (e[0] * e[0] + e[1] * e[1]); if (n < 1e-3) { e[0] = 1; e[1] = 0; n = 1; } }
            double off = pc == P_OBTUSE ? std::tan (r.uniform (0.05, 1.5)) : std::pow (10.0, -(double) r.range (1, F ? 7 : 10));
            double sg  = pc == P_NEAR_PAR ? 1.0 : -1.0;
            set (a, da, la);
            for (int i = 0; i < 3; ++i) b[i] = (T) ((sg * da[i] + off * e[i] / n) * lb);
            break;
        }
        case P_PERP: {
            // exactly perpendicular integer vectors in a random coordinate plane
            int x, y;
            do { x = (int) r.range (-8, 8); y = (int) r.range (-8, 8); } while (x == 0 && y == 0);
            int i0 = (int) r.range (0, 2), i1 = (i0 + 1 + (int) r.range (0, 1)) % 3, i2 = 3 - i0 - i1;
            int m = (int) r.range (1, 4) * (r.coin () ? 1 : -1);
            a[i0] = (T) x; a[i1] = (T) y; a[i2] = 0;
            b[i0] = (T) (-y * m); b[i1] = (T) (x * m); b[i2] = (T) 0;
            if (r.coin ()) { b[i0] = 0; b[i1] = 0; b[i2] = (T) m; }
            break;
        }
        case P_AXIS: {
            int i0 = (int) r.range (0, 2), i1 = (i0 + 1 + (int) r.range (0, 1)) % 3;
            for (int i = 0; i < 3; ++i) { a[i] = 0; b[i] = 0; }
            a[i0] = (T) (r.coin () ? la : -la);
            b[i1] = (T) (r.coin () ? lb : -lb);
            break;
        }
        case P_EXACT_PAR_POW2:
        case P_EXACT_ANTI_POW2: {
            set (a, da, la);
            double k = std::ldexp (pc == P_EXACT_PAR_POW2 ? 1.0 : -1.0, (int) r.range (-3, 3));
            for (int i = 0; i < 3; ++i) b[i] = (T) ((double) a[i] * k); // exact
            break;
        }
        case P_EXACT_PAR_LATTICE: {
            int v[3];
            do { for (int i = 0; i < 3; ++i) v[i] = (int) r.range (-8, 8); } while (v[0] == 0 && v[1] == 0 && v[2] == 0);
            int ma = (int) r.range (1, 5), mb = (int) r.range (1, 5) * (r.coin () ? 1 : -1);
            for (int i = 0; i < 3; ++i) { a[i] = (T) (v[i] * ma); b[i] = (T) (v[i] * mb); }
            break;
        }
        case P_ZERO_A: for (int i = 0; i < 3; ++i) a[i] = r.coin () ? (T) 0 : -(T) 0; set (b, db, lb); break;
        case P_ZERO_B: set (a, da, la); for (int i = 0; i < 3; ++i) b[i] = r.coin () ? (T) 0 : -(T) 0; break;
        case P_ZERO_BOTH: for (int i = 0; i < 3; ++i) { a[i] = 0; b[i] = r.coin () ? (T) 0 : -(T) 0; } break;
        case P_PAR_ALONG_X: {
            // both along one coordinate axis: exercises the second fall-back of alignZAxisWithTargetDir (target x (1,0,0) == 0)
            int i0 = r.one_in (3) ? (int) r.range (1, 2) : 0;
            for (int i = 0; i < 3; ++i) { a[i] = 0; b[i] = 0; }
            a[i0] = (T) (r.coin () ? la : -la);
            b[i0] = (T) (r.coin () ? lb : -lb);
            break;
        }
        default: set (a, da, la); for (int i = 0; i < 3; ++i) b[i] = a[i]; break; // P_SAME
    }
}

template <class T> static V3 ld3 (const T a[3]) { return mk ((LD) a[0], (LD) a[1], (LD) a[2]); }
static bool is_zero (const V3& a) { return a.v[0] == 0 && a.v[1] == 0 && a.v[2] == 0; }
// exactly parallel as real vectors: long double products of two floats are exact; for double the inputs of the exact
// classes are power-of-two / small-integer multiples of each other, for which the products coincide exactly as well
static bool exactly_parallel (const V3& a, const V3& b) { return is_zero (cross (a, b)); }

template <class T> static std::string
pair_desc (const char* fn, const char* cls, const T a[3], const T b[3], const Matrix44<T>& m)
{
    return Obj ().kv ("fn", fn).kv ("type", TN<T>::n ()).kv ("class", cls).raw ("a", vstr (a, 3)).raw ("b", vstr (b, 3)).raw ("got_matrix", mstr (m, 4)).str ();
}

// record ratio = measured / (eps * cond) and fail above C
template <class DescF> static void
judge (Ctx& c, Local& L, uint64_t idx, const char* fn, const char* ty, const char* what, const char* cl, const char* wname, LD measured, LD unit_tol, double C,
       DescF&& desc)
{
    double ratio = (double) (measured / unit_tol);
    L.worst (wname, ratio, idx, desc);
    if (!(ratio <= C)) c.fail (K (fn, ty) + what + cl, idx, desc);
}

// ================================================================== alignZAxisWithTargetDir
// Effective arguments after the documented zero substitutions; returns the conditioning sine (1 for the exactly
// parallel fall-back, which crosses with a coordinate axis), or -1 if the pair is nearly parallel (not judged).
static LD
alignz_condition (V3& t, V3& u, bool& degenerate, LD threshold)
{
    degenerate = false;
    if (is_zero (t)) { t = mk (0, 0, 1); degenerate = true; }
    if (is_zero (u)) { u = mk (0, 1, 0); degenerate = true; }
    if (exactly_parallel (t, u)) { degenerate = true; return 1; }
    LD s = sin_between (t, u);
    return s < threshold ? -1 : s;
}

template <class T> static void
sub_alignz (Ctx& c, Local& L, uint64_t idx)
{
    Rng            r  = c.rng (idx);
    const unsigned pc = (unsigned) (idx % 16);
    T              tg[3], up[3];
    gen_pair<T> (r, pc, tg, up);
    // a quarter of the wide-length pairs: BOTH vectors short (2^-40 for float, 2^-300 for double), scaled exactly.  The squared
    // length of their cross product underflows to zero while every quantity the function needs stays normal: a parallelism
    // test on length2() instead of the underflow-safe length() mistakes them for parallel (seeded change C09-8).
    const bool short_len = pc == P_WIDE_LEN && (idx / 16) % 4 == 0;
    if (short_len)
    {
        const int ex = sizeof (T) == 4 ? -40 : -300;
        for (T* v: {tg, up})
        {
            double n = std::sqrt ((double) v[0] * v[0] + (double) v[1] * v[1] + (double) v[2] * v[2]);
            int    k = ex - std::ilogb (n);
            for (int i = 0; i < 3; ++i) v[i] = (T) std::ldexp ((double) v[i], k);
        }
        L.cls ("pair_both_short_lengths");
    }
    // seed the result with garbage: every entry has to be written
    Matrix44<T> m;
    for (int i = 0; i < 4; ++i) for (int j = 0; j < 4; ++j) m[i][j] = (T) (r.gauss () * 100 + 3);
    alignZAxisWithTargetDir (m, Vec3<T> (tg[0], tg[1], tg[2]), Vec3<T> (up[0], up[1], up[2]));
    c.eval ();
    L.cls (PCN[pc]);
    const char *ty = TN<T>::n (), *fn = "alignZAxisWithTargetDir";
    const bool        F  = TN<T>::is_float;
    auto              desc = [&] { return pair_desc (fn, PCN[pc], tg, up, m); };
    V3   t0 = ld3 (tg), u0 = ld3 (up), t = t0, u = u0;
    bool degenerate;
    LD   s = alignz_condition (t, u, degenerate, thr<T> ());
    if (s < 0) { L.cls ("skipped_nearly_parallel"); return; }
    L.cls (degenerate ? "judged_degenerate_zero_or_exactly_parallel" : "judged_regular");
    c.nontrivial (hash_combine (hash_arr (tg, 3), hash_arr (up, 3)));
    const LD e = (LD) EPS<T> ();
    if (!(col3_exact (m) && row3_zero (m))) c.fail (K (fn, ty) + "homogeneous_part", idx, desc);
    const char* cl = degenerate ? "degenerate" : "regular";
    judge (c, L, idx, fn, ty, "orthonormal.", cl, F ? "alignZ.float.ortho_err_over_eps_cond" : "alignZ.double.ortho_err_over_eps_cond",
           std::max (ortho_dev (m), fabsl (det3 (m) - 1)), e / s, C_FRAME, desc);
    judge (c, L, idx, fn, ty, "right_handed.", cl, F ? "alignZ.float.handedness_err_over_eps_cond" : "alignZ.double.handedness_err_over_eps_cond", rh_dev (m), e / s,
           C_FRAME, desc);
    if (!is_zero (t0)) // "rotates the z-axis so that it points towards targetDir": (0,0,1)*M = row 2
        judge (c, L, idx, fn, ty, "z_axis_is_target.", cl, F ? "alignZ.float.zaxis_err_over_eps" : "alignZ.double.zaxis_err_over_eps",
               maxabs (sub (row3 (m, 2), unit (t0))), e, C_ZAXIS, desc);
    if (!degenerate)
    {
        judge (c, L, idx, fn, ty, "y_axis_is_up", "", F ? "alignZ.float.up_err_over_eps_cond" : "alignZ.double.up_err_over_eps_cond",
               maxabs (sub (row3 (m, 1), perp_unit (u0, unit (t0)))), e / s, C_AXIS, desc);
        judge (c, L, idx, fn, ty, "x_axis_is_up_cross_target", "", F ? "alignZ.float.xaxis_err_over_eps_cond" : "alignZ.double.xaxis_err_over_eps_cond",
               maxabs (sub (row3 (m, 0), unit (cross (u0, t0)))), e / s, C_AXIS, desc);
    }
    if (idx < 16) c.sample (PCN[pc], desc);
}
#define PAIR_REQ_ALL                                                                                                                              \
    "pair_generic", "pair_nearly_parallel_1e-k", "pair_nearly_antiparallel_1e-k", "pair_perpendicular_exact", "pair_axis_aligned", "pair_wide_lengths", \
        "pair_obtuse", "pair_generic_unit", "pair_exactly_parallel_pow2", "pair_exactly_antiparallel_pow2", "pair_exactly_parallel_lattice",          \
        "pair_first_zero", "pair_second_zero", "pair_both_zero", "pair_parallel_along_x", "pair_identical"
#define PAIR_REQ_REGULAR                                                                                                                          \
    "pair_generic", "pair_nearly_parallel_1e-k", "pair_nearly_antiparallel_1e-k", "pair_perpendicular_exact", "pair_axis_aligned", "pair_wide_lengths", \
        "pair_obtuse", "pair_generic_unit"
MON_SUB (ranged<sub_alignz<float>>, "alignZAxisWithTargetDir_float", 800000, 80000000)
    .req ({PAIR_REQ_ALL, "skipped_nearly_parallel", "judged_regular", "judged_degenerate_zero_or_exactly_parallel", "pair_both_short_lengths"})
    .over ("(target, up) pairs from 16 classes (+ both vectors short, 2^-40 / 2^-300): generic, nearly (anti)parallel 1e-1..1e-7, exactly perpendicular, axis aligned, lengths 2^-12..2^12, "
           "exactly (anti)parallel, zero target / up / both, parallel along a coordinate axis; result seeded with garbage");
MON_SUB (ranged<sub_alignz<double>>, "alignZAxisWithTargetDir_double", 800000, 80000000)
    .req ({PAIR_REQ_ALL, "skipped_nearly_parallel", "judged_regular", "judged_degenerate_zero_or_exactly_parallel"})
    .over ("as alignZAxisWithTargetDir_float, for double (nearly parallel 1e-1..1e-10)");

// ================================================================== rotationMatrixWithUpDir
template <class T> static void
sub_rotwithup (Ctx& c, Local& L, uint64_t idx)
{
    Rng            r  = c.rng (idx);
    const bool     F  = TN<T>::is_float;
    const unsigned fc = (unsigned) (idx % 4), pc = (unsigned) ((idx / 4) % 16);
    T              fr[3], to[3], up[3];
    gen_pair<T> (r, pc, to, up);
    const char* fcn;
    {
        double d[3];
        gen_dir (r, d);
        double l = std::ldexp (1.0 + r.uniform (), (int) r.range (-3, 3));
        if (fc == 2)
        {
            fcn = "from_exactly_along_world_up";
            fr[0] = 0; fr[1] = (T) (r.coin () ? l : -l); fr[2] = 0;
        }
        else if (fc == 3)
        {
            fcn = "from_nearly_along_world_up_1e-k";
            double off = std::pow (10.0, -(double) r.range (1, F ? 7 : 10)), a = r.uniform (0, 6.283185307179586);
            double sg  = r.coin () ? 1 : -1;
            fr[0] = (T) (off * std::cos (a) * l); fr[1] = (T) (sg * l); fr[2] = (T) (off * std::sin (a) * l);
        }
        else
        {
            fcn = "from_generic";
            for (int i = 0; i < 3; ++i) fr[i] = (T) (d[i] * l);
        }
    }
    Vec3<T>     vf (fr[0], fr[1], fr[2]);
    Matrix44<T> m  = rotationMatrixWithUpDir (vf, Vec3<T> (to[0], to[1], to[2]), Vec3<T> (up[0], up[1], up[2]));
    Vec3<T>     fm = vf * m; // the action on the from vector through operator*(Vec3, Matrix44)
    c.eval ();
    L.cls (PCN[pc]);
    L.cls (fcn);
    const char *ty = TN<T>::n (), *fn = "rotationMatrixWithUpDir";
    auto desc = [&] {
        return Obj ().kv ("fn", fn).kv ("type", ty).kv ("class", PCN[pc]).kv ("from_class", fcn).raw ("from", vstr (fr, 3)).raw ("to", vstr (to, 3)).raw ("up", vstr (up, 3))
            .raw ("got_matrix", mstr (m, 4)).raw ("from_times_matrix", vstr (fm)).str ();
    };
    V3   f0 = ld3 (fr), t0 = ld3 (to), u0 = ld3 (up), t = t0, u = u0, fy = mk (0, 1, 0), ff = f0;
    bool deg_t, deg_f;
    LD   st = alignz_condition (t, u, deg_t, thr<T> ());
    LD   sf = alignz_condition (ff, fy, deg_f, thr<T> ());
    if (st < 0 || sf < 0) { L.cls ("skipped_nearly_parallel"); return; }
    L.cls (deg_t ? "judged_degenerate_zero_or_exactly_parallel" : "judged_regular");
    c.nontrivial (hash_combine (hash_arr (fr, 3), hash_combine (hash_arr (to, 3), hash_arr (up, 3))));
    const LD    e = (LD) EPS<T> (), cond = 1 / st + 1 / sf;
    const char* cl = deg_t ? "degenerate" : "regular";
    if (!(col3_exact (m) && row3_zero (m))) c.fail (K (fn, ty) + "homogeneous_part", idx, desc);
    judge (c, L, idx, fn, ty, "orthonormal.", cl, F ? "rotWithUp.float.ortho_err_over_eps_cond" : "rotWithUp.double.ortho_err_over_eps_cond",
           std::max (ortho_dev (m), fabsl (det3 (m) - 1)), e * cond, C_FRAME, desc);
    judge (c, L, idx, fn, ty, "right_handed.", cl, F ? "rotWithUp.float.handedness_err_over_eps_cond" : "rotWithUp.double.handedness_err_over_eps_cond", rh_dev (m),
           e * cond, C_FRAME, desc);
    if (!is_zero (t0)) // "rotates the fromDir vector so that it points towards toDir"
        judge (c, L, idx, fn, ty, "from_maps_to_to.", cl, F ? "rotWithUp.float.from_to_err_over_eps_cond" : "rotWithUp.double.from_to_err_over_eps_cond",
               maxabs (sub (scaled (mk (fm), 1 / norm (f0)), unit (t0))), e * cond, C_AXIS, desc);
    if (!deg_t && !deg_f)
    {
        // world up, made perpendicular to from, goes to upDir made perpendicular to to
        V3 v = perp_unit (mk (0, 1, 0), unit (f0)), w = mk (0, 0, 0);
        for (int j = 0; j < 3; ++j) for (int i = 0; i < 3; ++i) w.v[j] += v.v[i] * (LD) m[i][j];
        judge (c, L, idx, fn, ty, "up_maps_to_upDir", "", F ? "rotWithUp.float.up_err_over_eps_cond" : "rotWithUp.double.up_err_over_eps_cond",
               maxabs (sub (w, perp_unit (u0, unit (t0)))), e * cond, C_AXIS, desc);
        L.cls ("up_alignment_judged");
    }
    if (idx < 64) c.sample ((std::string (PCN[pc]) + "/" + fcn).c_str (), desc);
}
MON_SUB (ranged<sub_rotwithup<float>>, "rotationMatrixWithUpDir_float", 800000, 80000000)
    .req ({PAIR_REQ_ALL, "from_generic", "from_exactly_along_world_up", "from_nearly_along_world_up_1e-k", "skipped_nearly_parallel", "judged_regular",
           "judged_degenerate_zero_or_exactly_parallel", "up_alignment_judged"})
    .over ("from in {generic, exactly along (0,1,0), nearly along (0,1,0)} x the 16 (to, up) pair classes of alignZAxisWithTargetDir; from is never zero");
MON_SUB (ranged<sub_rotwithup<double>>, "rotationMatrixWithUpDir_double", 800000, 80000000)
    .req ({PAIR_REQ_ALL, "from_generic", "from_exactly_along_world_up", "from_nearly_along_world_up_1e-k", "skipped_nearly_parallel", "judged_regular",
           "judged_degenerate_zero_or_exactly_parallel", "up_alignment_judged"})
    .over ("as rotationMatrixWithUpDir_float, for double");

// ================================================================== rotationMatrix (from, to)
template <class T> static void
sub_rotmatrix (Ctx& c, Local& L, uint64_t idx)
{
    Rng            r  = c.rng (idx);
    const bool     F  = TN<T>::is_float;
    const unsigned pc = (unsigned) (idx % 8);
    T              fr[3], to[3];
    gen_pair<T> (r, pc, fr, to);
    Vec3<T>     vf (fr[0], fr[1], fr[2]);
    Matrix44<T> m  = rotationMatrix (vf, Vec3<T> (to[0], to[1], to[2]));
    Vec3<T>     fm = vf * m;
    c.eval ();
    L.cls (PCN[pc]);
    const char *ty = TN<T>::n (), *fn = "rotationMatrix";
    auto desc = [&] { return Obj ().kv ("fn", fn).kv ("type", ty).kv ("class", PCN[pc]).raw ("from", vstr (fr, 3)).raw ("to", vstr (to, 3)).raw ("got_matrix", mstr (m, 4)).raw ("from_times_matrix", vstr (fm)).str (); };
    V3 f0 = ld3 (fr), t0 = ld3 (to);
    LD s  = sin_between (f0, t0);
    if (s < thr<T> ()) { L.cls ("skipped_nearly_parallel"); return; }
    L.cls ("judged_regular");
    c.nontrivial (hash_combine (hash_arr (fr, 3), hash_arr (to, 3)));
    // the half-way vector (f+t)/|f+t| of Quat::setRotation loses accuracy only towards the antiparallel end
    const LD e = (LD) EPS<T> (), cond = dot (f0, t0) >= 0 ? 1 : 1 / s;
    if (!(col3_exact (m) && row3_zero (m))) c.fail (K (fn, ty) + "homogeneous_part", idx, desc);
    judge (c, L, idx, fn, ty, "orthonormal", "", F ? "rotationMatrix.float.ortho_err_over_eps_cond" : "rotationMatrix.double.ortho_err_over_eps_cond",
           std::max (ortho_dev (m), fabsl (det3 (m) - 1)), e * cond, C_FRAME_ROTM, desc);
    judge (c, L, idx, fn, ty, "right_handed", "", F ? "rotationMatrix.float.handedness_err_over_eps_cond" : "rotationMatrix.double.handedness_err_over_eps_cond", rh_dev (m),
           e * cond, C_FRAME_ROTM, desc);
    judge (c, L, idx, fn, ty, "from_maps_to_to", "", F ? "rotationMatrix.float.from_to_err_over_eps_cond" : "rotationMatrix.double.from_to_err_over_eps_cond",
           maxabs (sub (scaled (mk (fm), 1 / norm (f0)), unit (t0))), e * cond, C_AXIS_ROTM, desc);
    if (idx < 8) c.sample (PCN[pc], desc);
}
MON_SUB (ranged<sub_rotmatrix<float>>, "rotationMatrix_float", 800000, 80000000)
    .req ({PAIR_REQ_REGULAR, "skipped_nearly_parallel", "judged_regular"})
    .over ("(from, to) pairs: generic, nearly (anti)parallel 1e-1..1e-7, exactly perpendicular, axis aligned, lengths 2^-12..2^12, obtuse");
MON_SUB (ranged<sub_rotmatrix<double>>, "rotationMatrix_double", 800000, 80000000)
    .req ({PAIR_REQ_REGULAR, "skipped_nearly_parallel", "judged_regular"})
    .over ("as rotationMatrix_float, for double");

// ================================================================== computeLocalFrame
template <class T> static void
gen_point (Rng& r, unsigned k, T p[3])
{
    for (int i = 0; i < 3; ++i) p[i] = k == 0 ? (T) r.range (-8, 8) : k == 1 ? (T) (r.gauss () * 4) : k == 2 ? (T) (r.gauss () * 1000) : (T) 0;
}

template <class T> static void
sub_localframe (Ctx& c, Local& L, uint64_t idx)
{
    Rng            r  = c.rng (idx);
    const bool     F  = TN<T>::is_float;
    const unsigned pc = (unsigned) (idx % 8);
    T              xd[3], nr[3], p[3];
    gen_pair<T> (r, pc, xd, nr);
    gen_point<T> (r, (unsigned) ((idx / 8) % 4), p);
    V3 x0 = ld3 (xd), n0 = ld3 (nr);
    LD s  = sin_between (x0, n0);
    c.eval ();
    L.cls (PCN[pc]);
    Matrix44<T> m = computeLocalFrame (Vec3<T> (p[0], p[1], p[2]), Vec3<T> (xd[0], xd[1], xd[2]), Vec3<T> (nr[0], nr[1], nr[2]));
    const char *ty = TN<T>::n (), *fn = "computeLocalFrame";
    auto desc = [&] { return Obj ().kv ("fn", fn).kv ("type", ty).kv ("class", PCN[pc]).raw ("p", vstr (p, 3)).raw ("xDir", vstr (xd, 3)).raw ("normal", vstr (nr, 3)).raw ("got_matrix", mstr (m, 4)).str (); };
    if (s < thr<T> ()) { L.cls ("skipped_nearly_parallel"); return; }
    L.cls ("judged_regular");
    c.nontrivial (hash_combine (hash_arr (xd, 3), hash_combine (hash_arr (nr, 3), hash_arr (p, 3))));
    const LD e = (LD) EPS<T> ();
    if (!col3_exact (m)) c.fail (K (fn, ty) + "homogeneous_part", idx, desc);
    if (!(m[3][0] == p[0] && m[3][1] == p[1] && m[3][2] == p[2])) c.fail (K (fn, ty) + "origin_is_p", idx, desc);
    judge (c, L, idx, fn, ty, "orthonormal", "", F ? "computeLocalFrame.float.ortho_err_over_eps_cond" : "computeLocalFrame.double.ortho_err_over_eps_cond",
           std::max (ortho_dev (m), fabsl (det3 (m) - 1)), e / s, C_FRAME, desc);
    judge (c, L, idx, fn, ty, "right_handed", "", F ? "computeLocalFrame.float.handedness_err_over_eps_cond" : "computeLocalFrame.double.handedness_err_over_eps_cond",
           rh_dev (m), e / s, C_FRAME, desc);
    judge (c, L, idx, fn, ty, "x_axis_is_xDir", "", F ? "computeLocalFrame.float.xaxis_err_over_eps" : "computeLocalFrame.double.xaxis_err_over_eps",
           maxabs (sub (row3 (m, 0), unit (x0))), e, C_ZAXIS, desc);
    // "a normal to the y axis": y = normal x xDir; "if the x axis and normal are perpendicular, the normal has the direction of the z axis"
    judge (c, L, idx, fn, ty, "y_axis_is_normal_cross_x", "", F ? "computeLocalFrame.float.yaxis_err_over_eps_cond" : "computeLocalFrame.double.yaxis_err_over_eps_cond",
           maxabs (sub (row3 (m, 1), unit (cross (n0, x0)))), e / s, C_AXIS, desc);
    judge (c, L, idx, fn, ty, "z_axis_is_normal", "", F ? "computeLocalFrame.float.zaxis_err_over_eps_cond" : "computeLocalFrame.double.zaxis_err_over_eps_cond",
           maxabs (sub (row3 (m, 2), perp_unit (n0, unit (x0)))), e / s, C_AXIS, desc);
    if (idx < 8) c.sample (PCN[pc], desc);
}
MON_SUB (ranged<sub_localframe<float>>, "computeLocalFrame_float", 800000, 80000000)
    .req ({PAIR_REQ_REGULAR, "skipped_nearly_parallel", "judged_regular"})
    .over ("(xDir, normal) pairs from the 8 non-degenerate pair classes x positions {lattice, generic, far, origin}");
MON_SUB (ranged<sub_localframe<double>>, "computeLocalFrame_double", 800000, 80000000)
    .req ({PAIR_REQ_REGULAR, "skipped_nearly_parallel", "judged_regular"})
    .over ("as computeLocalFrame_float, for double");

// ================================================================== firstFrame / nextFrame / lastFrame
// an orthonormal right-handed frame with row 0 along t and origin o, built in long double and rounded once
template <class T> static Matrix44<T>
clean_frame (Rng& r, const V3& t, const T o[3])
{
    V3     x = unit (t);
    double d[3];
    V3     y;
    for (;;)
    {
        gen_dir (r, d);
        y = mk (d[0], d[1], d[2]);
        if (norm (cross (x, y)) > 0.3) break;
    }
    y    = perp_unit (y, x);
    V3 z = cross (x, y);
    Matrix44<T> m;
    for (int j = 0; j < 3; ++j) { m[0][j] = (T) x.v[j]; m[1][j] = (T) y.v[j]; m[2][j] = (T) z.v[j]; m[3][j] = o[j]; }
    return m;
}
template <class M> static LD frame_err (const M& m) { return std::max (std::max (ortho_dev (m), rh_dev (m)), fabsl (det3 (m) - 1)); }

static const char* const FIRST_PCN[8] = {"first_pair_generic",      "first_pair_nearly_parallel_1e-k", "first_pair_nearly_antiparallel_1e-k", "first_pair_perpendicular_exact",
                                          "first_pair_axis_aligned", "first_pair_wide_lengths",         "first_pair_obtuse",                   "first_pair_generic_unit"};

template <class T> static void
sub_curve (Ctx& c, Local& L, uint64_t idx)
{
    Rng            r   = c.rng (idx);
    const bool     F   = TN<T>::is_float;
    const unsigned pc0 = (unsigned) (idx % 8);        // (pj-pi, pk-pi) of firstFrame
    const unsigned tc  = (unsigned) ((idx / 8) % 8);  // (ti, tj) of nextFrame
    const bool     want_chained = (idx / 64) & 1;
    const unsigned ptc = (unsigned) ((idx / 128) % 3);
    const char* ty = TN<T>::n ();
    const LD          e  = (LD) EPS<T> ();

    // ---- firstFrame
    T p0[3], p1[3], p2[3], d1[3], d2[3];
    gen_point<T> (r, ptc, p0);
    gen_pair<T> (r, pc0, d1, d2);
    for (int i = 0; i < 3; ++i) { p1[i] = p0[i] + d1[i]; p2[i] = p0[i] + d2[i]; }
    V3 P0 = ld3 (p0), P1 = ld3 (p1), P2 = ld3 (p2), D1 = sub (P1, P0), D2 = sub (P2, P0);
    if ((T) (p1[0] - p0[0]) == 0 && (T) (p1[1] - p0[1]) == 0 && (T) (p1[2] - p0[2]) == 0)
    {
        L.cls ("skipped_coincident_points_never_called"); // firstFrame would call std::terminate
        return;
    }
    Matrix44<T> M0 = firstFrame (Vec3<T> (p0[0], p0[1], p0[2]), Vec3<T> (p1[0], p1[1], p1[2]), Vec3<T> (p2[0], p2[1], p2[2]));
    c.eval ();
    L.cls (FIRST_PCN[pc0]);
    LD   s0  = is_zero (D2) ? 0 : sin_between (D1, D2);
    bool ff_judged = s0 >= thr<T> ();
    {
        auto desc = [&] {
            return Obj ().kv ("fn", "firstFrame").kv ("type", ty).kv ("class", PCN[pc0]).raw ("pi", vstr (p0, 3)).raw ("pj", vstr (p1, 3)).raw ("pk", vstr (p2, 3)).raw ("got_matrix", mstr (M0, 4)).str ();
        };
        const char* fn = "firstFrame";
        if (!ff_judged) L.cls ("firstFrame_skipped_nearly_parallel");
        else
        {
            L.cls ("firstFrame_judged");
            c.nontrivial (hash_combine (hash_arr (p0, 3), hash_combine (hash_arr (p1, 3), hash_arr (p2, 3))));
            V3 tr = unit (D1), nr = unit (cross (tr, D2)), br = cross (tr, nr);
            if (!col3_exact (M0)) c.fail (K (fn, ty) + "homogeneous_part", idx, desc);
            if (!(M0[3][0] == p0[0] && M0[3][1] == p0[1] && M0[3][2] == p0[2])) c.fail (K (fn, ty) + "origin_is_pi", idx, desc);
            judge (c, L, idx, fn, ty, "orthonormal", "", F ? "firstFrame.float.ortho_err_over_eps_cond" : "firstFrame.double.ortho_err_over_eps_cond",
                   std::max (ortho_dev (M0), fabsl (det3 (M0) - 1)), e / s0, C_FRAME, desc);
            judge (c, L, idx, fn, ty, "right_handed", "", F ? "firstFrame.float.handedness_err_over_eps_cond" : "firstFrame.double.handedness_err_over_eps_cond", rh_dev (M0),
                   e / s0, C_FRAME, desc);
            judge (c, L, idx, fn, ty, "row0_is_tangent", "", F ? "firstFrame.float.tangent_err_over_eps" : "firstFrame.double.tangent_err_over_eps",
                   maxabs (sub (row3 (M0, 0), tr)), e, C_ZAXIS, desc);
            judge (c, L, idx, fn, ty, "row1_is_plane_normal", "", F ? "firstFrame.float.normal_err_over_eps_cond" : "firstFrame.double.normal_err_over_eps_cond",
                   maxabs (sub (row3 (M0, 1), nr)), e / s0, C_AXIS, desc);
            judge (c, L, idx, fn, ty, "row2_is_binormal", "", F ? "firstFrame.float.binormal_err_over_eps_cond" : "firstFrame.double.binormal_err_over_eps_cond",
                   maxabs (sub (row3 (M0, 2), br)), e / s0, C_AXIS, desc);
            if (idx < 8) c.sample ((std::string ("firstFrame/") + PCN[pc0]).c_str (), desc);
        }
    }

    // ---- nextFrame: previous frame Mi at pi = p0 with row 0 along ti = pj - pi; carried to pj = p1 with tangent tj
    const bool chained = want_chained && s0 >= 0.1L;
    T          ti[3], tj[3];
    for (int i = 0; i < 3; ++i) ti[i] = p1[i] - p0[i];
    {
        // tj at a class-dependent angle from the GIVEN ti, in a random plane through ti
        V3     x = unit (ld3 (ti));
        double d[3];
        V3     y;
        for (;;) { gen_dir (r, d); y = mk (d[0], d[1], d[2]); if (norm (cross (x, y)) > 0.3) break; }
        y         = perp_unit (y, x);
        double lb = std::ldexp (1.0 + r.uniform (), (int) r.range (-3, 3));
        LD     ca, sa;
        switch (tc)
        {
            case 0: case 7: { double a = r.uniform (0.05, 3.09); ca = cosl (a); sa = sinl (a); break; }         // generic angle
            case 1: { LD o = powl (10.0L, -(LD) r.range (1, F ? 7 : 10)); ca = 1; sa = o; break; }              // nearly parallel
            case 2: { LD o = powl (10.0L, -(LD) r.range (1, F ? 7 : 10)); ca = -1; sa = o; break; }             // nearly antiparallel
            case 3: ca = 0; sa = 1; break;                                                                      // perpendicular
            case 4: { double a = r.uniform (1.6, 3.1); ca = cosl (a); sa = sinl (a); break; }                   // obtuse
            case 5: ca = 1; sa = 0; lb = 1; break;                                                              // identical tangent (exact copy below)
            default: ca = 1; sa = 0; lb = std::ldexp (1.0, (int) r.range (-3, 3)); break;                       // exact power-of-two multiple
        }
        for (int i = 0; i < 3; ++i)
            tj[i] = (tc == 5 || tc == 6) ? (T) ((double) ti[i] * lb) : (T) ((ca * x.v[i] + sa * y.v[i]) * (LD) lb);
    }
    static const char* const TCN[8] = {"tangent_generic",  "tangent_nearly_parallel_1e-k", "tangent_nearly_antiparallel_1e-k", "tangent_perpendicular",
                                       "tangent_obtuse",   "tangent_identical",            "tangent_exactly_parallel_pow2",    "tangent_generic"};
    V3          TI = ld3 (ti), TJ = ld3 (tj);
    Matrix44<T> Mi = chained ? M0 : clean_frame<T> (r, TI, p0);
    Vec3<T>     vti (ti[0], ti[1], ti[2]), vtj (tj[0], tj[1], tj[2]);
    Matrix44<T> M1 = nextFrame (Mi, Vec3<T> (p0[0], p0[1], p0[2]), Vec3<T> (p1[0], p1[1], p1[2]), vti, vtj);
    c.eval ();
    L.cls (TCN[tc]);
    L.cls (chained ? "nextFrame_input_from_firstFrame" : "nextFrame_input_clean_frame");
    LD   sn = sin_between (TI, TJ);
    bool exact_par = exactly_parallel (TI, TJ) && dot (TI, TJ) > 0;
    LD   thr_next  = sqrtl ((LD) eps_of<float>::value); // acosf: single precision conditioning for both element types
    bool nf_judged = exact_par || sn >= thr_next;
    {
        const char* fn = "nextFrame";
        auto desc = [&] {
            return Obj ().kv ("fn", fn).kv ("type", ty).kv ("tangent_class", TCN[tc]).kv ("input", chained ? "firstFrame" : "clean").raw ("Mi", mstr (Mi, 4))
                .raw ("pi", vstr (p0, 3)).raw ("pj", vstr (p1, 3)).raw ("ti", vstr (ti, 3)).raw ("tj", vstr (tj, 3)).raw ("got_matrix", mstr (M1, 4)).str ();
        };
        if (!nf_judged) L.cls ("nextFrame_skipped_nearly_parallel");
        else
        {
            L.cls (exact_par ? "nextFrame_judged_exactly_parallel" : "nextFrame_judged_regular");
            c.nontrivial (hash_combine (hash_arr (ti, 3), hash_combine (hash_arr (tj, 3), hash_arr (p1, 3))));
            LD condf = chained ? 1 / s0 : 1;
            if (!col3_exact (M1)) c.fail (K (fn, ty) + "homogeneous_part", idx, desc);
            judge (c, L, idx, fn, ty, "orthonormal_right_handed", "", F ? "nextFrame.float.frame_err_over_eps_cond" : "nextFrame.double.frame_err_over_eps_cond",
                   frame_err (M1), e * condf, C_FRAME_NEXT, desc);
            // origin: pi is taken to pj
            LD po = 0;
            for (int j = 0; j < 3; ++j) po = std::max (po, fabsl ((LD) M1[3][j] - (LD) p1[j]));
            LD ps = maxabs (P0) + maxabs (P1);
            if (ps == 0) { if (po != 0) c.fail (K (fn, ty) + "origin_is_pj", idx, desc); }
            else judge (c, L, idx, fn, ty, "origin_is_pj", "", F ? "nextFrame.float.origin_err_over_eps_scale" : "nextFrame.double.origin_err_over_eps_scale", po, e * ps, C_ORIGIN, desc);
            // row 0 (the tangent axis) is carried from ti to tj; accuracy is that of acosf: eps_float / sin(angle)
            LD ef = (LD) eps_of<float>::value;
            LD un = exact_par ? ef : ef / sn;
            judge (c, L, idx, fn, ty, exact_par ? "row0_is_tj.exactly_parallel" : "row0_is_tj", "",
                   F ? "nextFrame.float.tangent_err_over_epsfloat_cond" : "nextFrame.double.tangent_err_over_epsfloat_cond", maxabs (sub (row3 (M1, 0), unit (TJ))),
                   un, C_NEXTDIR, desc);
            if (idx < 64) c.sample ((std::string ("nextFrame/") + TCN[tc]).c_str (), desc);
        }
    }

    // ---- lastFrame: the frame M1 (origin p1) translated to p2
    Matrix44<T> M2 = lastFrame (M1, Vec3<T> (p1[0], p1[1], p1[2]), Vec3<T> (p2[0], p2[1], p2[2]));
    c.eval ();
    {
        const char* fn = "lastFrame";
        auto desc = [&] {
            return Obj ().kv ("fn", fn).kv ("type", ty).raw ("Mi", mstr (M1, 4)).raw ("pi", vstr (p1, 3)).raw ("pj", vstr (p2, 3)).raw ("got_matrix", mstr (M2, 4)).str ();
        };
        L.cls ("lastFrame_judged");
        bool same = true;
        for (int i = 0; i < 3; ++i) for (int j = 0; j < 3; ++j) if (ulpdiff (M2[i][j], M1[i][j]) != 0) same = false;
        if (!same) c.fail (K (fn, ty) + "axes_unchanged", idx, desc); // a pure translation keeps the axes bit for bit
        if (!col3_exact (M2)) c.fail (K (fn, ty) + "homogeneous_part", idx, desc);
        // origin: M1's origin (itself within tolerance of p1) moved by pj - pi
        LD po = 0;
        for (int j = 0; j < 3; ++j) po = std::max (po, fabsl ((LD) M2[3][j] - ((LD) M1[3][j] + ((LD) p2[j] - (LD) p1[j]))));
        LD ps = maxabs (P1) + maxabs (P2) + maxabs (mk ((LD) M1[3][0], (LD) M1[3][1], (LD) M1[3][2]));
        if (ps == 0) { if (po != 0) c.fail (K (fn, ty) + "origin_moves_by_pj_minus_pi", idx, desc); }
        else judge (c, L, idx, fn, ty, "origin_moves_by_pj_minus_pi", "", F ? "lastFrame.float.origin_err_over_eps_scale" : "lastFrame.double.origin_err_over_eps_scale", po, e * ps, C_ORIGIN, desc);
        if (idx < 8) c.sample ("lastFrame", desc);
    }
}
#define CURVE_REQ                                                                                                                                    \
    {"first_pair_generic", "first_pair_nearly_parallel_1e-k", "first_pair_nearly_antiparallel_1e-k", "first_pair_perpendicular_exact", "first_pair_axis_aligned", \
     "first_pair_wide_lengths", "first_pair_obtuse", "first_pair_generic_unit", "firstFrame_judged", "firstFrame_skipped_nearly_parallel", "tangent_generic",       \
     "tangent_nearly_parallel_1e-k", "tangent_nearly_antiparallel_1e-k", "tangent_perpendicular", "tangent_obtuse", "tangent_identical",                          \
     "tangent_exactly_parallel_pow2", "nextFrame_input_from_firstFrame", "nextFrame_input_clean_frame", "nextFrame_judged_regular",                               \
     "nextFrame_judged_exactly_parallel", "nextFrame_skipped_nearly_parallel", "lastFrame_judged"}
MON_SUB (ranged<sub_curve<float>>, "firstFrame_nextFrame_lastFrame_float", 800000, 80000000)
    .req (CURVE_REQ)
    .over ("curves p0,p1,p2: firstFrame over 8 classes of (p1-p0, p2-p0) x positions {lattice, generic, far}; nextFrame from that frame or from a clean long-double frame "
           "over 7 tangent classes (generic, nearly (anti)parallel, perpendicular, obtuse, identical, power-of-two multiple); lastFrame of the result");
MON_SUB (ranged<sub_curve<double>>, "firstFrame_nextFrame_lastFrame_double", 800000, 80000000)
    .req (CURVE_REQ)
    .over ("as firstFrame_nextFrame_lastFrame_float, for double");
