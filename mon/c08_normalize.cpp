// C08 - the normalize family: normalize / normalizeExc / normalizeNonNull (in place) and
// normalized / normalizedExc / normalizedNonNull (value) for Vec2/3/4 x {float,double}.
//
// For every non-zero, non-overflowing input: no component of the result is NaN/inf.
// When the reference norm ref (long double / __float128) is a NORMAL number of T:
//   * | |n| - 1 | <= C_UNIT * eps           (|n| evaluated in the reference precision)
//   * signbit(n_i) == signbit(v_i)          (signed zeros kept)
//   * | n_i * ref - v_i | <= C_RATIO * eps * ref   for every i
// Inputs with a subnormal reference norm are only judged for finiteness (counted in a class).
// The Exc forms must not throw on a non-zero vector.  (Zero vectors: c08_length.cpp, zero_vectors.)
#include "c08_common.h"

using namespace c08;

// Calibration (pristine tree, 6.75e8 vectors x 3 functions per family in the thorough tier + quick seeds 1..5):
// worst | |n|-1 | / eps = 1.77 (float) / 1.84 (double); worst |n_i*ref - v_i| / (eps*ref) = 1.75 / 1.83.
// Bounds = 8 x worst, rounded up.
static const double C_UNIT  = 16.0;
static const double C_RATIO = 16.0;

namespace
{
struct Worst
{
    double      ratio = -1;
    uint64_t    idx   = 0;
    std::string desc;
};
enum { F_NORMALIZE = 0, F_NORMALIZE_EXC, F_NORMALIZE_NONNULL, F_NORMALIZED, F_NORMALIZED_EXC, F_NORMALIZED_NONNULL, F_N };
const char* const fn_name[F_N] = {"normalize", "normalizeExc", "normalizeNonNull", "normalized", "normalizedExc", "normalizedNonNull"};
struct Worsts
{
    Worst w[F_N][3][2]; // [function][dim-2][0 = unit length, 1 = ratio]
};
} // namespace

template <class T, int N> static void
judge (Ctx& c, int fn, uint64_t idx, int cls, const T* a, const T* n, typename FP<T>::R ref, bool norm_is_normal, Worsts& ws)
{
    typedef typename FP<T>::R R;
    const char* tg   = FP<T>::tag ();
    auto        desc = [&] {
        return Obj ().kv ("function", fn_name[fn]).kv ("class", cls_name[cls]).raw ("v", vec_json<T, N> (a)).kv ("v_bits", vec_hex<T, N> (a))
            .raw ("result", vec_json<T, N> (n)).kv ("result_bits", vec_hex<T, N> (n)).kv ("ref_norm", (double) ref)
            .kv ("result_norm_minus_1_in_eps", (double) ((normR<T, N> (n) - (R) 1) / (R) eps_of<T>::value)).str ();
    };
    if (c.verbose) std::fprintf (stderr, "[replay] %s\n", desc ().c_str ());
    for (int i = 0; i < N; ++i)
        if (!std::isfinite (n[i]))
        {
            c.fail (tname (fn_name[fn], N, tg) + ":nonfinite", idx, desc);
            return;
        }
    if (!norm_is_normal) return;
    const R eps = (R) eps_of<T>::value;
    for (int i = 0; i < N; ++i)
        if (std::signbit (n[i]) != std::signbit (a[i])) c.fail (tname (fn_name[fn], N, tg) + ":sign[" + std::to_string (i) + "]", idx, desc);
    double u = (double) (FP<T>::absR (normR<T, N> (n) - (R) 1) / eps);
    Worst& wu = ws.w[fn][N - 2][0];
    if (u > wu.ratio) { wu.ratio = u; wu.idx = idx; wu.desc = desc (); }
    if (!(u <= C_UNIT)) c.fail (tname (fn_name[fn], N, tg) + ":unit_length", idx, desc);
    for (int i = 0; i < N; ++i)
    {
        double q = (double) (FP<T>::absR ((R) n[i] * ref - (R) a[i]) / (eps * ref));
        Worst& wr = ws.w[fn][N - 2][1];
        if (q > wr.ratio) { wr.ratio = q; wr.idx = idx; wr.desc = desc (); }
        if (!(q <= C_RATIO)) c.fail (tname (fn_name[fn], N, tg) + ":ratio[" + std::to_string (i) + "]", idx, desc);
    }
}

// inplace = true: normalize / normalizeExc / normalizeNonNull; false: the value forms
template <class T, int N, bool INPLACE> static void
norm_case (Ctx& c, uint64_t idx, Counts& k, Worsts& ws)
{
    typedef typename VecOf<T, N>::type V;
    typedef typename FP<T>::R          R;
    Rng r = c.rng (idx);
    T   a[N];
    int cls = gen<T, N> (r, idx, a, k);
    path_classes<T, N> (a, cls, k);
    if (all_zero<T, N> (a)) return; // cannot happen (every generator plants a non-zero slot); NonNull precondition
    const V v0  = VecOf<T, N>::make (a);
    R       ref = normR<T, N> (a);
    bool normal = ref >= (R) std::numeric_limits<T>::min ();
    k.n[normal ? K_NORM_NORMAL : K_NORM_SUBNORMAL]++;
    c.eval (3);
    if ((idx & 3) == 0) c.nontrivial (hash_vec<T, N> (a));
    T n[N];
    auto out = [&] (const V& x) { for (int i = 0; i < N; ++i) n[i] = x[i]; };
    const char* tg = FP<T>::tag ();
    if (INPLACE)
    {
        {
            V v = v0;
            out (v.normalize ()); // returns *this: the normalised object itself is judged
            judge<T, N> (c, F_NORMALIZE, idx, cls, a, n, ref, normal, ws);
        }
        {
            V v = v0;
            try
            {
                out (v.normalizeExc ());
                judge<T, N> (c, F_NORMALIZE_EXC, idx, cls, a, n, ref, normal, ws);
            }
            catch (const std::exception& ex)
            {
                std::string what = ex.what ();
                c.fail (tname ("normalizeExc", N, tg) + ":threw_on_nonzero_vector", idx, [&] { return Obj ().raw ("v", vec_json<T, N> (a)).kv ("v_bits", vec_hex<T, N> (a)).kv ("what", what).str (); });
            }
        }
        {
            V v = v0;
            out (v.normalizeNonNull ());
            judge<T, N> (c, F_NORMALIZE_NONNULL, idx, cls, a, n, ref, normal, ws);
        }
    }
    else
    {
        out (v0.normalized ());
        judge<T, N> (c, F_NORMALIZED, idx, cls, a, n, ref, normal, ws);
        try
        {
            out (v0.normalizedExc ());
            judge<T, N> (c, F_NORMALIZED_EXC, idx, cls, a, n, ref, normal, ws);
        }
        catch (const std::exception& ex)
        {
            std::string what = ex.what ();
            c.fail (tname ("normalizedExc", N, tg) + ":threw_on_nonzero_vector", idx, [&] { return Obj ().raw ("v", vec_json<T, N> (a)).kv ("v_bits", vec_hex<T, N> (a)).kv ("what", what).str (); });
        }
        out (v0.normalizedNonNull ());
        judge<T, N> (c, F_NORMALIZED_NONNULL, idx, cls, a, n, ref, normal, ws);
    }
    if (idx / 24 == 777)
        c.sample (cls_name[cls], [&] { return Obj ().kv ("dim", N).raw ("v", vec_json<T, N> (a)).kv ("v_bits", vec_hex<T, N> (a)).raw ("last_result", vec_json<T, N> (n)).kv ("ref_norm", (double) ref).str (); });
}

template <class T, bool INPLACE> static void
sub_norm (Ctx& c, uint64_t b, uint64_t e)
{
    Counts  k;
    Worsts  ws;
    for (uint64_t i = b; i < e; ++i)
    {
        switch (i % 3)
        {
            case 0: norm_case<T, 2, INPLACE> (c, i, k, ws); break;
            case 1: norm_case<T, 3, INPLACE> (c, i, k, ws); break;
            default: norm_case<T, 4, INPLACE> (c, i, k, ws); break;
        }
    }
    k.flush (c);
    for (int f = 0; f < F_N; ++f)
        for (int d = 0; d < 3; ++d)
            for (int p = 0; p < 2; ++p)
            {
                Worst& w = ws.w[f][d][p];
                if (w.ratio < 0) continue;
                std::string name = tname (fn_name[f], d + 2, FP<T>::tag ()) + (p == 0 ? ".unit_length.eps" : ".ratio.eps");
                c.worst (name.c_str (), w.ratio, w.idx, [&] { return w.desc; });
            }
}
static void sub_inplace_f (Ctx& c, uint64_t b, uint64_t e) { sub_norm<float, true> (c, b, e); }
static void sub_inplace_d (Ctx& c, uint64_t b, uint64_t e) { sub_norm<double, true> (c, b, e); }
static void sub_value_f (Ctx& c, uint64_t b, uint64_t e) { sub_norm<float, false> (c, b, e); }
static void sub_value_d (Ctx& c, uint64_t b, uint64_t e) { sub_norm<double, false> (c, b, e); }

#define C08_NORM_REQ                                                                                                             \
    []{ std::vector<std::string> v = C08_REQ_CLASSES; v.push_back ("norm_normal"); v.push_back ("norm_subnormal_only_finiteness_judged"); return v; }()

MON_SUB (sub_inplace_f, "normalize_inplace_float", 12000000, 450000000)
    .req (C08_NORM_REQ)
    .chunked (8192)
    .over ("Vec2/3/4<float>::normalize, normalizeExc, normalizeNonNull on non-zero vectors of the 8 input classes: finite; for a normal reference norm unit length, component signs, component ratios");
MON_SUB (sub_inplace_d, "normalize_inplace_double", 6000000, 225000000)
    .req (C08_NORM_REQ)
    .chunked (8192)
    .over ("Vec2/3/4<double>::normalize, normalizeExc, normalizeNonNull (reference in __float128)");
MON_SUB (sub_value_f, "normalized_value_float", 12000000, 450000000)
    .req (C08_NORM_REQ)
    .chunked (8192)
    .over ("Vec2/3/4<float>::normalized, normalizedExc, normalizedNonNull on non-zero vectors of the 8 input classes");
MON_SUB (sub_value_d, "normalized_value_double", 6000000, 225000000)
    .req (C08_NORM_REQ)
    .chunked (8192)
    .over ("Vec2/3/4<double>::normalized, normalizedExc, normalizedNonNull (reference in __float128)");
