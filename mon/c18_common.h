// C18 - shared pieces of the random-generator monitor (c18_random.cpp, c18_samplers.cpp).
//
// Oracles used here are independent of ImathRandom.cpp:
//   model 1  a 48-bit linear congruential generator written from the POSIX text
//            (X' = (0x5DEECE66D X + 0xB) mod 2^48, nrand48 = X' >> 17, erand48 = X' / 2^48),
//   model 2  the platform's ::nrand48/::erand48/::srand48/::lrand48/::drand48.
// The inverse step lcg_prev() is only used to GENERATE boundary states (states whose
// successor is a chosen value); it takes no part in judging.
#pragma once
#include "mon.h"
#include <ImathRandom.h>
#include <ImathVec.h>
#include <cfloat>
#include <climits>
#include <new>
#include <stdlib.h>
#include <type_traits>

namespace c18
{
using namespace mon;
using IMATH_NAMESPACE::Rand32;
using IMATH_NAMESPACE::Rand48;

constexpr uint64_t MASK48 = (1ull << 48) - 1;
constexpr uint64_t LCG_A  = 0x5DEECE66Dull;
constexpr uint64_t LCG_C  = 0xBull;

inline uint64_t lcg_next (uint64_t x) { return (LCG_A * x + LCG_C) & MASK48; }

// inverse of an odd number modulo 2^64 (Newton iteration; a*a = 1 mod 8 gives 3 bits to start)
inline uint64_t
inv_odd (uint64_t a)
{
    uint64_t x = a;
    for (int i = 0; i < 6; ++i) x *= 2 - a * x;
    return x;
}
// the state whose successor is y
inline uint64_t
lcg_prev (uint64_t y)
{
    static const uint64_t ai = inv_odd (LCG_A);
    return (ai * (y - LCG_C)) & MASK48;
}

// POSIX layout: x[0] = low-order 16 bits, x[2] = high-order 16 bits
inline void
unpack48 (uint64_t x, unsigned short w[3])
{
    w[0] = (unsigned short) (x & 0xffff);
    w[1] = (unsigned short) ((x >> 16) & 0xffff);
    w[2] = (unsigned short) ((x >> 32) & 0xffff);
}
inline uint64_t
pack48 (const unsigned short w[3])
{
    return ((uint64_t) w[2] << 32) | ((uint64_t) w[1] << 16) | (uint64_t) w[0];
}

// ---------------------------------------------------------------- boundary 48-bit states
enum
{
    B_STATE_ZERO = 0,
    B_STATE_ALLONES,
    B_SUCC_ZERO,          // erand48 returns its minimum (0), nrand48 returns 0
    B_SUCC_ALLONES,       // erand48 returns its maximum, nrand48 returns 0x7fffffff
    B_SUCC_HI31_ONES,     // nrand48 returns 0x7fffffff, low 17 bits random
    B_SUCC_HI31_ZERO,     // nrand48 returns 0
    B_SUCC_HI16_ONES,     // successor's high word all ones
    B_SUCC_HI16_ZERO,     // successor's high word all zero
    B_WORD_COMBO,         // every word from {0,1,0x7fff,0x8000,0xffff}
    B_SUCC_WORD_COMBO,    // successor of that shape
    B_SINGLE_BIT,         // 1 << k
    B_SUCC_SINGLE_BIT,    // successor == 1 << k
    B_SUCC_NEAR_MIN,      // successor in 1..15: erand48's smallest non-zero values
    B_SUCC_NEAR_MAX,      // successor in 2^48-16 .. 2^48-2
    B_COUNT
};
static const char* const B_NAMES[B_COUNT] = {
    "state_zero",       "state_allones",     "succ_zero_erand48_min", "succ_allones_erand48_max", "succ_hi31_ones", "succ_hi31_zero", "succ_hi16_ones",
    "succ_hi16_zero",   "word_combo",        "succ_word_combo",       "single_bit",               "succ_single_bit", "succ_near_min",  "succ_near_max"};

inline uint64_t
word_combo (Rng& r)
{
    static const unsigned short W[5] = {0, 1, 0x7fff, 0x8000, 0xffff};
    unsigned short w[3] = {W[r.u64 () % 5], W[r.u64 () % 5], W[r.u64 () % 5]};
    return pack48 (w);
}

inline uint64_t
boundary_state (Rng& r, unsigned which)
{
    switch (which % B_COUNT)
    {
        case B_STATE_ZERO: return 0;
        case B_STATE_ALLONES: return MASK48;
        case B_SUCC_ZERO: return lcg_prev (0);
        case B_SUCC_ALLONES: return lcg_prev (MASK48);
        case B_SUCC_HI31_ONES: return lcg_prev ((0x7fffffffull << 17) | (r.u64 () & 0x1ffff));
        case B_SUCC_HI31_ZERO: return lcg_prev (r.u64 () & 0x1ffff);
        case B_SUCC_HI16_ONES: return lcg_prev ((0xffffull << 32) | (r.u64 () & 0xffffffffull));
        case B_SUCC_HI16_ZERO: return lcg_prev (r.u64 () & 0xffffffffull);
        case B_WORD_COMBO: return word_combo (r);
        case B_SUCC_WORD_COMBO: return lcg_prev (word_combo (r));
        case B_SINGLE_BIT: return 1ull << (r.u64 () % 48);
        case B_SUCC_SINGLE_BIT: return lcg_prev (1ull << (r.u64 () % 48));
        case B_SUCC_NEAR_MIN: return lcg_prev (1 + r.u64 () % 15);
        default: return lcg_prev (MASK48 - 1 - r.u64 () % 15);
    }
}

// ---------------------------------------------------------------- generator objects
// Rand32 / Rand48 keep their state private.  Both are trivially copyable
// standard-layout classes, so the state is observed / injected with memcpy.
static_assert (sizeof (Rand48) == 6 && std::is_trivially_copyable<Rand48>::value, "Rand48 layout");
static_assert (sizeof (Rand32) == sizeof (unsigned long) && std::is_trivially_copyable<Rand32>::value, "Rand32 layout");

inline uint64_t
state_of (const Rand48& g)
{
    unsigned short w[3];
    std::memcpy (w, &g, 6);
    return pack48 (w);
}
inline void
inject (Rand48& g, uint64_t x)
{
    unsigned short w[3];
    unpack48 (x, w);
    std::memcpy (&g, w, 6);
}
inline uint64_t
state_of (const Rand32& g)
{
    unsigned long s;
    std::memcpy (&s, &g, sizeof s);
    return (uint64_t) s;
}
inline void
inject (Rand32& g, uint64_t x)
{
    unsigned long s = (unsigned long) x;
    std::memcpy (&g, &s, sizeof s);
}

// A generator constructed by placement new inside storage that was filled with
// a chosen byte first: a constructor / init() that forgets part of the state
// then yields a sequence that depends on the garbage, i.e. not on the seed alone.
template <class R> struct Slot
{
    alignas (16) unsigned char buf[32];
    R* p = nullptr;
    R& make (unsigned long seed, unsigned char fill)
    {
        std::memset (buf, fill, sizeof buf);
        __asm__ volatile ("" : : "r"(buf) : "memory");
        p = new (buf) R (seed);
        return *p;
    }
    R& get () { return *p; }
};

template <class R> struct Gen;
template <> struct Gen<Rand32>
{
    typedef float F;
    enum { index = 0 };
    static const char* name () { return "Rand32"; }
};
template <> struct Gen<Rand48>
{
    typedef double F;
    enum { index = 1 };
    static const char* name () { return "Rand48"; }
};

// ---------------------------------------------------------------- nextf(a,b) argument classes
enum
{
    RC_ORDERED = 0,
    RC_REVERSED,
    RC_EQUAL,
    RC_HUGE,
    RC_TINY,
    RC_UNIT,
    RC_MIXED_SCALE,
    RC_ZERO_WIDTH_ZERO,
    RC_COUNT
};
static const char* const RC_NAMES[RC_COUNT] = {"range_ordered", "range_reversed", "range_equal", "range_huge", "range_tiny", "range_unit", "range_mixed_scale", "range_zero"};

template <class F> struct FBits;
template <> struct FBits<float>
{
    static float huge (Rng& r) { return u2f (0x7f000000u | (r.u32 () & 0x7fffffu) | (r.coin () ? 0x80000000u : 0u)); }   // [2^127, 2^128)
    static float tiny (Rng& r) { return u2f ((r.u32 () & 0x7fffffu) | (r.coin () ? 0x80000000u : 0u)); }                  // subnormal or zero
    static float any (Rng& r) { return (float) r.logscale (-120, 120); }
    static float maxv () { return FLT_MAX; }
    static float minv () { return FLT_MIN; }
    static long double denorm () { return 1.401298464324817e-45L; }
    static long double eps () { return 1.1920928955078125e-07L; }
};
template <> struct FBits<double>
{
    static double huge (Rng& r) { return u2d (0x7fe0000000000000ull | (r.u64 () & 0xfffffffffffffull) | (r.coin () ? 0x8000000000000000ull : 0ull)); }
    static double tiny (Rng& r) { return u2d ((r.u64 () & 0xfffffffffffffull) | (r.coin () ? 0x8000000000000000ull : 0ull)); }
    static double any (Rng& r) { return r.logscale (-1000, 1000); }
    static double maxv () { return DBL_MAX; }
    static double minv () { return DBL_MIN; }
    static long double denorm () { return 4.9406564584124654e-324L; }
    static long double eps () { return 2.220446049250313e-16L; }
};

template <class F>
inline void
gen_range (Rng& r, unsigned cls, F& a, F& b)
{
    typedef FBits<F> B;
    switch (cls % RC_COUNT)
    {
        case RC_ORDERED:
        case RC_REVERSED: {
            F x = B::any (r), y = B::any (r);
            if (r.one_in (4)) y = x * (F) (1 + r.uniform () * 1e-3); // narrow interval
            F lo = x < y ? x : y, hi = x < y ? y : x;
            if (cls % RC_COUNT == RC_ORDERED) { a = lo; b = hi; }
            else { a = hi; b = lo; }
            break;
        }
        case RC_EQUAL: a = b = B::any (r); break;
        case RC_HUGE: {
            unsigned k = (unsigned) (r.u64 () % 8);
            F        M = B::maxv ();
            switch (k)
            {
                case 0: a = M; b = M; break;
                case 1: a = -M; b = M; break;
                case 2: a = M; b = -M; break;
                case 3: a = -M; b = -M; break;
                case 4: a = B::huge (r); b = M; break;
                case 5: a = B::huge (r); b = a; break;
                case 6: a = B::huge (r); b = B::any (r); break;
                default: a = B::huge (r); b = B::huge (r); break;
            }
            break;
        }
        case RC_TINY: {
            unsigned k = (unsigned) (r.u64 () % 4);
            a = B::tiny (r);
            b = k == 0 ? a : k == 1 ? B::tiny (r) : k == 2 ? (r.coin () ? B::minv () : -B::minv ()) : (F) 0;
            break;
        }
        case RC_UNIT: {
            unsigned k = (unsigned) (r.u64 () % 4);
            a = k == 0 ? (F) 0 : k == 1 ? (F) -1 : k == 2 ? (F) 1 : (F) -1;
            b = k == 0 ? (F) 1 : k == 1 ? (F) 1 : k == 2 ? (F) 0 : (F) 0;
            break;
        }
        case RC_MIXED_SCALE: {
            a = B::any (r);
            b = a * (F) std::ldexp (1.0, (int) r.range (-40, -10)) * (r.coin () ? (F) 1 : (F) -1);
            if (r.coin ()) std::swap (a, b);
            break;
        }
        default: a = r.coin () ? (F) 0 : -(F) 0; b = r.coin () ? (F) 0 : -(F) 0; break;
    }
}

// How far outside the closed interval between a and b the value v lies, in units
// of one rounding of the larger end point: eps*max(|a|,|b|) (+ the subnormal spacing).
// NaN / inf results give +inf.
template <class F>
inline double
range_excess (F a, F b, F v)
{
    if (!std::isfinite (v)) return INFINITY;
    long double lo = a < b ? a : b, hi = a < b ? b : a, x = v;
    long double ex = x < lo ? lo - x : x > hi ? x - hi : 0.0L;
    if (ex == 0) return 0;
    long double m    = std::fabs ((long double) a) > std::fabs ((long double) b) ? std::fabs ((long double) a) : std::fabs ((long double) b);
    long double unit = FBits<F>::eps () * m + FBits<F>::denorm ();
    return (double) (ex / unit);
}

// Tolerances.  Calibration on the unchanged tree (thorough tier, seed 1): 2.3*10^9 nextf(a,b) calls per generator,
// 9.6*10^8 draws per sampler; worst ratios observed (recorded with c.worst in every run):
//   nextf(a,b)        0.9968 (Rand32), 0.9959 (Rand48)  -- a-priori bound 1: two products and one sum, each rounded once
//   solidSphereRand   0.84  eps above 1 (|v|^2 is tested in T arithmetic by the library, the monitor sums in long double)
//   hollowSphereRand  1.47  eps (V4d.Rand48)
// Bounds are >= 8x the worst observation.
constexpr double RANGE_TOL  = 8.0;  // nextf(a,b): distance outside [min(a,b),max(a,b)] <= RANGE_TOL * (eps*max(|a|,|b|) + denorm_min)
constexpr double SOLID_TOL  = 8.0;  // solidSphereRand: |v|^2 <= 1 + SOLID_TOL*eps
constexpr double HOLLOW_TOL = 16.0; // hollowSphereRand: | |v| - 1 | <= HOLLOW_TOL*eps

template <class Vec>
inline long double
len2_ld (const Vec& v)
{
    long double s = 0;
    for (unsigned i = 0; i < Vec::dimensions (); ++i) s += (long double) v[i] * (long double) v[i];
    return s;
}
template <class Vec>
inline bool
all_finite (const Vec& v)
{
    for (unsigned i = 0; i < Vec::dimensions (); ++i)
        if (!std::isfinite (v[i])) return false;
    return true;
}
template <class Vec>
inline uint64_t
vec_bits (const Vec& v)
{
    uint64_t h = 0x1234;
    for (unsigned i = 0; i < Vec::dimensions (); ++i) h = hash_combine (h, d2u ((double) v[i])); // float -> double is injective
    return h;
}
template <class Vec>
inline std::string
vec_json (const Vec& v)
{
    double d[4] = {0, 0, 0, 0};
    for (unsigned i = 0; i < Vec::dimensions (); ++i) d[i] = (double) v[i];
    return Obj ().arr ("v", d, Vec::dimensions ()).str ();
}

} // namespace c18

// ---------------------------------------------------------------- sampler judgements (shared by both TUs)
namespace c18
{
using IMATH_NAMESPACE::V2d;
using IMATH_NAMESPACE::V2f;
using IMATH_NAMESPACE::V3d;
using IMATH_NAMESPACE::V3f;
using IMATH_NAMESPACE::V4d;
using IMATH_NAMESPACE::V4f;

template <class Vec> struct VT;
template <> struct VT<V2f> { static const char* name () { return "V2f"; } };
template <> struct VT<V3f> { static const char* name () { return "V3f"; } };
template <> struct VT<V4f> { static const char* name () { return "V4f"; } };
template <> struct VT<V2d> { static const char* name () { return "V2d"; } };
template <> struct VT<V3d> { static const char* name () { return "V3d"; } };
template <> struct VT<V4d> { static const char* name () { return "V4d"; } };

template <class Vec, class R>
inline std::string
who ()
{
    return std::string (VT<Vec>::name ()) + "." + Gen<R>::name ();
}

// returns (|v|^2 - 1) / eps  (negative inside the ball)
template <class Vec, class R>
inline double
judge_solid (Ctx& c, uint64_t idx, const Vec& v, uint64_t state_before)
{
    typedef typename Vec::BaseType T;
    if (!all_finite (v))
    {
        c.fail ("solidSphereRand." + who<Vec, R> () + ":nonfinite", idx, [&] { return Obj ().kv ("state_before", hex64 (state_before)).raw ("got", vec_json (v)).str (); });
        return INFINITY;
    }
    long double l2    = len2_ld (v);
    double      ratio = (double) ((l2 - 1.0L) / (long double) eps_of<T>::value);
    if (ratio > SOLID_TOL)
        c.fail ("solidSphereRand." + who<Vec, R> () + ":outside_unit_ball", idx, [&] {
            return Obj ().kv ("state_before", hex64 (state_before)).raw ("got", vec_json (v)).kv ("length2", (double) l2).kv ("excess_in_eps", ratio).kv ("allowed_eps", SOLID_TOL).str ();
        });
    return ratio;
}

// returns | |v| - 1 | / eps
template <class Vec, class R>
inline double
judge_hollow (Ctx& c, uint64_t idx, const Vec& v, uint64_t state_before)
{
    typedef typename Vec::BaseType T;
    if (!all_finite (v))
    {
        c.fail ("hollowSphereRand." + who<Vec, R> () + ":nonfinite", idx, [&] { return Obj ().kv ("state_before", hex64 (state_before)).raw ("got", vec_json (v)).str (); });
        return INFINITY;
    }
    long double l     = sqrtl (len2_ld (v));
    double      ratio = (double) (fabsl (l - 1.0L) / (long double) eps_of<T>::value);
    if (ratio > HOLLOW_TOL)
        c.fail ("hollowSphereRand." + who<Vec, R> () + ":not_unit_length", idx, [&] {
            return Obj ().kv ("state_before", hex64 (state_before)).raw ("got", vec_json (v)).kv ("length", (double) l).kv ("error_in_eps", ratio).kv ("allowed_eps", HOLLOW_TOL).str ();
        });
    return ratio;
}

template <class R>
inline void
judge_gauss (Ctx& c, uint64_t idx, float v, uint64_t state_before)
{
    if (!std::isfinite (v))
        c.fail (std::string ("gaussRand.") + Gen<R>::name () + ":nonfinite", idx, [&] { return Obj ().kv ("state_before", hex64 (state_before)).kv ("got", v).str (); });
}

template <class Vec, class R>
inline void
judge_gsphere (Ctx& c, uint64_t idx, const Vec& v, uint64_t state_before)
{
    if (!all_finite (v))
        c.fail ("gaussSphereRand." + who<Vec, R> () + ":nonfinite", idx, [&] { return Obj ().kv ("state_before", hex64 (state_before)).raw ("got", vec_json (v)).str (); });
}
} // namespace c18

// ---------------------------------------------------------------- termination of the rejection loops
// solidSphereRand / hollowSphereRand / gaussRand loop until the generator delivers a point
// in the unit ball.  A generator whose nextf(-1,1) is out of range makes them spin forever,
// which would silence the whole monitor.  Two defences (both defined in c18_samplers.cpp):
//  * sampler_probe(): once per process the samplers are run on a few seeds in a detached
//    thread; if that thread does not finish in 20 s the generator is flagged, every sub-check
//    records "<sampler>.<generator>:does_not_terminate" and skips the sampler calls;
//  * SamplerGuard: brackets every sampler call; a watchdog thread ends the process with exit
//    status 3 (the driver turns that into a "crash:" violation) if one call lasts > 60 s.
namespace c18
{
struct ProbeResult
{
    bool        hang[2];  // [0] Rand32, [1] Rand48
    const char* stage[2]; // function that was executing when the probe gave up
};
const ProbeResult& sampler_probe ();

std::atomic<uint32_t>& sampler_slot ();
extern std::atomic<uint32_t> g_sampler_epoch;
struct SamplerGuard
{
    std::atomic<uint32_t>& s;
    SamplerGuard () : s (sampler_slot ()) { s.store (g_sampler_epoch.load (std::memory_order_relaxed), std::memory_order_relaxed); }
    ~SamplerGuard () { s.store (0, std::memory_order_relaxed); }
};

// record the probe's verdict in the current sub-check (call once per chunk)
inline void
report_probe (Ctx& c, uint64_t idx)
{
    const ProbeResult& p = sampler_probe ();
    for (int g = 0; g < 2; ++g)
        if (p.hang[g])
            c.fail (std::string (p.stage[g]) + "." + (g ? "Rand48" : "Rand32") + ":does_not_terminate", idx,
                    [&] { return Obj ().kv ("generator", g ? "Rand48" : "Rand32").kv ("function", p.stage[g]).kv ("note", "probe on seeds 0,1,12345,0xffffffff,~0 did not return within 20 s; sampler calls on this generator are skipped").str (); });
}
} // namespace c18
