// C05 - products, transposes, minors, determinants equal their algebraic definitions.
// TU 1 of 3: dot / ^, cross / % / %= (2-D scalar, 3-D), Quat * and *=, outerProduct.
// (TU 2: matrix x matrix, vector x matrix, transpose, trace; TU 3: minors, determinants, relations.)
#include "c05_common.h"

using namespace c05;

// calibrated bounds (units: eps(T) * sum|terms|); worst ratios observed on the
// pristine tree are quoted in lib/props.d/c05.py and re-recorded on every run
static const double C_DOT   = 16.0;
static const double C_CROSS = 8.0;
static const double C_QUAT  = 16.0;

// ------------------------------------------------------------------ dot, operator^
template <class T, int N> static void
check_dot (Ctx& c, uint64_t idx, int cls, const T* a, const T* b)
{
    using R = typename Ref<T>::type;
    using V = typename VecOf<T, N>::type;
    V va = make_vec<T, N> (a), vb = make_vec<T, N> (b);
    R ref = 0, s = 0;
    for (int i = 0; i < N; ++i)
    {
        R t = (R) a[i] * (R) b[i];
        ref += t;
        s += rabs (t);
    }
    T      got = va.dot (vb), got2 = va ^ vb;
    double ratio = err_ratio (got, ref, s);
    c.eval ();
    static const std::string fn = "dot" + std::to_string (N) + "." + tname<T> (), fnr = fn + ".ratio";
    auto desc = [&] { return Obj ().kv ("class", cls_name[cls]).arr ("a", a, N).arr ("b", b, N).kv ("got", (double) got).kv ("want", (double) ref).kv ("sum_abs_terms", (double) s).kv ("ratio", ratio).str (); };
    if (!is_lattice (cls) && std::isfinite (ratio)) c.worst (fnr.c_str (), ratio, idx, desc);
    if (is_bad (cls, got, ref, ratio, C_DOT)) c.fail (fn + ":" + cls_name[cls], idx, desc);
    if (!same_bits (got, got2))
        c.fail (fn + ":spelling(^)", idx, [&] { return Obj ().kv ("class", cls_name[cls]).arr ("a", a, N).arr ("b", b, N).kv ("dot", (double) got).kv ("operator^", (double) got2).str (); });
    if (N == 3) c.sample (cls_name[cls], desc);
}

template <class T> static void
sub_dot (Ctx& c, uint64_t idx)
{
    Rng r = c.rng (idx);
    int cls = (int) (idx % K_NCLS);
    T   a[4], b[4];
    GenParam g;
    g.smax = 20;
    g.emax = 20;
    gen_vec<T, 4> (r, cls, a, g);
    gen_vec<T, 4> (r, cls, b, g);
    if (cls == K_DENSE && r.one_in (4))
    {
        // nearly cancelling pair: b orthogonal to a in the first two coordinates
        b[0] = a[1];
        b[1] = -a[0];
    }
    c.cls (cls_name[cls]);
    uint64_t h = hash_arr (hash_arr (1, a, 4), b, 4);
    bool     nz = false;
    for (int i = 0; i < 4; ++i) nz = nz || (a[i] != 0 && b[i] != 0);
    if (nz) c.nontrivial (h);
    check_dot<T, 2> (c, idx, cls, a, b);
    check_dot<T, 3> (c, idx, cls, a, b);
    check_dot<T, 4> (c, idx, cls, a, b);
}
MON_SUB_IDX (sub_dot<float>, "dot_float", 1000000, 100000000)
    .req ({C05_ALL_CLASSES})
    .over ("pairs of 4-vectors (prefixes give the Vec2/Vec3 cases) from 9 classes: Vec2/3/4<float>::dot and operator^ vs index-loop sum in long double");
MON_SUB_IDX (sub_dot<double>, "dot_double", 1000000, 50000000)
    .req ({C05_ALL_CLASSES})
    .over ("pairs of 4-vectors (prefixes give the Vec2/Vec3 cases) from 9 classes: Vec2/3/4<double>::dot and operator^ vs index-loop sum in __float128");

// ------------------------------------------------------------------ cross, %, %=
template <class T> static void
sub_cross (Ctx& c, uint64_t idx)
{
    using R = typename Ref<T>::type;
    Rng r = c.rng (idx);
    int cls = (int) (idx % K_NCLS);
    T   a[3], b[3];
    GenParam g;
    g.smax = 20;
    g.emax = 20;
    gen_vec<T, 3> (r, cls, a, g);
    gen_vec<T, 3> (r, cls, b, g);
    bool parallel = false;
    if (cls == K_DENSE && r.one_in (4))
    {
        // nearly parallel operands: every component cancels
        T k = (T) r.logscale (-3, 3);
        for (int i = 0; i < 3; ++i) b[i] = a[i] * k;
        parallel = true;
    }
    c.cls (cls_name[cls]);
    if (parallel) c.cls ("nearly_parallel");
    uint64_t h = hash_arr (hash_arr (2, a, 3), b, 3);
    std::string tn = tname<T> ();

    // ---- 3-D: c_i = sum_{j,k} eps_ijk a_j b_k  (right-handed: x % y = z)
    {
        Vec3<T> va = make_vec<T, 3> (a), vb = make_vec<T, 3> (b);
        Vec3<T> g1 = va.cross (vb), g2 = va % vb, g3 = va;
        const Vec3<T>& ret = (g3 %= vb);
        bool    any = false;
        double  wr = 0;
        int     wi = 0;
        R       refs[3], ss[3];
        for (int i = 0; i < 3; ++i)
        {
            R ref = 0, s = 0;
            for (int j = 0; j < 3; ++j)
                for (int k = 0; k < 3; ++k)
                {
                    int e = (i - j) * (j - k) * (k - i) / 2; // Levi-Civita symbol
                    if (e == 0) continue;
                    R t = (R) a[j] * (R) b[k];
                    ref += e > 0 ? t : -t;
                    s += rabs (t);
                }
            refs[i] = ref;
            ss[i] = s;
            if (s > 0) any = true;
            double ratio = err_ratio (g1[i], ref, s);
            if (ratio > wr) { wr = ratio; wi = i; }
            if (is_bad (cls, g1[i], ref, ratio, C_CROSS))
                c.fail ("cross3." + tn + ":" + slot1 (i), idx, [&] { return Obj ().kv ("class", cls_name[cls]).arr ("a", a, 3).arr ("b", b, 3).kv ("slot", i).kv ("got", (double) g1[i]).kv ("want", (double) ref).kv ("sum_abs_terms", (double) s).kv ("ratio", ratio).str (); });
            if (!same_bits (g1[i], g2[i]))
                c.fail ("cross3." + tn + ":spelling(%)", idx, [&] { return Obj ().kv ("class", cls_name[cls]).arr ("a", a, 3).arr ("b", b, 3).kv ("slot", i).kv ("cross", (double) g1[i]).kv ("operator%", (double) g2[i]).str (); });
            if (!same_bits (g1[i], g3[i]))
                c.fail ("cross3." + tn + ":spelling(%=)", idx, [&] { return Obj ().kv ("class", cls_name[cls]).arr ("a", a, 3).arr ("b", b, 3).kv ("slot", i).kv ("cross", (double) g1[i]).kv ("operator%=", (double) g3[i]).str (); });
        }
        if (&ret != &g3) c.fail ("cross3." + tn + ":spelling(%=,return)", idx, [&] { return Obj ().kv ("what", "operator%= did not return *this").str (); });
        c.eval ();
        if (any) c.nontrivial (h);
        if (!is_lattice (cls) && std::isfinite (wr))
            c.worst (("cross3." + tn + ".ratio").c_str (), wr, idx, [&] { return Obj ().kv ("class", cls_name[cls]).arr ("a", a, 3).arr ("b", b, 3).kv ("slot", wi).kv ("got", (double) g1[wi]).kv ("want", (double) refs[wi]).kv ("sum_abs_terms", (double) ss[wi]).str (); });
        c.sample (cls_name[cls], [&] { return Obj ().arr ("a", a, 3).arr ("b", b, 3).arr ("cross", &g1[0], 3).str (); });
        if (r.one_in (8))
        {
            // v %= v: the compound form on itself must equal v % v
            Vec3<T> s1 = va % va, s2 = va;
            s2 %= s2;
            c.cls ("self_alias");
            for (int i = 0; i < 3; ++i)
                if (!same_bits (s1[i], s2[i]))
                    c.fail ("cross3." + tn + ":spelling(%=,self_alias)", idx, [&] { return Obj ().arr ("a", a, 3).kv ("slot", i).kv ("a%a", (double) s1[i]).kv ("a%=a", (double) s2[i]).str (); });
        }
    }
    // ---- 2-D scalar: a.x b.y - a.y b.x
    {
        Vec2<T> va = make_vec<T, 2> (a), vb = make_vec<T, 2> (b);
        T       g1 = va.cross (vb), g2 = va % vb;
        R       ref = 0, s = 0;
        for (int j = 0; j < 2; ++j)
        {
            int k = 1 - j;
            R   t = (R) a[j] * (R) b[k];
            ref += j < k ? t : -t;
            s += rabs (t);
        }
        double ratio = err_ratio (g1, ref, s);
        c.eval ();
        auto desc = [&] { return Obj ().kv ("class", cls_name[cls]).arr ("a", a, 2).arr ("b", b, 2).kv ("got", (double) g1).kv ("want", (double) ref).kv ("sum_abs_terms", (double) s).kv ("ratio", ratio).str (); };
        if (!is_lattice (cls) && std::isfinite (ratio)) c.worst (("cross2." + tn + ".ratio").c_str (), ratio, idx, desc);
        if (is_bad (cls, g1, ref, ratio, C_CROSS)) c.fail ("cross2." + tn + ":" + cls_name[cls], idx, desc);
        if (!same_bits (g1, g2))
            c.fail ("cross2." + tn + ":spelling(%)", idx, [&] { return Obj ().arr ("a", a, 2).arr ("b", b, 2).kv ("cross", (double) g1).kv ("operator%", (double) g2).str (); });
    }
}
MON_SUB_IDX (sub_cross<float>, "cross_float", 1000000, 100000000)
    .req ({C05_ALL_CLASSES, "nearly_parallel", "self_alias"})
    .over ("pairs of 3-vectors from 9 classes (+ nearly parallel pairs): Vec3<float> cross/%/%= vs Levi-Civita loop, Vec2<float> cross/% (scalar) on the xy prefixes");
MON_SUB_IDX (sub_cross<double>, "cross_double", 1000000, 50000000)
    .req ({C05_ALL_CLASSES, "nearly_parallel", "self_alias"})
    .over ("pairs of 3-vectors from 9 classes (+ nearly parallel pairs): Vec3<double> cross/%/%= vs Levi-Civita loop, Vec2<double> cross/% (scalar) on the xy prefixes");

// ------------------------------------------------------------------ quaternion product
// Reference: Hamilton's basis table e_a e_b = +-e_c with e_0 = 1, e_1 e_2 = e_3 (cyclic),
// e_a e_a = -1; (q1 q2)_c = sum over the 16 pairs (a,b).
template <class T> static void
sub_quat (Ctx& c, uint64_t idx)
{
    using R = typename Ref<T>::type;
    Rng r = c.rng (idx);
    int cls = (int) (idx % K_NCLS);
    T   p[4], q[4];
    GenParam g;
    g.smax = 20;
    g.emax = 20;
    gen_vec<T, 4> (r, cls, p, g);
    gen_vec<T, 4> (r, cls, q, g);
    bool unit = false;
    if (cls == K_DENSE && r.coin ())
    {
        // unit quaternions (the usual operands)
        double np = 0, nq = 0;
        for (int i = 0; i < 4; ++i) { np += (double) p[i] * p[i]; nq += (double) q[i] * q[i]; }
        if (np > 0 && nq > 0)
        {
            for (int i = 0; i < 4; ++i) { p[i] = (T) (p[i] / std::sqrt (np)); q[i] = (T) (q[i] / std::sqrt (nq)); }
            unit = true;
        }
    }
    c.cls (cls_name[cls]);
    if (unit) c.cls ("unit_quaternions");
    std::string tn = tname<T> ();
    Quat<T> q1 (p[0], p[1], p[2], p[3]), q2 (q[0], q[1], q[2], q[3]);
    Quat<T> g1 = q1 * q2, g2 = q1;
    const Quat<T>& ret = (g2 *= q2);
    T       got[4] = {g1.r, g1.v[0], g1.v[1], g1.v[2]};
    T       got2[4] = {g2.r, g2.v[0], g2.v[1], g2.v[2]};
    R       ref[4] = {0, 0, 0, 0}, s[4] = {0, 0, 0, 0};
    for (int a = 0; a < 4; ++a)
        for (int b = 0; b < 4; ++b)
        {
            int cc, sign;
            if (a == 0) { cc = b; sign = 1; }
            else if (b == 0) { cc = a; sign = 1; }
            else if (a == b) { cc = 0; sign = -1; }
            else { cc = 6 - a - b; sign = ((b - a + 3) % 3 == 1) ? 1 : -1; }
            R t = (R) p[a] * (R) q[b];
            ref[cc] += sign > 0 ? t : -t;
            s[cc] += rabs (t);
        }
    bool   any = false;
    double wr = 0;
    int    wi = 0;
    for (int i = 0; i < 4; ++i)
    {
        if (s[i] > 0) any = true;
        double ratio = err_ratio (got[i], ref[i], s[i]);
        if (ratio > wr) { wr = ratio; wi = i; }
        if (is_bad (cls, got[i], ref[i], ratio, C_QUAT))
            c.fail ("quatmul." + tn + ":" + (i == 0 ? std::string ("r") : "v" + slot1 (i - 1)), idx, [&] { return Obj ().kv ("class", cls_name[cls]).arr ("q1(r,x,y,z)", p, 4).arr ("q2(r,x,y,z)", q, 4).kv ("component", i).kv ("got", (double) got[i]).kv ("want", (double) ref[i]).kv ("sum_abs_terms", (double) s[i]).kv ("ratio", ratio).str (); });
        if (!same_bits (got[i], got2[i]))
            c.fail ("quatmul." + tn + ":spelling(*=)", idx, [&] { return Obj ().kv ("class", cls_name[cls]).arr ("q1(r,x,y,z)", p, 4).arr ("q2(r,x,y,z)", q, 4).kv ("component", i).kv ("operator*", (double) got[i]).kv ("operator*=", (double) got2[i]).str (); });
    }
    if (&ret != &g2) c.fail ("quatmul." + tn + ":spelling(*=,return)", idx, [&] { return Obj ().kv ("what", "operator*= did not return *this").str (); });
    c.eval ();
    if (any) c.nontrivial (hash_arr (hash_arr (3, p, 4), q, 4));
    if (!is_lattice (cls) && std::isfinite (wr))
        c.worst (("quatmul." + tn + ".ratio").c_str (), wr, idx, [&] { return Obj ().kv ("class", cls_name[cls]).arr ("q1(r,x,y,z)", p, 4).arr ("q2(r,x,y,z)", q, 4).kv ("component", wi).kv ("got", (double) got[wi]).kv ("want", (double) ref[wi]).kv ("sum_abs_terms", (double) s[wi]).str (); });
    c.sample (cls_name[cls], [&] { return Obj ().arr ("q1(r,x,y,z)", p, 4).arr ("q2(r,x,y,z)", q, 4).arr ("q1*q2", got, 4).str (); });
    if (r.one_in (8))
    {
        Quat<T> s1 = q1 * q1, s2 = q1;
        s2 *= s2;
        c.cls ("self_alias");
        if (!same_bits (s1.r, s2.r) || !same_bits (s1.v[0], s2.v[0]) || !same_bits (s1.v[1], s2.v[1]) || !same_bits (s1.v[2], s2.v[2]))
            c.fail ("quatmul." + tn + ":spelling(*=,self_alias)", idx, [&] { return Obj ().arr ("q(r,x,y,z)", p, 4).kv ("q*q.r", (double) s1.r).kv ("q*=q.r", (double) s2.r).str (); });
    }
}
MON_SUB_IDX (sub_quat<float>, "quat_product_float", 1000000, 100000000)
    .req ({C05_ALL_CLASSES, "unit_quaternions", "self_alias"})
    .over ("pairs of Quat<float> from 9 classes (+ unit quaternions): operator* and operator*= vs the Hamilton basis table summed in long double");
MON_SUB_IDX (sub_quat<double>, "quat_product_double", 1000000, 30000000)
    .req ({C05_ALL_CLASSES, "unit_quaternions", "self_alias"})
    .over ("pairs of Quat<double> from 9 classes (+ unit quaternions): operator* and operator*= vs the Hamilton basis table summed in __float128");

// ------------------------------------------------------------------ outerProduct (Vec3 -> M33, Vec4 -> M44)
// every entry is ONE product a[i]*b[j]: a single correctly rounded operation, so equality is exact for all classes
template <class T, int N> static void
check_outer (Ctx& c, uint64_t idx, int cls, const T* a, const T* b)
{
    using V = typename VecOf<T, N>::type;
    using M = typename MatOf<T, N>::type;
    V va = make_vec<T, N> (a), vb = make_vec<T, N> (b);
    M m = outerProduct (va, vb);
    static const std::string fn = "outerProduct" + std::to_string (N) + std::to_string (N) + "." + tname<T> ();
    c.eval ();
    for (int i = 0; i < N; ++i)
        for (int j = 0; j < N; ++j)
        {
            volatile T want = a[i] * b[j];
            T          w = want;
            if (!same_bits (m[i][j], w))
                c.fail (fn + ":" + slot2 (i, j), idx, [&] { return Obj ().kv ("class", cls_name[cls]).arr ("a", a, N).arr ("b", b, N).kv ("i", i).kv ("j", j).kv ("got", (double) m[i][j]).kv ("want", (double) w).str (); });
        }
    if (N == 4) c.sample (cls_name[cls], [&] { return Obj ().arr ("a", a, N).arr ("b", b, N).arr ("outerProduct(row-major)", &m[0][0], N * N).str (); });
}

template <class T> static void
sub_outer (Ctx& c, uint64_t idx)
{
    Rng r = c.rng (idx);
    int cls = (int) (idx % K_NCLS);
    T   a[4], b[4];
    GenParam g;
    g.smax = 20;
    g.emax = 20;
    gen_vec<T, 4> (r, cls, a, g);
    gen_vec<T, 4> (r, cls, b, g);
    c.cls (cls_name[cls]);
    bool na = false, nb = false;
    for (int i = 0; i < 4; ++i) { na = na || a[i] != 0; nb = nb || b[i] != 0; }
    if (na && nb) c.nontrivial (hash_arr (hash_arr (4, a, 4), b, 4));
    check_outer<T, 3> (c, idx, cls, a, b);
    check_outer<T, 4> (c, idx, cls, a, b);
}
MON_SUB_IDX (sub_outer<float>, "outerProduct_float", 1000000, 100000000)
    .req ({C05_ALL_CLASSES})
    .over ("pairs of 4-vectors (xyz prefix for the 3x3 overload) from 9 classes: outerProduct(Vec3f,Vec3f), outerProduct(Vec4f,Vec4f): entry [i][j] == a[i]*b[j] exactly");
MON_SUB_IDX (sub_outer<double>, "outerProduct_double", 1000000, 100000000)
    .req ({C05_ALL_CLASSES})
    .over ("pairs of 4-vectors (xyz prefix for the 3x3 overload) from 9 classes: outerProduct(Vec3d,Vec3d), outerProduct(Vec4d,Vec4d): entry [i][j] == a[i]*b[j] exactly");

MON_MAIN ("c05_products")
