// C07 - Matrix22/33/44 inverse / invert / gjInverse / gjInvert:
// (singExc = true) vs (singExc = false) vs the no-argument noexcept forms.
//
// Oracle: the triple of outcomes on the same matrix.  The unchecked forms' failure
// report is "the identity, for a matrix that is not the identity"; the checked form
// must throw std::invalid_argument exactly then, and be bit-identical otherwise.
// Guard tightness (determinant paths): adjugate and determinant of the block the
// library inverts are recomputed in __float128 as sums over permutations (Leibniz),
// together with the sums of absolute terms that bound the library's rounding error.
#include "c07_common.h"
#include <ImathMatrix.h>

using namespace c07;
using namespace IMATH_NAMESPACE;

template <class M> struct MI;
template <class T> struct MI<Matrix22<T>> { enum { N = 2, HAS_GJ = 0 }; typedef T B; static std::string tag () { return std::string ("M22") + FT<T>::tag (); } };
template <class T> struct MI<Matrix33<T>> { enum { N = 3, HAS_GJ = 1 }; typedef T B; static std::string tag () { return std::string ("M33") + FT<T>::tag (); } };
template <class T> struct MI<Matrix44<T>> { enum { N = 4, HAS_GJ = 1 }; typedef T B; static std::string tag () { return std::string ("M44") + FT<T>::tag (); } };

// ------------------------------------------------------------------ exact determinant (Leibniz), n <= 4
static const int PERM2[2][2] = {{0, 1}, {1, 0}};
static const int SGN2[2]     = {1, -1};
static const int PERM3[6][3] = {{0, 1, 2}, {1, 2, 0}, {2, 0, 1}, {0, 2, 1}, {2, 1, 0}, {1, 0, 2}};
static const int SGN3[6]     = {1, 1, 1, -1, -1, -1};

// det and sum of |terms| of the k x k matrix a (row-major, stride 4), k in 1..4
static void
det_abs (const f128 a[4][4], int k, f128& det, f128& sumabs)
{
    det = 0; sumabs = 0;
    if (k == 1) { det = a[0][0]; sumabs = abs128 (det); return; }
    if (k == 2)
    {
        for (int p = 0; p < 2; ++p)
        {
            f128 t = a[0][PERM2[p][0]] * a[1][PERM2[p][1]];
            det += SGN2[p] * t; sumabs += abs128 (t);
        }
        return;
    }
    if (k == 3)
    {
        for (int p = 0; p < 6; ++p)
        {
            f128 t = a[0][PERM3[p][0]] * a[1][PERM3[p][1]] * a[2][PERM3[p][2]];
            det += SGN3[p] * t; sumabs += abs128 (t);
        }
        return;
    }
    // k == 4: expand along row 0
    for (int c0 = 0; c0 < 4; ++c0)
    {
        f128 m[4][4];
        for (int i = 1; i < 4; ++i)
            for (int j = 0, jj = 0; j < 4; ++j)
                if (j != c0) m[i - 1][jj++] = a[i][j];
        f128 d, s;
        det_abs (m, 3, d, s);
        det += ((c0 & 1) ? -1 : 1) * a[0][c0] * d;
        sumabs += abs128 (a[0][c0]) * s;
    }
}

// minor (i,j) of the k x k block: determinant of the block without row i and column j
static void
minor_abs (const f128 a[4][4], int k, int i, int j, f128& det, f128& sumabs)
{
    f128 m[4][4];
    for (int r = 0, rr = 0; r < k; ++r)
    {
        if (r == i) continue;
        for (int cc = 0, c2 = 0; cc < k; ++cc)
            if (cc != j) m[rr][c2++] = a[r][cc];
        ++rr;
    }
    det_abs (m, k - 1, det, sumabs);
}

// ------------------------------------------------------------------ generators
enum
{
    MC_BENIGN = 0,
    MC_BENIGN_AFFINE,
    MC_LATTICE,
    MC_SINGULAR_EXACT,
    MC_DET_NEAR_1,
    MC_THRESH_EXACT,
    MC_THRESH_RANDOM,
    MC_TINY,
    MC_HUGE,
    MC_SPECIAL,
    MC_NEAR_SINGULAR,
    MC_ANY,
    MC_N
};
static const char* const MCN[MC_N] = {"benign", "benign_affine", "lattice", "singular_exact", "det_near_1", "guard_threshold_exact", "guard_threshold_random",
                                      "tiny_entries", "huge_entries", "special(zero,identity,-0)", "near_singular", "any_exponent"};

template <class M>
static void
make_affine (M& m)
{
    typedef typename MI<M>::B T;
    const int                 N = MI<M>::N;
    for (int i = 0; i < N - 1; ++i) m[i][N - 1] = T (0);
    m[N - 1][N - 1] = T (1);
}

// size of the block whose determinant the determinant-based path of inverse() uses
// (0: the matrix takes the Gauss-Jordan path)
template <class M>
static int
det_block (const M& m)
{
    typedef typename MI<M>::B T;
    const int                 N = MI<M>::N;
    if (N == 2) return 2;
    bool affine = m[N - 1][N - 1] == T (1);
    for (int i = 0; i < N - 1; ++i) if (m[i][N - 1] != T (0)) affine = false;
    if (N == 3) return affine ? 2 : 3;
    return affine ? 3 : 0;
}

template <class M>
static void
gen_matrix (Rng& r, int cls, M& m, bool& want_affine)
{
    typedef typename MI<M>::B T;
    const int                 N = MI<M>::N;
    want_affine = false;
    for (int i = 0; i < N; ++i) for (int j = 0; j < N; ++j) m[i][j] = T (0);
    auto randfill = [&] (int sc) { for (int i = 0; i < N; ++i) for (int j = 0; j < N; ++j) m[i][j] = (T) std::ldexp (r.sym (1.0), sc); };
    // the block that matters for the determinant path: for N>2 every second case is affine
    bool aff = (N > 2) && r.coin ();
    int  K   = (N == 2) ? 2 : (aff ? N - 1 : N); // dimension of the "interesting" block
    switch (cls)
    {
        case MC_BENIGN:
            randfill ((int) r.range (-3, 3));
            break;
        case MC_BENIGN_AFFINE:
            randfill ((int) r.range (-3, 3));
            if (N > 2) { make_affine (m); want_affine = true; }
            break;
        case MC_LATTICE:
            for (int i = 0; i < N; ++i) for (int j = 0; j < N; ++j) m[i][j] = (T) r.range (-3, 3);
            if (aff) { make_affine (m); want_affine = true; }
            break;
        case MC_SINGULAR_EXACT: {
            for (int i = 0; i < N; ++i) for (int j = 0; j < N; ++j) m[i][j] = r.coin () ? (T) r.range (-4, 4) : (T) std::ldexp ((double) r.range (-8, 8), (int) r.range (-6, 6));
            if (aff) { make_affine (m); want_affine = true; }
            int kind = (int) r.range (0, 4), a = (int) r.range (0, K - 1), b = (int) ((a + 1 + r.range (0, K - 2)) % K);
            T   f = (T) std::ldexp (r.coin () ? 1.0 : -1.0, (int) r.range (-3, 3));
            if (kind == 0) for (int j = 0; j < K; ++j) m[a][j] = T (0);                // zero row
            else if (kind == 1) for (int i = 0; i < K; ++i) m[i][a] = T (0);           // zero column
            else if (kind == 2) for (int j = 0; j < K; ++j) m[b][j] = m[a][j];         // duplicate row
            else if (kind == 3) for (int j = 0; j < K; ++j) m[b][j] = f * m[a][j];     // power-of-two multiple of a row
            else for (int i = 0; i < K; ++i) m[i][b] = f * m[i][a];                    // power-of-two multiple of a column
            break;
        }
        case MC_DET_NEAR_1: {
            // |det| on both sides of 1 (the two scaling branches): random block, one row rescaled by 1/det
            randfill (0);
            if (aff) { make_affine (m); want_affine = true; }
            int kind = (int) r.range (0, 3);
            if (kind == 0)
            {
                // exact: diagonal of powers of two with product exactly 1, or 1 -/+ a few ulp
                for (int i = 0; i < K; ++i) for (int j = 0; j < K; ++j) m[i][j] = T (0);
                int e = 0;
                for (int i = 0; i < K - 1; ++i) { int ei = (int) r.range (-10, 10); e += ei; m[i][i] = (T) std::ldexp (r.coin () ? 1.0 : -1.0, ei); }
                m[K - 1][K - 1] = step ((T) std::ldexp (1.0, -e), (int) r.range (-2, 2));
            }
            else
            {
                f128 a[4][4], d, s;
                for (int i = 0; i < K; ++i) for (int j = 0; j < K; ++j) a[i][j] = m[i][j];
                det_abs (a, K, d, s);
                if (d != 0)
                {
                    int    row = (int) r.range (0, K - 1);
                    double sc  = 1.0 / (double) d * (1.0 + r.sym (kind == 1 ? 1e-6 : 0.3));
                    for (int j = 0; j < K; ++j) m[row][j] = (T) ((double) m[row][j] * sc);
                }
            }
            break;
        }
        case MC_THRESH_EXACT: {
            // permuted signed power-of-two diagonal block: every product the library forms is exact, and
            // max |cofactor| / |det| = 2^-e0 sits exactly on the guard value 1/min = 2^-(EMIN+MANT-1),
            // or a few representable values beside it
            int perm[4] = {0, 1, 2, 3};
            for (int i = K - 1; i > 0; --i) { int j = (int) r.range (0, i); std::swap (perm[i], perm[j]); }
            int emin_norm = FT<T>::EMIN + FT<T>::MANT - 1;       // -126 / -1022
            int big       = -emin_norm / (K + 1);                // keeps every cofactor and the determinant in range
            for (int i = 0; i < K; ++i)
            {
                int  e = (i == 0) ? emin_norm : (int) r.range (big / 2, big);
                T    v = (T) std::ldexp (r.coin () ? 1.0 : -1.0, e);
                if (i == 0) v = step (v, (int) r.range (-2, 2)); // exactly on / just beside the threshold
                m[i][perm[i]] = v;
            }
            if (aff || N == 2) { if (N > 2) { for (int j = 0; j < N - 1; ++j) m[N - 1][j] = benign<T> (r); m[N - 1][N - 1] = T (1); want_affine = true; } }
            else if (N == 3 && K == 3) { /* general path: x[2][2] != 1 is guaranteed unless the entry is exactly 1 */ if (m[2][2] == T (1)) m[2][2] = T (2); }
            else if (N == 4) { /* non-affine 4x4 goes to Gauss-Jordan anyway */ }
            break;
        }
        case MC_THRESH_RANDOM: {
            // D1 * B * D2 with B random O(1): cof_ij / det = cof_ij(B)/det(B) * 2^-(a_i+b_j); a_0 puts the
            // largest ratio within a factor 2^+-3 of 1/min while determinant and cofactors stay in range
            int emin_norm = FT<T>::EMIN + FT<T>::MANT - 1;
            int big       = -emin_norm / (K + 1);
            int a[4], b[4];
            for (int i = 0; i < K; ++i) { a[i] = (int) r.range (big / 2, big) / 2; b[i] = (int) r.range (big / 2, big) / 2; }
            int i0 = (int) r.range (0, K - 1), j0 = (int) r.range (0, K - 1);
            a[i0] = emin_norm + (int) r.range (-3, 3) - b[j0];
            for (int i = 0; i < K; ++i) for (int j = 0; j < K; ++j) m[i][j] = (T) std::ldexp (r.uniform (0.5, 1.0) * (r.coin () ? 1 : -1), a[i] + b[j]);
            if (r.coin ())
            {
                // fine tuning: rescale row i0 (its cofactors do not depend on it, the determinant is linear in it)
                // so that the exact max |cof_{i0,j}| / |det| lands within a few eps of the guard value 1/min;
                // this is where the library's rounding decides, i.e. where the tolerance of the tightness
                // check is exercised
                f128 A[4][4], det, sa, best = 0;
                for (int i = 0; i < K; ++i) for (int j = 0; j < K; ++j) A[i][j] = m[i][j];
                det_abs (A, K, det, sa);
                for (int j = 0; j < K; ++j) { f128 mn, ms; minor_abs (A, K, i0, j, mn, ms); if (abs128 (mn) > best) best = abs128 (mn); }
                if (det != 0 && best != 0)
                {
                    f128 g = best / abs128 (det) * (f128) tmin<T> () * (1 + (f128) (r.sym (6.0) * (double) teps<T> ()));
                    for (int j = 0; j < K; ++j) m[i0][j] = (T) ((f128) m[i0][j] * g);
                }
            }
            if (aff) { for (int j = 0; j < N - 1; ++j) m[N - 1][j] = benign<T> (r); m[N - 1][N - 1] = T (1); want_affine = true; }
            break;
        }
        case MC_TINY:
            for (int i = 0; i < N; ++i) for (int j = 0; j < N; ++j)
                m[i][j] = r.one_in (3) ? subnormal<T> (r, r.coin ()) : lscale<T> (r, FT<T>::EMIN + FT<T>::MANT, FT<T>::EMIN + 2 * FT<T>::MANT + 40);
            if (aff) { make_affine (m); want_affine = true; }
            break;
        case MC_HUGE:
            for (int i = 0; i < N; ++i) for (int j = 0; j < N; ++j) m[i][j] = r.one_in (3) ? benign<T> (r) : lscale<T> (r, FT<T>::EMAX / 2 - 2, FT<T>::EMAX - 1);
            if (aff) { make_affine (m); want_affine = true; }
            break;
        case MC_SPECIAL: {
            int kind = (int) r.range (0, 3);
            if (kind == 1 || kind == 2) for (int i = 0; i < N; ++i) m[i][i] = T (1);
            if (kind == 2) for (int i = 0; i < N; ++i) for (int j = 0; j < N; ++j) if (i != j && r.coin ()) m[i][j] = -T (0);
            if (kind == 3) { for (int i = 0; i < N; ++i) m[i][i] = r.coin () ? T (1) : T (-1); if (r.coin ()) m[0][0] = tden<T> (); }
            break;
        }
        case MC_NEAR_SINGULAR: {
            // rank-deficient lattice plus a perturbation of relative size 2^-p
            for (int i = 0; i < N; ++i) for (int j = 0; j < N; ++j) m[i][j] = (T) r.range (-3, 3);
            int a = (int) r.range (0, K - 1), b = (int) ((a + 1 + r.range (0, K - 2)) % K);
            for (int j = 0; j < K; ++j) m[b][j] = m[a][j];
            int p = (int) r.range (4, FT<T>::MANT + 6);
            m[b][(int) r.range (0, K - 1)] += (T) std::ldexp (r.sym (1.0), -p);
            if (aff) { make_affine (m); want_affine = true; }
            break;
        }
        default:
            for (int i = 0; i < N; ++i) for (int j = 0; j < N; ++j) m[i][j] = r.one_in (6) ? T (0) : anyfinite<T> (r);
            if (aff) { make_affine (m); want_affine = true; }
            break;
    }
}

template <class M>
static bool
is_identity_bits (const M& m)
{
    typedef typename MI<M>::B T;
    const int                 N = MI<M>::N;
    for (int i = 0; i < N; ++i) for (int j = 0; j < N; ++j) if (FT<T>::bits (m[i][j]) != FT<T>::bits (i == j ? T (1) : T (0))) return false;
    return true;
}
template <class M>
static bool
is_identity_value (const M& m)
{
    typedef typename MI<M>::B T;
    const int                 N = MI<M>::N;
    for (int i = 0; i < N; ++i) for (int j = 0; j < N; ++j) if (!(m[i][j] == (i == j ? T (1) : T (0)))) return false;
    return true;
}

// four call shapes per algorithm
template <class M> struct DetPath
{
    static M inv_b (const M& m, bool e) { return m.inverse (e); }
    static M inv_0 (const M& m) { return m.inverse (); }
    static M ivt_b (M m, bool e) { m.invert (e); return m; }
    static M ivt_0 (M m) { m.invert (); return m; }
    static const char* f_inverse () { return "inverse"; }
    static const char* f_invert () { return "invert"; }
};
template <class M> struct GjPath
{
    static M inv_b (const M& m, bool e) { return m.gjInverse (e); }
    static M inv_0 (const M& m) { return m.gjInverse (); }
    static M ivt_b (M m, bool e) { m.gjInvert (e); return m; }
    static M ivt_0 (M m) { m.gjInvert (); return m; }
    static const char* f_inverse () { return "gjInverse"; }
    static const char* f_invert () { return "gjInvert"; }
};

template <class M, class P, bool DETPATH>
static void
sub_inv (Ctx& c, uint64_t idx)
{
    typedef typename MI<M>::B T;
    const int                 N   = MI<M>::N;
    const std::string         tag = MI<M>::tag ();
    Rng                       r   = c.rng (idx);
    int                       cls = (int) (idx % MC_N);
    M                         m;
    bool                      want_affine;
    gen_matrix (r, cls, m, want_affine);
    c.eval ();
    c.cls (MCN[cls]);
    uint64_t h = 0;
    for (int i = 0; i < N; ++i) for (int j = 0; j < N; ++j) h = hbits (h, m[i][j]);
    c.nontrivial (h);
    int K = det_block (m);
    bool uses_det = DETPATH && K > 0;
    if (DETPATH) c.cls (K == 0 ? "path_gauss_jordan" : (K == N ? "path_general_cofactor" : "path_affine_cofactor"));
    const bool m_is_identity = is_identity_value (m);

    // ---- unchecked: (false) and no-argument forms, value-returning and in-place
    M       u[4];
    ExcKind ku[4];
    ku[0] = guarded ([&] { u[0] = P::inv_b (m, false); });
    ku[1] = guarded ([&] { u[1] = P::inv_0 (m); });
    ku[2] = guarded ([&] { u[2] = P::ivt_b (m, false); });
    ku[3] = guarded ([&] { u[3] = P::ivt_0 (m); });
    static const char* const UN[4] = {"(false)", "()", "(false)", "()"};
    // ---- checked
    M       g[2];
    ExcKind kc[2];
    kc[0] = guarded ([&] { g[0] = P::inv_b (m, true); });
    kc[1] = guarded ([&] { g[1] = P::ivt_b (m, true); });

    auto describe = [&] (const M& got, const M& want, ExcKind k) {
        return Obj ().raw ("m", jarr_hex (&m[0][0], N * N)).raw ("m_value", jarr (&m[0][0], N * N)).raw ("checked", jarr_hex (&got[0][0], N * N)).raw ("unchecked", jarr_hex (&want[0][0], N * N)).kv ("exception", exc_name (k)).kv ("class", MCN[cls]).kv ("det_block", K).str ();
    };
    for (int q = 0; q < 4; ++q)
        if (ku[q] != EX_NONE)
            c.fail (key (q < 2 ? P::f_inverse () : P::f_invert (), tag, (std::string ("unchecked") + UN[q] + "_threw").c_str ()), idx, [&] { return describe (u[q], u[q], ku[q]); });

    for (int w = 0; w < 2; ++w) // 0: inverse, 1: invert
    {
        const char* fn = w == 0 ? P::f_inverse () : P::f_invert ();
        for (int q = 0; q < 2; ++q) // against (false) and ()
        {
            const M&    un  = u[2 * w + q];
            if (ku[2 * w + q] != EX_NONE) continue;
            const bool un_reports = is_identity_value (un) && !m_is_identity;
            if (kc[w] == EX_NONE)
            {
                int slot = 0;
                if (!same_n (&g[w][0][0], &un[0][0], N * N, &slot))
                    c.fail (key (fn, tag, (std::string ("(true)_differs_from") + UN[q]).c_str ()), idx, [&] { return describe (g[w], un, kc[w]); });
                else if (un_reports)
                    c.fail (key (fn, tag, (std::string ("no_throw_but") + UN[q] + "_returned_identity").c_str ()), idx, [&] { return describe (g[w], un, kc[w]); });
            }
            else
            {
                if (!un_reports) c.fail (key (fn, tag, (std::string ("threw_but") + UN[q] + "_reports_no_failure").c_str ()), idx, [&] { return describe (g[w], un, kc[w]); });
                else if (!is_identity_bits (un)) c.fail (key (fn, tag, (std::string ("failure_result_of") + UN[q] + "_not_identity_bits").c_str ()), idx, [&] { return describe (g[w], un, kc[w]); });
            }
        }
        if (kc[w] == EX_NONE) c.cls ("checked_returned");
        else
        {
            c.cls ("checked_threw");
            if (kc[w] != EX_INVALID) c.fail (key (fn, tag, "wrong_exception_type"), idx, [&] { return describe (g[w], u[2 * w], kc[w]); });
        }
    }
    // value-returning and in-place spelling of the checked form are the same operation
    if (kc[0] != kc[1]) c.fail (key (P::f_invert (), tag, "outcome_differs_from_value_returning_form"), idx, [&] { return describe (g[1], g[0], kc[1]); });

    // ---- when the checked form threw: was it entitled to?
    if (kc[0] != EX_NONE || kc[1] != EX_NONE)
    {
        const int KK = uses_det ? K : N;
        f128      a[4][4], det, sumabs;
        for (int i = 0; i < KK; ++i) for (int j = 0; j < KK; ++j) a[i][j] = m[i][j];
        det_abs (a, KK, det, sumabs);
        const f128 eps = teps<T> (), den = tden<T> ();
        if (uses_det)
        {
            c.cls ("threw_on_determinant_path");
            // (c) guard tightness.  Library: fails iff |s_ij| >= |r| / min for some cofactor s_ij and
            // determinant r, both computed in T.  |s_ij - a_ij| <= 8 eps P_ij + 16 den and
            // |r - det| <= 8 eps P + 16 den (P = sums of absolute terms; theory: <= 2.5 eps P).
            // Demand: some (|a_ij| + E_ij) >= (|det| - E) * max/4.
            const f128 lim   = (f128) tmax<T> () / 4;
            f128       E     = 8 * eps * sumabs + 16 * den;
            f128       floor = abs128 (det) - E;
            bool       overflow_risk = sumabs >= lim / 2;
            bool       ok = false, exactish = true;
            f128       best = 0; // max |a_ij| (exact)
            f128       best_tol = 0;
            for (int i = 0; i < KK && !ok; ++i)
                for (int j = 0; j < KK; ++j)
                {
                    f128 mn, ms;
                    minor_abs (a, KK, i, j, mn, ms);
                    if (ms >= lim / 2) overflow_risk = true;
                    f128 Eij = (KK == 2) ? (f128) 0 : 8 * eps * ms + 16 * den;
                    if (abs128 (mn) > best) best = abs128 (mn);
                    if (abs128 (mn) + Eij > best_tol) best_tol = abs128 (mn) + Eij;
                    if (Eij > abs128 (mn) / 2) exactish = false;
                }
            if (det == 0) ok = true; // exactly singular block: 1/0
            else if (best >= abs128 (det) * lim) { ok = true; c.cls ("guard_fired_exact_quotient>=max/4"); }
            if (!ok)
            {
                if (overflow_risk) c.cls ("tightness_skipped_intermediate_overflow");
                else if (floor <= 0 || E > abs128 (det) / 2 || !exactish) c.cls ("tightness_skipped_illconditioned");
                else if (best_tol >= floor * lim) { c.cls ("guard_fired_within_rounding_of_max/4"); c.worst ((std::string ("inverse.") + tag + ".deficit_over_allowance").c_str (), (double) ((abs128 (det) * lim - best) / (best_tol - best + E * lim)), idx); }
                else
                    c.fail (key (P::f_inverse (), tag, "guard_fired_early"), idx, [&] {
                        return Obj ().raw ("m", jarr_hex (&m[0][0], N * N)).raw ("m_value", jarr (&m[0][0], N * N)).kv ("exact_max_cofactor_over_det_over_max", to_d (best / abs128 (det) / (f128) tmax<T> ())).kv ("class", MCN[cls]).kv ("det_block", K).str ();
                    });
            }
        }
        else
        {
            c.cls ("threw_on_gauss_jordan_path");
            // (d) Gauss-Jordan fails on an exactly zero pivot only: impossible for a well-conditioned matrix
            bool wellcond = sumabs > 0 && abs128 (det) >= sumabs / 256;
            f128 amax = 0, amin = -1;
            for (int i = 0; i < N; ++i) for (int j = 0; j < N; ++j) { f128 v = abs128 (a[i][j]); if (v > amax) amax = v; if (v != 0 && (amin < 0 || v < amin)) amin = v; }
            if (wellcond && amax <= 1048576 && amin >= (f128) 1 / 1048576)
                c.fail (key (P::f_inverse (), tag, "threw_on_well_conditioned"), idx, [&] { return describe (g[0], u[0], kc[0]); });
        }
    }
    else if (cls == MC_BENIGN || cls == MC_BENIGN_AFFINE)
        c.cls ("well_conditioned_no_throw");
    if (cls == MC_THRESH_EXACT && uses_det)
    {
        // class bookkeeping: did this case sit exactly on the guard value?  (block = signed permutation of
        // powers of two; the threshold entry is the one with the smallest magnitude)
        T small = 0; bool first = true;
        for (int i = 0; i < K; ++i) for (int j = 0; j < K; ++j) if (m[i][j] != T (0)) { T v = m[i][j] < 0 ? -m[i][j] : m[i][j]; if (first || v < small) { small = v; first = false; } }
        if (small == tmin<T> ()) c.cls ("exactly_on_guard_value");
        else if (small < tmin<T> ()) c.cls ("just_beyond_guard_value");
        else c.cls ("just_inside_guard_value");
    }
    if (idx < (uint64_t) MC_N) c.sample (MCN[cls], [&] { return describe (g[0], u[0], kc[0]); });
}

#define C07_INV_SPACE                                                                                                                   \
    "12 matrix classes (idx mod 12): benign, affine, integer lattice, exactly singular (zero/duplicate/2^k-multiple row or column), "   \
    "|det| around 1, signed power-of-two permutation blocks exactly on / beside the guard value |cof|/|det| = 1/min, row/column "     \
    "scaled random blocks within 2^+-3 of it, tiny/subnormal entries, huge entries, zero/identity/-0, near-singular, any exponent; "    \
    "for N>2 half of the cases affine"

static void inv22f (Ctx& c, uint64_t i) { sub_inv<Matrix22<float>, DetPath<Matrix22<float>>, true> (c, i); }
static void inv22d (Ctx& c, uint64_t i) { sub_inv<Matrix22<double>, DetPath<Matrix22<double>>, true> (c, i); }
static void inv33f (Ctx& c, uint64_t i) { sub_inv<Matrix33<float>, DetPath<Matrix33<float>>, true> (c, i); }
static void inv33d (Ctx& c, uint64_t i) { sub_inv<Matrix33<double>, DetPath<Matrix33<double>>, true> (c, i); }
static void inv44f (Ctx& c, uint64_t i) { sub_inv<Matrix44<float>, DetPath<Matrix44<float>>, true> (c, i); }
static void inv44d (Ctx& c, uint64_t i) { sub_inv<Matrix44<double>, DetPath<Matrix44<double>>, true> (c, i); }
static void gj33f (Ctx& c, uint64_t i) { sub_inv<Matrix33<float>, GjPath<Matrix33<float>>, false> (c, i); }
static void gj33d (Ctx& c, uint64_t i) { sub_inv<Matrix33<double>, GjPath<Matrix33<double>>, false> (c, i); }
static void gj44f (Ctx& c, uint64_t i) { sub_inv<Matrix44<float>, GjPath<Matrix44<float>>, false> (c, i); }
static void gj44d (Ctx& c, uint64_t i) { sub_inv<Matrix44<double>, GjPath<Matrix44<double>>, false> (c, i); }

#define C07_DET_REQ22 .req ({"benign", "singular_exact", "det_near_1", "guard_threshold_exact", "guard_threshold_random", "tiny_entries", "checked_threw", "checked_returned", "well_conditioned_no_throw", "threw_on_determinant_path", "exactly_on_guard_value", "just_beyond_guard_value", "just_inside_guard_value", "guard_fired_exact_quotient>=max/4"})
#define C07_DET_REQ33 .req ({"benign", "benign_affine", "singular_exact", "det_near_1", "guard_threshold_exact", "guard_threshold_random", "tiny_entries", "checked_threw", "checked_returned", "well_conditioned_no_throw", "threw_on_determinant_path", "path_general_cofactor", "path_affine_cofactor", "exactly_on_guard_value", "just_beyond_guard_value", "just_inside_guard_value", "guard_fired_exact_quotient>=max/4"})
#define C07_DET_REQ44 .req ({"benign", "benign_affine", "singular_exact", "det_near_1", "guard_threshold_exact", "guard_threshold_random", "tiny_entries", "checked_threw", "checked_returned", "well_conditioned_no_throw", "threw_on_determinant_path", "threw_on_gauss_jordan_path", "path_gauss_jordan", "path_affine_cofactor", "exactly_on_guard_value", "just_beyond_guard_value", "just_inside_guard_value", "guard_fired_exact_quotient>=max/4"})
#define C07_GJ_REQ .req ({"benign", "singular_exact", "tiny_entries", "checked_threw", "checked_returned", "well_conditioned_no_throw", "threw_on_gauss_jordan_path"})

MON_SUB_IDX (inv22f, "inverse_M22f", 1200000, 48000000) C07_DET_REQ22.over ("Matrix22<float> inverse/invert (true) vs (false) vs (): " C07_INV_SPACE);
MON_SUB_IDX (inv22d, "inverse_M22d", 1200000, 48000000) C07_DET_REQ22.over ("Matrix22<double> inverse/invert (true) vs (false) vs (): " C07_INV_SPACE);
MON_SUB_IDX (inv33f, "inverse_M33f", 1200000, 36000000) C07_DET_REQ33.over ("Matrix33<float> inverse/invert (true) vs (false) vs (): " C07_INV_SPACE);
MON_SUB_IDX (inv33d, "inverse_M33d", 1200000, 36000000) C07_DET_REQ33.over ("Matrix33<double> inverse/invert (true) vs (false) vs (): " C07_INV_SPACE);
MON_SUB_IDX (inv44f, "inverse_M44f", 960000, 24000000) C07_DET_REQ44.over ("Matrix44<float> inverse/invert (true) vs (false) vs () (affine: cofactors; else Gauss-Jordan): " C07_INV_SPACE);
MON_SUB_IDX (inv44d, "inverse_M44d", 960000, 24000000) C07_DET_REQ44.over ("Matrix44<double> inverse/invert (true) vs (false) vs () (affine: cofactors; else Gauss-Jordan): " C07_INV_SPACE);
MON_SUB_IDX (gj33f, "gjInverse_M33f", 960000, 24000000) C07_GJ_REQ.over ("Matrix33<float> gjInverse/gjInvert (true) vs (false) vs (): " C07_INV_SPACE);
MON_SUB_IDX (gj33d, "gjInverse_M33d", 960000, 24000000) C07_GJ_REQ.over ("Matrix33<double> gjInverse/gjInvert (true) vs (false) vs (): " C07_INV_SPACE);
MON_SUB_IDX (gj44f, "gjInverse_M44f", 720000, 18000000) C07_GJ_REQ.over ("Matrix44<float> gjInverse/gjInvert (true) vs (false) vs (): " C07_INV_SPACE);
MON_SUB_IDX (gj44d, "gjInverse_M44d", 720000, 18000000) C07_GJ_REQ.over ("Matrix44<double> gjInverse/gjInvert (true) vs (false) vs (): " C07_INV_SPACE);
