// C11 - angleMod, simpleXYZRotation, nearestRotation, makeNear ("to single precision":
// angleMod returns float for every T, so everything here is judged with eps = 2^-23).
#include "c11_euler.h"

using namespace c11;

static const double EPS_F = 1.1920928955078125e-07;

// Calibrated bounds, in units of eps_float * max(pi, |arguments|).  Worst ratios on the unchanged tree
// (thorough tier, seed 1, 10^8 angleMod / 4.8*10^7 makeNear-family cases per type; recorded in the evidence on every run):
static const double C_ANGLEMOD = 8;  // congruence: 0.318 (double) / 0.467 (float: 2*pi rounded to float, times the number of periods)
static const double C_NEAR_ROT = 48; // rotation unchanged: 0.80 / 4.01; component congruence of simpleXYZRotation 0.318 / 1.42
static const double C_NEAR_ANG = 16; // |angle - target| - pi: 0.233 / 0.561

// ------------------------------------------------------------------ angleMod
template <class T>
static void
sub_angle_mod (Ctx& c, uint64_t idx)
{
    const std::string tn = tname<T>::s ();
    const double      pi = 3.14159265358979323846;
    Rng               r  = c.rng (idx);
    unsigned          slot = (unsigned) (idx % 16);
    double            a;
    const char*       cl;
    switch (slot)
    {
        case 0:
        case 1:
        case 2:
            a  = r.sym (pi);
            cl = "within_pm_pi";
            break;
        case 3:
        case 4:
        case 5:
            a  = r.sym (8 * pi);
            cl = "several_periods";
            break;
        case 6:
        case 7: {
            // odd multiples of pi and their neighbours (the +-pi fold)
            double d = r.one_in (3) ? 0.0 : std::pow (10.0, -(double) r.range (1, 15));
            a        = (double) (2 * r.range (-4, 3) + 1) * pi + (r.coin () ? d : -d);
            cl       = "near_odd_multiple_of_pi";
            break;
        }
        case 8: {
            // +-pi as T and a few representable neighbours
            T p = (T) (r.coin () ? pi : -pi);
            int n = (int) r.range (-4, 4);
            for (int k = 0; k < (n < 0 ? -n : n); ++k) p = std::nextafter (p, n < 0 ? (T) -10 : (T) 10);
            a  = (double) p;
            cl = "pi_plus_minus_ulps";
            break;
        }
        case 9: {
            // multiples of the library's own period T(2*T(M_PI)) and neighbours
            T tp = T (2 * static_cast<T> (M_PI));
            T p  = (T) ((double) tp * (double) r.range (-4, 4));
            int n = (int) r.range (-2, 2);
            for (int k = 0; k < (n < 0 ? -n : n); ++k) p = std::nextafter (p, n < 0 ? (T) -100 : (T) 100);
            a  = (double) p;
            cl = "multiple_of_two_pi_plus_minus_ulps";
            break;
        }
        case 10:
            a  = std::pow (10.0, -(double) r.range (1, 30)) * r.uniform (1.0, 10.0) * (r.coin () ? 1 : -1);
            cl = "tiny";
            break;
        case 11:
            a  = r.coin () ? 0.0 : -0.0;
            cl = "zero";
            break;
        case 12:
        case 13:
            a  = r.sym (2000 * pi);
            cl = "many_periods";
            break;
        default:
            a  = (double) r.range (-16, 16) * (pi / 2);
            cl = "quarter_turn_multiples";
            break;
    }
    T     arg = (T) a;
    float got = Euler<T>::angleMod (arg);
    c.eval ();
    c.cls (cl);
    c.nontrivial (hash_combine (sizeof (T), d2u ((double) arg)));
    auto desc = [&] { return Obj ().kv ("class", cl).kv ("angle", (double) arg).kv ("angle_bits", hex64 (d2u ((double) arg))).kv ("angleMod", (double) got).kv ("pi_as_float", (double) (float) M_PI).str (); };
    // in [-pi, pi] at single precision: no float beyond the float nearest to pi
    if (!(std::fabs (got) <= (float) M_PI)) c.fail ("angleMod." + tn + ":outside_pm_pi", idx, desc);
    // congruent to the argument modulo 2 pi, to single precision relative to max(pi,|angle|)
    LD     scale = std::max ((LD) pi, fabsl ((LD) arg));
    double d     = (double) (angle_diff_mod_2pi ((LD) got, (LD) arg) / (EPS_F * scale));
    c.worst (("angleMod." + tn + ".congruence_epsf").c_str (), d, idx, desc);
    if (!(d <= C_ANGLEMOD)) c.fail ("angleMod." + tn + ":not_congruent_mod_2pi", idx, desc);
    if ((idx & 0xffff) < 16) c.sample (cl, desc);
    if (c.verbose) std::fprintf (stderr, "[replay] %s\n", desc ().c_str ());
}
static const std::vector<std::string> REQ_ANGLEMOD = {"within_pm_pi", "several_periods", "near_odd_multiple_of_pi", "pi_plus_minus_ulps", "multiple_of_two_pi_plus_minus_ulps", "tiny", "zero", "many_periods", "quarter_turn_multiples"};
MON_SUB_IDX (sub_angle_mod<double>, "angle_mod_double", 8000000, 100000000).req (REQ_ANGLEMOD).over ("Euler<double>::angleMod on angles in [-pi,pi], +-4 periods, +-1000 periods, odd multiples of pi +- 1e-k, +-pi +- 4 ulps, multiples of 2pi +- ulps, tiny, +-0");
MON_SUB_IDX (sub_angle_mod<float>, "angle_mod_float", 8000000, 100000000).req (REQ_ANGLEMOD).over ("same for Euler<float>::angleMod");

// ------------------------------------------------------------------ simpleXYZRotation / nearestRotation / makeNear
// Six non-repeated static orders.  "xyz" vectors hold the angle about X in .x etc.; the represented
// rotation of an xyz vector under order "ABC" is E(A, xyz[A]) * E(B, xyz[B]) * E(C, xyz[C]).
static M3
rot_of_xyz (const OrderInfo& o, const LD xyz[3])
{
    LD ijk[3] = {xyz[o.ax[0]], xyz[o.ax[1]], xyz[o.ax[2]]};
    return ref_rotation (o, ijk);
}

template <class T>
static const char*
gen_pair (Rng& r, unsigned slot, T x[3], T t[3])
{
    const double pi = 3.14159265358979323846;
    const char*  cl;
    double       a[3], b[3];
    switch (slot % 8)
    {
        case 0:
        case 1:
            for (int i = 0; i < 3; ++i) { a[i] = r.sym (pi); b[i] = r.sym (pi); }
            cl = "both_within_pm_pi";
            break;
        case 2:
        case 3:
            for (int i = 0; i < 3; ++i) { a[i] = r.sym (8 * pi); b[i] = r.sym (8 * pi); }
            cl = "several_periods_apart";
            break;
        case 4:
            // difference at / next to an odd multiple of pi (angleMod fold), per component
            for (int i = 0; i < 3; ++i)
            {
                b[i]     = r.sym (2 * pi);
                double d = r.one_in (3) ? 0.0 : std::pow (10.0, -(double) r.range (1, 15));
                a[i]     = b[i] + (double) (2 * r.range (-2, 1) + 1) * pi + (r.coin () ? d : -d);
            }
            cl = "difference_near_odd_multiple_of_pi";
            break;
        case 5:
            // target = the same rotation written the "other" way: (pi+x, pi-y, pi+z) plus periods
            for (int i = 0; i < 3; ++i) a[i] = r.sym (pi);
            for (int i = 0; i < 3; ++i) b[i] = pi + a[i] + (double) r.range (-2, 2) * 2 * pi + r.sym (0.3);
            cl = "target_near_flipped_solution";
            break;
        case 6:
            // middle angle near gimbal lock, target close by
            for (int i = 0; i < 3; ++i) { a[i] = r.sym (pi); b[i] = a[i] + r.sym (0.5) + (double) r.range (-2, 2) * 2 * pi; }
            cl = "target_close_plus_periods";
            break;
        default:
            for (int i = 0; i < 3; ++i) { a[i] = (double) r.range (-8, 8) * (pi / 2); b[i] = (double) r.range (-8, 8) * (pi / 2); }
            cl = "quarter_turn_multiples";
            break;
    }
    for (int i = 0; i < 3; ++i) { x[i] = (T) a[i]; t[i] = (T) b[i]; }
    return cl;
}

template <class T>
static void
sub_near (Ctx& c, uint64_t idx)
{
    typedef Euler<T>          E;
    typedef typename E::Order Ord;
    const std::string         tn = tname<T>::s ();
    Rng                       r  = c.rng (idx);
    const OrderInfo&          o  = orders ()[STATIC_NONREP[idx % 6]];
    const Ord                 ord = (Ord) o.value;
    unsigned                  fn  = (unsigned) ((idx / 6) % 4); // 0 simpleXYZRotation, 1 nearestRotation, 2 makeNear same order, 3 makeNear other order
    unsigned                  slot = (unsigned) ((idx / 24) % 8);
    T                         x[3], t[3];
    const char*               cl = gen_pair<T> (r, slot, x, t);
    static const char*        fnames[4] = {"simpleXYZRotation", "nearestRotation", "makeNear", "makeNear"};
    const char*               fname = fnames[fn];
    c.eval ();
    c.cls (std::string ("fn_") + fname);
    c.cls (cl);
    c.cls (std::string ("order_") + o.name);
    c.nontrivial (hash3<T> (hash3<T> ((uint64_t) o.value * 8 + fn * 2 + sizeof (T) / 8, x[0], x[1], x[2]), t[0], t[1], t[2]));

    Vec3<T> xyz (x[0], x[1], x[2]), target (t[0], t[1], t[2]); // XYZ layout
    Vec3<T> before = xyz, after, target_used = target;
    std::string extra;
    if (fn == 0)
    {
        after = xyz;
        E::simpleXYZRotation (after, target);
    }
    else if (fn == 1)
    {
        after = xyz;
        E::nearestRotation (after, target, ord);
    }
    else
    {
        E e (xyz, ord, E::XYZLayout);
        if (fn == 2)
        {
            E tg (target, ord, E::XYZLayout);
            e.makeNear (tg);
            c.cls ("makeNear_same_order_target");
        }
        else
        {
            // a target of a different (any of the 24) order: makeNear first re-expresses it in e's order
            const OrderInfo& o2 = orders ()[(size_t) r.range (0, 23)];
            E                tg (target, (Ord) o2.value, E::IJKLayout);
            // (a target that already has e's order is used as it is, not re-extracted)
            target_used = o2.value == o.value ? tg.toXYZVector () : E (tg, ord).toXYZVector ();
            e.makeNear (tg);
            extra = o2.name;
            c.cls (o2.value == o.value ? "makeNear_same_order_target" : "makeNear_other_order_target");
        }
        after = e.toXYZVector ();
        if (e.order () != ord) c.fail ("makeNear." + tn + ":order_changed", idx, [&] { return Obj ().kv ("order", o.name).str (); });
    }

    LD lb[3], la[3], scale = PI_LD;
    for (int i = 0; i < 3; ++i)
    {
        lb[i] = (LD) before[i];
        la[i] = (LD) after[i];
        scale = std::max (scale, std::max (fabsl (lb[i]), std::max (fabsl ((LD) target_used[i]), fabsl (lb[i] - (LD) target_used[i]))));
    }
    M3   Rb = rot_of_xyz (o, lb), Ra = rot_of_xyz (o, la);
    auto desc = [&] { return Obj ().kv ("function", fname).kv ("order", o.name).kv ("class", cl).kv ("target_order", extra).raw ("xyz_before", v3_str (before)).raw ("target_xyz", v3_str (target_used)).raw ("xyz_after", v3_str (after)).raw ("rotation_before", m3_str (Rb)).raw ("rotation_after", m3_str (Ra)).str (); };
    // (1) represented rotation unchanged, to single precision
    double d = (double) (m3_maxdiff (Rb, Ra) / (EPS_F * scale));
    c.worst ((std::string (fname) + "." + tn + ".rotation_change_epsf").c_str (), d, idx, desc);
    if (!(d <= C_NEAR_ROT)) c.fail (std::string (fname) + "." + tn + ":rotation_changed", idx, desc);
    // (2) every angle within pi of the target, to single precision
    double w = 0;
    for (int i = 0; i < 3; ++i)
    {
        LD     over = fabsl (la[i] - (LD) target_used[i]) - PI_LD;
        double e    = (double) (over / (EPS_F * scale));
        if (!(e <= w)) w = e;
    }
    c.worst ((std::string (fname) + "." + tn + ".excess_over_pi_epsf").c_str (), w, idx, desc);
    if (!(w <= C_NEAR_ANG)) c.fail (std::string (fname) + "." + tn + ":angle_farther_than_pi_from_target", idx, desc);
    // simpleXYZRotation only shifts by whole periods: each component congruent to its old value
    if (fn == 0)
    {
        double m = 0;
        for (int i = 0; i < 3; ++i)
        {
            double e = (double) (angle_diff_mod_2pi (la[i], lb[i]) / (EPS_F * scale));
            if (!(e <= m)) m = e;
        }
        c.worst (("simpleXYZRotation." + tn + ".component_congruence_epsf").c_str (), m, idx, desc);
        if (!(m <= C_NEAR_ROT)) c.fail ("simpleXYZRotation." + tn + ":component_not_congruent_mod_2pi", idx, desc);
    }
    // nearestRotation/makeNear: which of the two solutions was taken
    if (fn >= 1)
    {
        LD dsame = 0;
        for (int i = 0; i < 3; ++i) dsame = std::max (dsame, angle_diff_mod_2pi (la[i], lb[i]));
        c.cls (dsame < 1e-3L ? "kept_solution" : "took_flipped_solution");
    }
    if ((idx & 0xffff) < 192) c.sample ((std::string (fname) + "_" + cl).c_str (), desc);
    if (c.verbose) std::fprintf (stderr, "[replay] %s\n", desc ().c_str ());
}
static const std::vector<std::string> REQ_NEAR = concat (
    order_class_names (true),
    {"fn_simpleXYZRotation", "fn_nearestRotation", "fn_makeNear", "makeNear_same_order_target", "makeNear_other_order_target", "both_within_pm_pi", "several_periods_apart", "difference_near_odd_multiple_of_pi", "target_near_flipped_solution", "target_close_plus_periods", "quarter_turn_multiples", "kept_solution", "took_flipped_solution"});
MON_SUB_IDX (sub_near<double>, "make_near_double", 6 * 4 * 8 * 20000, 6 * 4 * 8 * 250000)
    .req (REQ_NEAR)
    .over ("6 non-repeated static orders x {simpleXYZRotation, nearestRotation, makeNear(same order), makeNear(target of any order)} x 8 (angles, target) classes over +-4 periods incl. differences at odd multiples of pi +- 1e-k and targets next to the flipped solution");
MON_SUB_IDX (sub_near<float>, "make_near_float", 6 * 4 * 8 * 20000, 6 * 4 * 8 * 250000).req (REQ_NEAR).over ("same for Euler<float>");
