// Hardware oracle for C01: x86 F16C conversions.  This translation unit is
// compiled with -mf16c and deliberately does NOT include half.h, so the code
// under test (compiled without -mf16c elsewhere) cannot pick up its own F16C
// branch through it.
#include <immintrin.h>
#include <stdint.h>

extern "C" uint16_t
c01_hw_f2h (float f)
{
    return _cvtss_sh (f, (_MM_FROUND_TO_NEAREST_INT | _MM_FROUND_NO_EXC));
}

extern "C" float
c01_hw_h2f (uint16_t h)
{
    return _cvtsh_ss (h);
}

// n must be a multiple of 8
extern "C" void
c01_hw_f2h_block (const float* in, uint16_t* out, unsigned n)
{
    for (unsigned i = 0; i < n; i += 8)
    {
        __m256  v = _mm256_loadu_ps (in + i);
        __m128i h = _mm256_cvtps_ph (v, (_MM_FROUND_TO_NEAREST_INT | _MM_FROUND_NO_EXC));
        _mm_storeu_si128 ((__m128i*) (out + i), h);
    }
}
