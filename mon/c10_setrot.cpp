// C10 (part 2) - Quat::setRotation(from,to) / rotationMatrix(from,to):
// "a unit rotation carrying the direction of from onto the direction of to for every pair of
//  non-zero vectors, including exactly and nearly opposite ones".
//
// from = direction (6 classes) x length e^-5..e^5; to = direction at angle alpha from it in a random
// plane x length e^-5..e^5, alpha from 7 classes: uniform in [0,pi], 1e-k, pi/2 +- 1e-k (the
// >90 degree split), pi - 1e-k for every k = 1..15, exactly pi (to = -from * 2^j), opposite up to
// rounding (to = -from * s), parallel (exactly / up to rounding).
//
// Oracle: the directions from/|from|, to/|to| are formed from the actual float/double inputs in
// the reference precision; the returned quaternion (normalised in the reference precision) is
// applied as q p q* in the reference precision.  Judged: | |q| - 1 | <= C eps, |q f q* - t|_2 <= C eps;
// for the matrix: |M M^T - I|_max <= C eps, det > 0, |f M - t|_2 <= C eps, affine border exact.
#include "c10_common.h"

using namespace c10;

namespace tol
{
// Calibrated on the unchanged tree (thorough tier, seed 1: 4e7 float / 2e7 double pairs), over all paths except
// path_two_step_halfway_vector_is_rounding_noise (reported defect, see the property's report); with the proposed
// fix that path shows the same figures.  worst = float / double; every constant is >= 8x the worst.
static const double unit    = 32;  // | |q| - 1 | <= C eps                      worst 3.56 / 3.52
static const double maps    = 64;  // |q f q* - t|_2 <= C eps                   worst 4.83 / 4.61
static const double rotmaps = 128; // |f M - t|_2 <= C eps                      worst 13.8 / 13.5 (M built from q with |q| = 1 + 3.5 eps)
static const double ortho   = 256; // |M M^T - I|_max <= C eps                  worst 27.0 / 27.6
} // namespace tol

template <class T> static inline double E () { return eps_of<T>::value; }

enum
{
    NDIR = 6,
    NALPHA = 7
};
static const char* const kDirClass[NDIR]     = {"from_generic", "from_axis_aligned", "from_equal_magnitude_components", "from_tiny_component", "from_ordered_components", "from_integer_lattice"};
static const char* const kAlphaClass[NALPHA] = {"angle_uniform_0_pi", "angle_1e-k", "angle_half_pi_pm_1e-k", "angle_pi_minus_1e-k", "angle_exactly_pi", "angle_pi_up_to_rounding", "angle_zero"};

// direction of `from` (not normalised: integer-valued for the symmetric / lattice classes so that
// equal components stay exactly equal after scaling and rounding)
static void
gen_dir (Rng& r, unsigned cls, long double d[3])
{
    switch (cls % NDIR)
    {
        case 0: unit3 (r, d); break;
        case 1: {
            int ax = (int) r.range (0, 2);
            for (int i = 0; i < 3; ++i) d[i] = i == ax ? (r.coin () ? 1.0L : -1.0L) : 0.0L;
            break;
        }
        case 2: { // (+-1,+-1,0) and permutations, (+-1,+-1,+-1)
            int z = (int) r.range (0, 3);
            for (int i = 0; i < 3; ++i) d[i] = i == z ? 0.0L : (r.coin () ? 1.0L : -1.0L);
            break;
        }
        case 3: { // one or two components 1e-k of the largest
            unit3 (r, d);
            int i = (int) r.range (0, 2);
            d[i] *= p10 ((int) r.range (3, 25));
            if (r.coin ()) d[(i + 1) % 3] *= p10 ((int) r.range (3, 25));
            break;
        }
        case 4: { // smallest |component| at a chosen index: the three arms of the antipodal fall-back
            unit3 (r, d);
            int want = (int) r.range (0, 2), m = 0;
            for (int i = 1; i < 3; ++i)
                if (::fabsl (d[i]) < ::fabsl (d[m])) m = i;
            std::swap (d[m], d[want]);
            break;
        }
        default:
            do
                for (int i = 0; i < 3; ++i) d[i] = (long double) r.range (-8, 8);
            while (d[0] == 0 && d[1] == 0 && d[2] == 0);
            break;
    }
}

template <class T>
static void
sub_setrot (Ctx& c, uint64_t idx)
{
    typedef typename HPOf<T>::type H;
    const long double PI = 3.141592653589793238462643383279502884L;
    Rng      r  = c.rng (idx);
    unsigned ac = (unsigned) (idx % NALPHA), dc = (unsigned) ((idx / NALPHA) % NDIR);
    int      k  = (int) ((idx / (NALPHA * NDIR)) % 15) + 1; // exponent of the 1e-k classes: every k = 1..15 deterministically
    long double d[3], p[3];
    gen_dir (r, dc, d);
    long double L1 = ::expl ((long double) r.uniform (-5.0, 5.0)), L2 = ::expl ((long double) r.uniform (-5.0, 5.0));
    if (r.one_in (4)) L1 = ::ldexpl (1.0L, (int) r.range (-7, 7));
    Vec3<T> from ((T) (d[0] * L1), (T) (d[1] * L1), (T) (d[2] * L1));
    Vec3<T> to;
    char    kcls[40] = "";
    if (ac <= 3)
    {
        long double dn = ::sqrtl (d[0] * d[0] + d[1] * d[1] + d[2] * d[2]);
        perpN<3> (r, d, p);
        long double ca, sa, m = (long double) r.uniform (1.0, 10.0); // mantissa in [1,10)
        if (r.one_in (3)) m = 1;
        long double delta = m * p10 (k);
        switch (ac)
        {
            case 0: { long double a = (long double) r.uniform (0.0, 1.0) * PI; ca = ::cosl (a); sa = ::sinl (a); break; }
            case 1: ca = ::cosl (delta); sa = ::sinl (delta); std::snprintf (kcls, sizeof kcls, "angle_1e-%02d", k); break;
            case 2: // pi/2 +- delta: cos = -+ sin(delta)
                ca = (r.coin () ? -1 : 1) * ::sinl (delta); sa = ::cosl (delta);
                if (k == 15 && r.coin ()) { ca = 0; sa = 1; }
                std::snprintf (kcls, sizeof kcls, "angle_half_pi_pm_1e-%02d", k);
                break;
            default: ca = -::cosl (delta); sa = ::sinl (delta); std::snprintf (kcls, sizeof kcls, "angle_pi_minus_1e-%02d", k); break;
        }
        for (int i = 0; i < 3; ++i) to[i] = (T) ((ca * d[i] / dn + sa * p[i]) * L2);
    }
    else if (ac == 4) // exactly opposite: scaling by a power of two commutes with normalisation
    {
        T s = (T) ::ldexpl (1.0L, (int) r.range (-7, 7));
        to  = -from * s;
    }
    else if (ac == 5) // opposite up to the rounding of the scaling and of the two normalisations
    {
        T s = (T) L2;
        to  = -from * s;
    }
    else // same direction: exactly, or up to rounding
    {
        T s = r.coin () ? (T) ::ldexpl (1.0L, (int) r.range (-7, 7)) : (T) L2;
        to  = from * s;
    }
    c.eval ();
    c.cls (kAlphaClass[ac]);
    c.cls (kDirClass[dc]);
    if (kcls[0]) c.cls (kcls);
    c.nontrivial (hash_combine (vhash (from), vhash (to)));

    H fh[3] = {(H) from.x, (H) from.y, (H) from.z}, th[3] = {(H) to.x, (H) to.y, (H) to.z};
    H fn = norm3 (fh), tn = norm3 (th);
    if (!(fn > 0) || !(tn > 0)) { c.cls ("skipped_zero_vector"); return; } // cannot happen with these generators
    for (int i = 0; i < 3; ++i) { fh[i] /= fn; th[i] /= tn; }
    H cosang = 0;
    for (int i = 0; i < 3; ++i) cosang += fh[i] * th[i];

    // Which path of the implementation this pair takes (classification only, from the library's own
    // normalisation).  The failing class of a key is this path, so that a finding is tied to the code path
    // and not to the way the pair was generated.
    const char* path;
    {
        Vec3<T> f0 = from.normalized (), t0 = to.normalized ();
        if ((f0 ^ t0) >= 0) path = "path_direct";
        else
        {
            Vec3<T> h = f0 + t0;
            if ((h ^ h) == 0)
            {
                Vec3<T> f2 = f0 * f0;
                path = f2.x <= f2.y && f2.x <= f2.z ? "path_antipodal_fallback_x" : f2.y <= f2.z ? "path_antipodal_fallback_y" : "path_antipodal_fallback_z";
            }
            // |f0 + t0| < 32 eps but not zero: the pair is opposite up to the rounding of the two normalisations,
            // the "halfway vector" consists of rounding errors only and may point anywhere, also along +-f0
            else if ((double) (h ^ h) < 1024 * E<T> () * E<T> ()) path = "path_two_step_halfway_vector_is_rounding_noise";
            else path = "path_two_step";
        }
    }
    c.cls (path);
    const bool noise = std::strcmp (path, "path_two_step_halfway_vector_is_rounding_noise") == 0;
    // worst ratios of that path are recorded separately, so that the figures of the other paths stay readable
    auto J = [&] (const char* fn, double ratio, double C, auto&& describe) {
        std::string w = std::string (fn) + "." + tname<T> ();
        c.worst ((noise ? w + "/halfway_vector_is_rounding_noise" : w).c_str (), ratio, idx, describe);
        if (!(ratio <= C)) c.fail (w + ":" + path, idx, describe);
    };

    Quat<T> q;
    q.setRotation (from, to);
    Q4<H>  qh = toH (q);
    H      qn = hnorm (qh);
    double un = (double) hp::fabs (qn - 1) / E<T> ();
    auto   desc = [&] {
        return Obj ().raw ("from", vjson (from)).raw ("to", vjson (to)).kv ("cos_angle", (double) cosang).kv ("pi_minus_angle", (double) hp::atan2 (hp::sqrt (hp::fabs (1 - cosang * cosang)), -cosang)).raw ("setRotation", qjson (q)).kv ("|q|-1", (double) (qn - 1)).str ();
    };
    J ("setRotation.unit", un, tol::unit, desc);
    H img[3] = {0, 0, 0};
    double mp;
    if (qn > 0)
    {
        hrot (hunit (qh), fh, img);
        H e2 = 0;
        for (int i = 0; i < 3; ++i) { H x = img[i] - th[i]; e2 += x * x; }
        mp = (double) hp::sqrt (e2) / E<T> ();
    }
    else mp = INFINITY;
    J ("setRotation.maps", mp, tol::maps, [&] {
        double w[3] = {(double) th[0], (double) th[1], (double) th[2]}, g[3] = {(double) img[0], (double) img[1], (double) img[2]};
        return Obj ().raw ("from", vjson (from)).raw ("to", vjson (to)).raw ("setRotation", qjson (q)).arr ("rotated_from_direction", g, 3).arr ("to_direction", w, 3).kv ("err_over_eps", mp).str ();
    });

    // rotationMatrix(from, to)
    Matrix44<T> M = rotationMatrix (from, to);
    bool        border = true;
    for (int i = 0; i < 4; ++i) border = border && M[i][3] == (i == 3 ? T (1) : T (0)) && M[3][i] == (i == 3 ? T (1) : T (0));
    if (!border) c.fail (std::string ("rotationMatrix.") + tname<T> () + ":affine_border", idx, desc);
    H      Mh[3][3], orth = 0;
    bool   nan = false;
    for (int i = 0; i < 3; ++i)
        for (int j = 0; j < 3; ++j) { Mh[i][j] = (H) M[i][j]; nan = nan || std::isnan ((double) M[i][j]); }
    for (int i = 0; i < 3; ++i)
        for (int j = 0; j < 3; ++j)
        {
            H s = 0;
            for (int l = 0; l < 3; ++l) s += Mh[i][l] * Mh[j][l];
            orth = std::max (orth, hp::fabs (s - (i == j ? 1 : 0)));
        }
    H det = 0;
    for (int i = 0; i < 3; ++i) det += Mh[0][i] * (Mh[1][(i + 1) % 3] * Mh[2][(i + 2) % 3] - Mh[1][(i + 2) % 3] * Mh[2][(i + 1) % 3]);
    H e2 = 0;
    H im[3];
    for (int j = 0; j < 3; ++j)
    {
        im[j] = 0;
        for (int i = 0; i < 3; ++i) im[j] += fh[i] * Mh[i][j]; // row vector times matrix
        H x = im[j] - th[j];
        e2 += x * x;
    }
    auto descm = [&] {
        double w[3] = {(double) th[0], (double) th[1], (double) th[2]}, g[3] = {(double) im[0], (double) im[1], (double) im[2]};
        return Obj ().raw ("from", vjson (from)).raw ("to", vjson (to)).arr ("from_direction_times_M", g, 3).arr ("to_direction", w, 3).kv ("max|M M^T - I|", (double) orth).kv ("det", (double) det).str ();
    };
    J ("rotationMatrix.orthonormal", nan ? NAN : (double) orth / E<T> (), tol::ortho, descm);
    J ("rotationMatrix.maps", nan ? NAN : (double) hp::sqrt (e2) / E<T> (), tol::rotmaps, descm);
    if (!(det > 0)) c.fail (std::string ("rotationMatrix.") + tname<T> () + ":determinant_not_positive", idx, descm);
    if (idx % 1039 == 0) c.sample (kAlphaClass[ac], desc);
}

static std::vector<std::string>
setrot_req ()
{
    std::vector<std::string> v (kAlphaClass, kAlphaClass + NALPHA);
    v.insert (v.end (), kDirClass, kDirClass + NDIR);
    for (int k = 1; k <= 15; ++k)
    {
        char b[40];
        std::snprintf (b, sizeof b, "angle_pi_minus_1e-%02d", k);
        v.push_back (b);
        std::snprintf (b, sizeof b, "angle_1e-%02d", k);
        v.push_back (b);
    }
    for (auto s: {"path_direct", "path_two_step", "path_antipodal_fallback_x", "path_antipodal_fallback_y", "path_antipodal_fallback_z", "path_two_step_halfway_vector_is_rounding_noise"}) v.push_back (s);
    return v;
}
#define SR_SPACE "from: 6 direction classes (generic, coordinate axes, equal-magnitude components, tiny components 1e-3..1e-25, ordered components, integer lattice) x length e^-5..e^5 (or 2^-7..2^7); to: at angle uniform in [0,pi] | 1e-k | pi/2 +- 1e-k | pi - 1e-k (every k = 1..15, mantissa 1 or in [1,10)) | exactly pi | pi up to rounding | 0, in a random plane, length e^-5..e^5"
MON_SUB_IDX (sub_setrot<float>, "set_rotation.float", 2000000, 40000000).req (setrot_req ()).over (SR_SPACE);
MON_SUB_IDX (sub_setrot<double>, "set_rotation.double", 1000000, 20000000).req (setrot_req ()).over (SR_SPACE);
