// C04 - accessor/layout battery (c04_layout.h) for Vec2/3/4 x {short,int,int64_t,half,float,double}
#include "c04_layout.h"

using namespace IMATH_INTERNAL_NAMESPACE;
typedef unsigned char uchar;

C04_REG_LAYOUT (Vec2<short>, "Vec2_short");
C04_REG_LAYOUT (Vec2<int>, "Vec2_int");
C04_REG_LAYOUT (Vec2<int64_t>, "Vec2_int64");
C04_REG_LAYOUT (Vec2<half>, "Vec2_half");
C04_REG_LAYOUT (Vec2<float>, "Vec2_float");
C04_REG_LAYOUT (Vec2<double>, "Vec2_double");
C04_REG_LAYOUT (Vec3<short>, "Vec3_short");
C04_REG_LAYOUT (Vec3<int>, "Vec3_int");
C04_REG_LAYOUT (Vec3<int64_t>, "Vec3_int64");
C04_REG_LAYOUT (Vec3<half>, "Vec3_half");
C04_REG_LAYOUT (Vec3<float>, "Vec3_float");
C04_REG_LAYOUT (Vec3<double>, "Vec3_double");
C04_REG_LAYOUT (Vec4<short>, "Vec4_short");
C04_REG_LAYOUT (Vec4<int>, "Vec4_int");
C04_REG_LAYOUT (Vec4<int64_t>, "Vec4_int64");
C04_REG_LAYOUT (Vec4<half>, "Vec4_half");
C04_REG_LAYOUT (Vec4<float>, "Vec4_float");
C04_REG_LAYOUT (Vec4<double>, "Vec4_double");
