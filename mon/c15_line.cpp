// C15 (part 1) - Line3: closestPointTo / distanceTo (point and line forms),
// closestPoints (ImathLineAlgo.h).
//
// Oracle: the stored members (pos, dir) of the Line3 objects are converted
// exactly to long double (float) / __float128 (double); feet, closest pair and
// distances are recomputed there from the normal equations with the true
// (not assumed unit) |dir|^2.  Tolerances are formulas in eps * magnitudes and,
// for the line-line forms, 1/sin^2 of the angle between the lines.
//
// Line pairs: judged for sin >= 1e-3; below that only finiteness and "points
// lie on their lines".  Exactly parallel pairs (bit-identical / negated stored
// directions): distanceTo must be the point-line distance; closestPoints must
// return false ("reported") or, if it returns true, a genuinely closest pair
// ("handled") - key closestPoints.<T>:parallel_lines_true_but_not_closest.
//
// Calibration (thorough tier, pristine tree, 4e7 / 7.2e7 cases per sub-check):
// worst ratios 0.86..3.6 (line/point), 0.8..3.1 (line/line), bounds 16..32.
#include "c15_common.h"

using namespace c15;

namespace
{
// calibrated bounds (worst ratios observed on the pristine tree are quoted in lib/props.d/c15.py)
const double B_LP_ON = 16, B_LP_PERP = 32, B_LP_DIST = 32, B_LP_LEN = 16;
const double B_LL_ON = 16, B_LL_POS = 32, B_LL_PERP = 32, B_LL_LEN = 32, B_LL_DIST = 16, B_LL_PAR = 32;

template <class T>
void
sub_line_point (Ctx& c, uint64_t idx)
{
    typedef typename Tr<T>::R R;
    const std::string         tn  = Tr<T>::name ();
    const double              eps = eps_of<T>::value;
    Rng                       r   = c.rng (idx);
    unsigned                  k   = (unsigned) (idx % 10);
    const char*               cls = "generic";
    D3                        p0 = gen_point (r, 0), d = gen_dir (r, 0), q = gen_point (r, 0);
    double                    ln = std::ldexp (1.0 + r.uniform (), (int) r.range (-3, 4));
    double                    sc = 1.0;
    switch (k)
    {
        case 0: break;
        case 1: cls = "lattice"; p0 = gen_point (r, 1); d = gen_dir (r, 2); q = gen_point (r, 1); ln = 1; break;
        case 2: cls = "axis_aligned"; p0 = gen_point (r, 1); d = gen_dir (r, 1); break;
        case 3: cls = "point_on_line"; break;
        case 4: cls = "point_near_line"; break;
        case 5: cls = "far_along"; break;
        case 6: cls = "large_offset"; p0 = gen_point (r, 2); q = axpy (p0, 1.0, gen_point (r, 0)); break;
        case 7: cls = "point_is_pos"; q = p0; break;
        case 8: cls = "scale_tiny"; sc = std::ldexp (1.0, -20); break;
        case 9: cls = "scale_huge"; sc = std::ldexp (1.0, 20); d = gen_dir (r, 3); break;
    }
    Vec3<T> P0 = tov<T> (scl (p0, sc));
    Vec3<T> P1 = tov<T> (scl (axpy (p0, ln, d), sc));
    if (P0 == P1) { c.cls ("skipped_degenerate_line"); return; }
    Line3<T> l (P0, P1);
    Vec3<T>  Q = tov<T> (scl (q, sc));
    if (k == 3 || k == 4 || k == 5)
    {
        T t = (T) (k == 5 ? std::ldexp (1.0 + r.uniform (), (int) r.range (8, 14)) * (r.coin () ? 1 : -1) : r.logscale (-3, 6));
        Q   = l (t);
        if (k != 3)
        {
            D3     e = gen_perp (r, D3{{(double) l.dir.x, (double) l.dir.y, (double) l.dir.z}});
            double h = std::pow (10.0, -(double) r.range (0, 7));
            Q += tov<T> (scl (e, h));
        }
    }
    c.eval ();
    c.cls (cls);
    c.nontrivial (hashv (Q, hashv (l.dir, hashv (l.pos))));

    Vec3<T> f  = l.closestPointTo (Q);
    T       dg = l.distanceTo (Q);

    RV<R, 3> P = up<R> (l.pos), u = up<R> (l.dir), X = up<R> (Q), F = up<R> (f);
    R        uu = dot (u, u);
    R        ts = dot (X - P, u) / uu;
    RV<R, 3> Fs = P + u * ts;
    R        Ds = len (X - Fs);
    double   M  = (double) (len (P) + len (X));
    double   tol = eps * M;
    auto     desc = [&] { return Obj ().kv ("class", cls).raw ("line", jsl (l)).raw ("point", js (Q)).raw ("closest", js (f)).kv ("distanceTo", (double) dg).kv ("true_distance", (double) Ds).raw ("true_foot", js (Vec3<double> ((double) Fs[0], (double) Fs[1], (double) Fs[2]))).str (); };

    if (!all_finite (f) || !std::isfinite (dg))
    {
        c.fail ("closestPointTo(Vec3)." + tn + ":nonfinite", idx, desc);
        return;
    }
    judge (c, "closestPointTo(Vec3)." + tn + ":on_line", "closestPointTo(Vec3)." + tn + ".on_line/(eps*M)", (double) dist_point_line (F, P, u), tol, B_LP_ON, idx, desc);
    judge (c, "closestPointTo(Vec3)." + tn + ":perpendicular", "closestPointTo(Vec3)." + tn + ".perp/(eps*M)", (double) (r_abs (dot (X - F, u)) / r_sqrt (uu)), tol, B_LP_PERP, idx, desc);
    judge (c, "distanceTo(Vec3)." + tn + ":value", "distanceTo(Vec3)." + tn + ".err/(eps*M)", (double) r_abs ((R) dg - Ds), tol, B_LP_DIST, idx, desc);
    judge (c, "distanceTo(Vec3)." + tn + ":segment_length", "distanceTo(Vec3)." + tn + ".seglen/(eps*M)", (double) r_abs ((R) dg - len (X - F)), tol, B_LP_LEN, idx, desc);
    c.sample (cls, desc);
}

// ------------------------------------------------------------------ line / line
template <class T>
void
sub_line_line (Ctx& c, uint64_t idx)
{
    typedef typename Tr<T>::R R;
    const std::string         tn  = Tr<T>::name ();
    const double              eps = eps_of<T>::value;
    Rng                       r   = c.rng (idx);
    unsigned                  k   = (unsigned) (idx % 18);
    const char*               gcls = "skew";
    // first line
    int      pk = (k == 1 || k == 3 || k == 4 || k == 17) ? 1 : (r.one_in (5) ? 2 : (r.one_in (6) ? 3 : 0));
    D3       p0 = gen_point (r, pk);
    D3       d1 = gen_dir (r, (k == 1 || k == 3 || k == 17) ? 2 : (k == 4 ? 1 : 0));
    double   ln1 = (k == 1 || k == 3 || k == 4 || k == 17) ? 1.0 : std::ldexp (1.0 + r.uniform (), (int) r.range (-2, 3));
    Vec3<T>  A0 = tov<T> (p0), A1 = tov<T> (axpy (p0, ln1, d1));
    if (A0 == A1) { c.cls ("skipped_degenerate_line"); return; }
    Line3<T> l1 (A0, A1), l2;
    static const double sins[] = {0.3, 0.1, 0.03, 0.01, 3e-3, 1.2e-3, 3e-4, 1e-5, 1e-7};
    switch (k)
    {
        case 0: // generic skew
        {
            D3 q0 = gen_point (r, r.one_in (4) ? 2 : 0), d2 = gen_dir (r, 0);
            l2    = Line3<T> (tov<T> (q0), tov<T> (axpy (q0, std::ldexp (1.0 + r.uniform (), (int) r.range (-2, 3)), d2)));
            break;
        }
        case 1: // lattice skew
        {
            D3 q0 = gen_point (r, 1), d2 = gen_dir (r, 2);
            l2    = Line3<T> (tov<T> (q0), tov<T> (axpy (q0, 1.0, d2)));
            gcls  = "skew_lattice";
            break;
        }
        case 2: // intersecting: both lines pass (up to rounding) through a common point
        case 3: {
            gcls = k == 2 ? "intersecting" : "intersecting_lattice";
            D3     d2 = gen_dir (r, k == 2 ? 0 : 2);
            double a  = k == 2 ? r.logscale (-3, 4) : (double) r.range (-6, 6);
            double b  = k == 2 ? r.logscale (-3, 4) : (double) r.range (1, 6);
            D3     x  = axpy (p0, a, d1); // common point
            D3     q0 = axpy (x, b, d2);
            Vec3<T> B0 = tov<T> (q0), B1 = tov<T> (axpy (q0, k == 2 ? 1.5 : 2.0, d2));
            l2 = Line3<T> (B0, B1);
            break;
        }
        case 4: // axis aligned perpendicular lines, lattice positions
        {
            gcls = "perpendicular_axis";
            D3 q0 = gen_point (r, 1), d2 = gen_dir (r, 1);
            l2    = Line3<T> (tov<T> (q0), tov<T> (axpy (q0, 2.0, d2)));
            break;
        }
        case 5: case 6: case 7: case 8: case 9: case 10: case 11: case 12: case 13: {
            gcls        = "nearly_parallel";
            double s    = sins[k - 5] * r.uniform (1.0, 2.0);
            D3     dd   = D3{{(double) l1.dir.x, (double) l1.dir.y, (double) l1.dir.z}};
            D3     e    = gen_perp (r, dd);
            double cs   = std::sqrt (1 - s * s) * (r.coin () ? 1 : -1);
            D3     d2   = axpy (scl (dd, cs), s, e);
            D3     q0   = axpy (p0, 1.0, gen_point (r, 0));
            l2          = Line3<T> (tov<T> (q0), tov<T> (axpy (q0, std::ldexp (1.0 + r.uniform (), (int) r.range (0, 3)), d2)));
            break;
        }
        case 14: // exactly parallel: same stored direction
        case 15: // exactly anti-parallel
        {
            gcls   = k == 14 ? "parallel_same_dir" : "parallel_negated_dir";
            l2.dir = k == 14 ? l1.dir : -l1.dir;
            l2.pos = tov<T> (axpy (p0, 1.0, gen_point (r, r.one_in (3) ? 3 : 0)));
            break;
        }
        case 16: // one-ulp perturbation of the direction
        {
            gcls   = "parallel_one_ulp";
            l2.dir = l1.dir;
            int a  = (int) r.range (0, 2);
            l2.dir[a] = std::nextafter (l2.dir[a], r.coin () ? (T) 2 : (T) -2);
            l2.pos = tov<T> (axpy (p0, 1.0, gen_point (r, 0)));
            break;
        }
        case 17: // parallel lattice lines through the constructor (direction vector scaled by 2 or -2)
        {
            gcls  = "parallel_lattice_ctor";
            D3 q0 = gen_point (r, 1);
            l2    = Line3<T> (tov<T> (q0), tov<T> (axpy (q0, r.coin () ? 2.0 : -2.0, d1)));
            break;
        }
    }
    if (l2.dir == Vec3<T> (0, 0, 0)) { c.cls ("skipped_degenerate_line"); return; }
    if (r.coin ()) std::swap (l1, l2);
    c.eval ();
    c.nontrivial (hashv (l2.dir, hashv (l2.pos, hashv (l1.dir, hashv (l1.pos)))));

    // ---- real code
    Vec3<T> cp = l1.closestPointTo (l2);
    Vec3<T> g1 (0), g2 (0);
    bool    ok   = closestPoints (l1, l2, g1, g2);
    T       dg   = l1.distanceTo (l2);
    T       dg21 = l2.distanceTo (l1);

    // ---- oracle
    RV<R, 3> P1 = up<R> (l1.pos), u1 = up<R> (l1.dir), P2 = up<R> (l2.pos), u2 = up<R> (l2.dir);
    RV<R, 3> n = cross (u1, u2), w = P1 - P2;
    R        a11 = dot (u1, u1), a12 = dot (u1, u2), a22 = dot (u2, u2);
    R        sn  = len (n) / r_sqrt (a11 * a22);
    bool     exact_parallel = (n[0] == 0 && n[1] == 0 && n[2] == 0);
    double   W   = (double) (len (P1) + len (P2));
    double   sind = (double) sn;
    auto     base = [&] (Obj o) { return o.kv ("class", gcls).raw ("line1", jsl (l1)).raw ("line2", jsl (l2)).kv ("sin", sind).raw ("closestPointTo", js (cp)).kv ("closestPoints_ok", ok).raw ("point1", js (g1)).raw ("point2", js (g2)).kv ("distanceTo", (double) dg); };

    // never NaN / inf, whatever the angle
    if (!all_finite (cp) || !std::isfinite (dg) || !std::isfinite (dg21) || (ok && (!all_finite (g1) || !all_finite (g2))))
    {
        const char* which = !all_finite (cp) ? "closestPointTo(Line3)." : (!std::isfinite (dg) || !std::isfinite (dg21)) ? "distanceTo(Line3)." : "closestPoints.";
        c.fail (std::string (which) + tn + ":nonfinite", idx, [&] { return base (Obj ()).str (); });
        return;
    }
    // points returned lie on their lines, whatever the angle
    {
        RV<R, 3> C = up<R> (cp);
        auto     d0 = [&] { return base (Obj ()).str (); };
        judge (c, "closestPointTo(Line3)." + tn + ":on_line", "closestPointTo(Line3)." + tn + ".on_line/(eps*(|pos|+|t|))", (double) dist_point_line (C, P1, u1), eps * (double) (len (P1) + len (C - P1)), B_LL_ON, idx, d0);
        if (ok)
        {
            RV<R, 3> G1 = up<R> (g1), G2 = up<R> (g2);
            judge (c, "closestPoints." + tn + ":point1_on_line", "closestPoints." + tn + ".on_line/(eps*(|pos|+|t|))", (double) dist_point_line (G1, P1, u1), eps * (double) (len (P1) + len (G1 - P1)), B_LL_ON, idx, d0);
            judge (c, "closestPoints." + tn + ":point2_on_line", "closestPoints." + tn + ".on_line/(eps*(|pos|+|t|))", (double) dist_point_line (G2, P2, u2), eps * (double) (len (P2) + len (G2 - P2)), B_LL_ON, idx, d0);
        }
    }

    if (exact_parallel)
    {
        // "reported or handled": closestPoints may say false, or return finite points on the lines (checked above);
        // distanceTo must be the distance of any point of one line to the other
        c.cls ("parallel_exact");
        c.cls (gcls);
        c.cls (ok ? "parallel_closestPoints_true" : "parallel_closestPoints_reported_false");
        R Dp = dist_point_line (P2, P1, u1);
        auto dpar = [&] { return base (Obj ()).kv ("true_distance", (double) Dp).str (); };
        judge (c, "distanceTo(Line3)." + tn + ":parallel", "distanceTo(Line3)." + tn + ".parallel/(eps*W)", (double) r_abs ((R) dg - Dp), eps * W, B_LL_PAR, idx, dpar);
        judge (c, "distanceTo(Line3)." + tn + ":parallel", "distanceTo(Line3)." + tn + ".parallel/(eps*W)", (double) r_abs ((R) dg21 - Dp), eps * W, B_LL_PAR, idx, dpar);
        if (ok)
        {
            // closestPoints claims it computed the pair: then it must be a closest pair of the parallel lines
            // (segment perpendicular to the common direction, length = distance between the lines)
            RV<R, 3> G1 = up<R> (g1), G2 = up<R> (g2), s = G1 - G2;
            double   tolq = eps * (W + (double) len (G1 - P1) + (double) len (G2 - P2));
            double   e = std::max ((double) r_abs (len (s) - Dp), std::max ((double) (r_abs (dot (s, u1)) / r_sqrt (a11)), (double) (r_abs (dot (s, u2)) / r_sqrt (a22))));
            judge (c, "closestPoints." + tn + ":parallel_lines_true_but_not_closest", "closestPoints." + tn + ".parallel_true/(eps*(W+|t1|+|t2|))", e, tolq, B_LL_PAR, idx,
                   [&] { return base (Obj ()).kv ("true_distance", (double) Dp).kv ("segment_length", (double) len (s)).kv ("segment_dot_dir1", (double) dot (s, u1)).str (); });
        }
        c.sample (gcls, dpar);
        return;
    }
    // the closest points are conditioned like eps/sin^2: judged while that is below ~0.1 for float (sin >= 1e-3) and, for
    // double, down to sin = 1e-6 (eps/sin^2 = 2e-4) - a fixed 1e-3 for both types left the whole near-parallel range of
    // double unjudged (seeded change C15-5)
    if (sind < (sizeof (T) == 4 ? 1e-3 : 1e-6))
    {
        // below the conditioning limit of the property: only finiteness and on-line were judged
        c.cls ("nearly_parallel_unjudged");
        if (!ok) c.cls ("nearly_parallel_reported_false");
        return;
    }
    c.cls (gcls);
    if (std::strcmp (gcls, "nearly_parallel") == 0)
        c.cls (sind < 1e-3 ? "nearly_parallel_sin<1e-3" : sind < 3e-3 ? "nearly_parallel_sin<3e-3" : sind < 3e-2 ? "nearly_parallel_sin<3e-2" : "nearly_parallel_sin<1");

    R        det = a11 * a22 - a12 * a12;
    R        b1 = -dot (u1, w), b2 = dot (u2, w);
    R        t1 = (b1 * a22 + a12 * b2) / det, t2 = (a11 * b2 + a12 * b1) / det;
    RV<R, 3> F1 = P1 + u1 * t1, F2 = P2 + u2 * t2;
    R        Ds = len (F1 - F2);
    double   wl = (double) len (w);
    double   tolp = eps * (W + (double) r_abs (t1) + (double) r_abs (t2)) / (sind * sind); // position of the closest points
    double   told = eps * (W + wl / sind);                                                    // distance
    auto     desc = [&] { return base (Obj ()).kv ("true_distance", (double) Ds).kv ("true_t1", (double) t1).kv ("true_t2", (double) t2).raw ("true_point1", js (Vec3<double> ((double) F1[0], (double) F1[1], (double) F1[2]))).raw ("true_point2", js (Vec3<double> ((double) F2[0], (double) F2[1], (double) F2[2]))).str (); };
    if ((double) Ds <= 64 * told) c.cls ("intersecting_within_rounding");

    // closestPointTo(line)
    RV<R, 3> C = up<R> (cp);
    judge (c, "closestPointTo(Line3)." + tn + ":not_closest", "closestPointTo(Line3)." + tn + ".pos/(eps*(W+|t|)/sin^2)", (double) len (C - F1), tolp, B_LL_POS, idx, desc);
    // distanceTo(line), both orders
    judge (c, "distanceTo(Line3)." + tn + ":value", "distanceTo(Line3)." + tn + ".err/(eps*(W+|w|/sin))", (double) r_abs ((R) dg - Ds), told, B_LL_DIST, idx, desc);
    judge (c, "distanceTo(Line3)." + tn + ":value", "distanceTo(Line3)." + tn + ".err/(eps*(W+|w|/sin))", (double) r_abs ((R) dg21 - Ds), told, B_LL_DIST, idx, desc);
    // closestPoints
    if (!ok)
    {
        // "false if parallel or nearly parallel": accepted while sin^2 is within 64 rounding units of zero
        if (sind * sind < 64 * eps) c.cls ("nearly_parallel_reported_false");
        else c.fail ("closestPoints." + tn + ":false_for_nonparallel", idx, desc);
        return;
    }
    RV<R, 3> G1 = up<R> (g1), G2 = up<R> (g2), s = G1 - G2;
    judge (c, "closestPoints." + tn + ":point1_not_closest", "closestPoints." + tn + ".pos/(eps*(W+|t|)/sin^2)", (double) len (G1 - F1), tolp, B_LL_POS, idx, desc);
    judge (c, "closestPoints." + tn + ":point2_not_closest", "closestPoints." + tn + ".pos/(eps*(W+|t|)/sin^2)", (double) len (G2 - F2), tolp, B_LL_POS, idx, desc);
    judge (c, "closestPoints." + tn + ":perpendicular_dir1", "closestPoints." + tn + ".perp/(eps*(W+|t|)/sin^2)", (double) (r_abs (dot (s, u1)) / r_sqrt (a11)), tolp, B_LL_PERP, idx, desc);
    judge (c, "closestPoints." + tn + ":perpendicular_dir2", "closestPoints." + tn + ".perp/(eps*(W+|t|)/sin^2)", (double) (r_abs (dot (s, u2)) / r_sqrt (a22)), tolp, B_LL_PERP, idx, desc);
    judge (c, "closestPoints." + tn + ":segment_length", "closestPoints." + tn + ".len/(eps*(W+|t|)/sin^2)", (double) r_abs (len (s) - Ds), tolp, B_LL_LEN, idx, desc);
    // "whose length is the reported distance"
    judge (c, "distanceTo(Line3)." + tn + ":vs_closestPoints_segment", "distanceTo(Line3)." + tn + ".vs_segment/(tol_pos+tol_dist)", (double) r_abs (len (s) - (R) dg), tolp + told, B_LL_LEN, idx, desc);
    c.sample (gcls, desc);
}

} // namespace

MON_SUB_IDX (sub_line_point<float>, "line_point.float", 1000000, 40000000)
    .req ({"generic", "lattice", "axis_aligned", "point_on_line", "point_near_line", "far_along", "large_offset", "point_is_pos", "scale_tiny", "scale_huge"})
    .over ("Line3f x point: closestPointTo(point), distanceTo(point); 10 classes by idx mod 10");
MON_SUB_IDX (sub_line_point<double>, "line_point.double", 1000000, 40000000)
    .req ({"generic", "lattice", "axis_aligned", "point_on_line", "point_near_line", "far_along", "large_offset", "point_is_pos", "scale_tiny", "scale_huge"})
    .over ("Line3d x point: closestPointTo(point), distanceTo(point); 10 classes by idx mod 10");
MON_SUB_IDX (sub_line_line<float>, "line_line.float", 1800000, 72000000)
    .req ({"skew", "skew_lattice", "intersecting", "intersecting_lattice", "perpendicular_axis", "nearly_parallel", "nearly_parallel_sin<3e-3", "nearly_parallel_sin<3e-2", "nearly_parallel_unjudged", "parallel_exact", "parallel_same_dir", "parallel_negated_dir", "parallel_lattice_ctor", "parallel_closestPoints_reported_false", "intersecting_within_rounding"})
    .over ("pairs of Line3f: closestPointTo(line), closestPoints, distanceTo(line); 18 classes by idx mod 18 (skew, intersecting, graded sin 0.3..1e-7, exactly parallel)");
MON_SUB_IDX (sub_line_line<double>, "line_line.double", 1800000, 72000000)
    .req ({"skew", "skew_lattice", "intersecting", "intersecting_lattice", "perpendicular_axis", "nearly_parallel", "nearly_parallel_sin<3e-3", "nearly_parallel_sin<3e-2", "nearly_parallel_unjudged", "parallel_exact", "parallel_same_dir", "parallel_negated_dir", "parallel_lattice_ctor", "parallel_closestPoints_reported_false", "intersecting_within_rounding"})
    .over ("pairs of Line3d: closestPointTo(line), closestPoints, distanceTo(line); 18 classes by idx mod 18 (skew, intersecting, graded sin 0.3..1e-7, exactly parallel)");

MON_MAIN ("c15_geom")
