// C12, family B - jacobiSVD (3x3, 4x4; forcePositiveDeterminant off/on),
// jacobiEigenSolver, minEigenVector, maxEigenVector (ImathMatrixAlgo.cpp).
//
// Oracle: the defining identities evaluated in long double with loops over
// indices: U^T U = I, V^T V = I, U diag(S) V^T = A, ordering / sign rules of S,
// det U, det V > 0 with the flag; V^T V = I and V diag(S) V^T = A for symmetric A;
// for min/maxEigenVector: unit length, A v = lambda v with lambda the Rayleigh
// quotient, and |lambda| equal to the extreme |eigenvalue| of a reference
// cyclic-Jacobi solver in long double (c12_common.h).  Tolerances are multiples
// of eps (orthonormality) and of eps*max|A| (everything that scales with A).
#include "c12_common.h"
#include <ImathMatrixAlgo.h>

using namespace mon;
using namespace c12;
using namespace IMATH_NAMESPACE;

namespace
{

// calibrated constants, in units of eps resp. eps*max|A|.  Worst ratios observed on the pristine tree
// (thorough tier): SVD 3x3 orthonormality 13.7 / recompose 20.8, SVD 4x4 23.4 / 59.2 (antisymmetric
// matrices; 4x4 double matrices with coinciding singular values additionally show a tail up to 956 when the
// 20-sweep cap is hit - reported, see sub_svd44_witness - and 51 / orthonormality 39.9 with a larger cap); eigen 3x3 7.7 / 9.0, 4x4 17.3 / 18.2; eigenvectors: unit
// length 12.8, residual 6.0, extremeness 1.1.  Bounds are >= 8x those.  (Upstream's own tests use
// 100 eps for orthonormality and 10 (3x3) / 100 (4x4) eps*max|A| for the reconstruction.)
template <int N> struct Cn;
template <> struct Cn<3> { static constexpr long double svd_orth = 128, svd_rec = 192, eig = 100; };
template <> struct Cn<4> { static constexpr long double svd_orth = 384, svd_rec = 512, eig = 192; };
const LD C_VEC     = 128; // unit length (eps), eigen-residual (eps*max|A|)
const LD C_EXTREME = 16;  // | |lambda| - extreme |eigenvalue| | / (eps*max|A|)

template <class T> LD epsT () { return (LD) std::numeric_limits<T>::epsilon (); }

template <class T, int N> struct MT;
template <class T> struct MT<T, 3> { typedef Matrix33<T> M; typedef Vec3<T> V; };
template <class T> struct MT<T, 4> { typedef Matrix44<T> M; typedef Vec4<T> V; };

template <int N>
void
signed_permutation (Rng& r, Mat<N>& p)
{
    int perm[N];
    for (int i = 0; i < N; ++i) perm[i] = i;
    for (int i = N - 1; i > 0; --i) std::swap (perm[i], perm[r.range (0, i)]);
    p = zero<N> ();
    for (int i = 0; i < N; ++i) p[i][perm[i]] = r.coin () ? 1 : -1;
}

// =================================================================== general matrices
enum { NGEN = 16 };
const char* const gen_names[NGEN] = {"gauss", "magnitude_sweep", "rank1", "rank_nminus1", "exact_rank_deficient", "repeated_singular_values",
                                     "scaled_signed_permutation", "diagonal", "special", "integer_lattice", "symmetric", "antisymmetric",
                                     "graded_conditioning", "negative_determinant", "nearly_diagonal", "orthogonal"};

template <class T, int N>
const char*
gen_general (Rng& r, uint64_t idx, typename MT<T, N>::M& out)
{
    const bool dbl = sizeof (T) == 8;
    int        k   = (int) (idx % NGEN);
    Mat<N>     a;
    for (int i = 0; i < N; ++i) for (int j = 0; j < N; ++j) a[i][j] = r.gauss ();
    switch (k)
    {
        case 0: break;
        case 1: { LD m = ldexpl (1.0L, (int) r.range (dbl ? -100 : -20, dbl ? 100 : 20)); for (int i = 0; i < N; ++i) for (int j = 0; j < N; ++j) a[i][j] *= m; break; }
        case 2: { LD u[N], v[N]; for (int i = 0; i < N; ++i) { u[i] = r.gauss (); v[i] = r.gauss (); } for (int i = 0; i < N; ++i) for (int j = 0; j < N; ++j) a[i][j] = u[i] * v[j]; break; }
        case 3: { LD d[N]; for (int i = 0; i < N; ++i) d[i] = 0.1L + (LD) r.uniform (); d[r.range (0, N - 1)] = 0; a = udvt (random_orthogonal<N> (r), d, random_orthogonal<N> (r)); break; }
        case 4:
        {
            if (r.coin ()) for (int i = 0; i < N; ++i) for (int j = 0; j < N; ++j) a[i][j] = (LD) r.range (-4, 4);
            int v = (int) r.range (0, 3), p = (int) r.range (0, N - 1), q = (p + 1 + (int) r.range (0, N - 2)) % N;
            for (int j = 0; j < N; ++j)
            {
                if (v == 0) a[p][j] = a[q][j];      // duplicate rows
                else if (v == 1) a[j][p] = 0;       // zero column
                else if (v == 2) a[p][j] = 0;       // zero row
                else a[j][p] = -2 * a[j][q];        // proportional columns (exact after rounding: *2)
            }
            break;
        }
        case 5:
        {
            LD d[N], s1 = 0.1L + (LD) r.uniform (), s2 = 0.1L + (LD) r.uniform ();
            int v = (int) r.range (0, 2);
            for (int i = 0; i < N; ++i) d[i] = v == 0 ? s1 : (v == 1 ? (i < 2 ? s1 : s2) : (i < 1 ? s1 : s2));
            a = udvt (random_orthogonal<N> (r), d, random_orthogonal<N> (r));
            break;
        }
        case 6: { signed_permutation (r, a); LD m = r.coin () ? 1.0L : (LD) r.logscale (-6, 6); for (int i = 0; i < N; ++i) for (int j = 0; j < N; ++j) a[i][j] *= m; break; }
        case 7:
            for (int i = 0; i < N; ++i) for (int j = 0; j < N; ++j) if (i != j) a[i][j] = 0; else a[i][j] = r.one_in (6) ? 0 : (LD) r.logscale (-8, 8);
            break;
        case 8:
        {
            int v = (int) r.range (0, 5);
            a     = zero<N> ();
            if (v == 1) a = ident<N> ();
            else if (v == 2) a[r.range (0, N - 1)][r.range (0, N - 1)] = (LD) r.logscale (-10, 10);
            else if (v == 3) for (int i = 0; i < N; ++i) for (int j = 0; j < N; ++j) a[i][j] = 1;
            else if (v == 4) for (int i = 0; i < N; ++i) a[i][i] = -1;
            else if (v == 5) for (int i = 0; i < N; ++i) a[i][N - 1 - i] = (LD) (i + 1); // anti-diagonal
            break;
        }
        case 9: for (int i = 0; i < N; ++i) for (int j = 0; j < N; ++j) a[i][j] = (LD) r.range (-3, 3); break;
        case 10: for (int i = 0; i < N; ++i) for (int j = 0; j < i; ++j) a[i][j] = a[j][i]; break;
        case 11: for (int i = 0; i < N; ++i) { a[i][i] = 0; for (int j = 0; j < i; ++j) a[i][j] = -a[j][i]; } break;
        case 12:
        {
            LD kk = (dbl ? 15.0L : 6.5L) * (LD) r.uniform (), d[N];
            for (int i = 0; i < N; ++i) d[i] = powl (10.0L, -kk * (LD) i / (N - 1));
            a = udvt (random_orthogonal<N> (r), d, random_orthogonal<N> (r));
            break;
        }
        case 13:
        {
            LD d[N];
            for (int i = 0; i < N; ++i) d[i] = 0.1L + (LD) r.uniform ();
            Mat<N> u = random_orthogonal<N> (r), v = random_orthogonal<N> (r);
            a = udvt (u, d, v);
            if (det (a) > 0) for (int j = 0; j < N; ++j) a[0][j] = -a[0][j];
            break;
        }
        case 14:
        {
            LD e = powl (10.0L, -(LD) r.range (1, dbl ? 18 : 9));
            for (int i = 0; i < N; ++i) for (int j = 0; j < N; ++j) a[i][j] = i == j ? (LD) r.sym (2.0) : a[i][j] * e;
            break;
        }
        case 15: a = random_orthogonal<N> (r); break;
    }
    for (int i = 0; i < N; ++i) for (int j = 0; j < N; ++j) out[i][j] = (T) a[i][j];
    return gen_names[k];
}

template <class T, int N>
void
judge_svd (Ctx& c, uint64_t idx, typename MT<T, N>::M A, const char* cls, bool flag, bool defaults)
{
    typedef typename MT<T, N>::M M;
    typedef typename MT<T, N>::V V;
    const std::string fn  = std::string ("jacobiSVD") + (N == 3 ? "33." : "44.") + tname<T>::s ();
    const LD          eps = epsT<T> ();
    c.eval ();
    c.cls (cls);
    c.cls (flag ? "forcePositiveDeterminant" : "plain");
    c.nontrivial (hash_combine (hash_mat (A), flag));
    M U, Vm;
    V S;
    const M A0 = A;
    if (!flag && defaults) jacobiSVD (A, U, S, Vm);
    else jacobiSVD (A, U, S, Vm, std::numeric_limits<T>::epsilon (), flag);
    Mat<N> a = toLD (A0), u = toLD (U), v = toLD (Vm);
    LD     s[N];
    bool   fin = all_finite (u) && all_finite (v);
    for (int i = 0; i < N; ++i) { s[i] = (LD) S[i]; fin = fin && std::isfinite (s[i]); }
    LD amax = maxabs (a);
    auto describe = [&] (const char* what, LD ratio) {
        return [&, what, ratio] { return Obj ().kv ("class", cls).kv ("forcePositiveDeterminant", flag).kv ("what", what).raw ("A", mat_json (A0)).raw ("U", mat_json (U)).arr ("S", &S[0], (size_t) N).raw ("V", mat_json (Vm)).kv ("ratio", (double) ratio).str (); };
    };
    if (!same_bits (A, A0)) c.fail (fn + ":input_modified", idx, describe ("const input changed", 0));
    if (!fin) { c.fail (fn + ":non_finite_output", idx, describe ("NaN/inf in U, S or V", 0)); return; }
    LD ou = orth_err_cols (u) / eps, ov = orth_err_cols (v) / eps;
    c.worst ("U_orthonormality/eps", (double) ou, idx, [&] { return Obj ().kv ("class", cls).str (); });
    c.worst ("V_orthonormality/eps", (double) ov, idx, [&] { return Obj ().kv ("class", cls).str (); });
    if (!(ou <= Cn<N>::svd_orth)) c.fail (fn + ":U_not_orthonormal", idx, describe ("max|U^T U - I| / eps", ou));
    if (!(ov <= Cn<N>::svd_orth)) c.fail (fn + ":V_not_orthonormal", idx, describe ("max|V^T V - I| / eps", ov));
    // U diag(S) V^T == A
    LD rec = maxabs ([&] { Mat<N> d = udvt (u, s, v); for (int i = 0; i < N; ++i) for (int j = 0; j < N; ++j) d[i][j] -= a[i][j]; return d; }());
    if (amax == 0)
    {
        if (rec != 0) c.fail (fn + ":recompose", idx, describe ("zero matrix: U diag(S) V^T is not zero", rec));
    }
    else
    {
        LD q = rec / (eps * amax);
        c.worst ("recompose/(eps*max|A|)", (double) q, idx, [&] { return Obj ().kv ("class", cls).kv ("flag", flag).str (); });
        if (!(q <= Cn<N>::svd_rec))
        {
            // Where does the residual sit?  D = U^T A V: if its diagonal agrees with S and only its
            // off-diagonal entries are too large, the Jacobi sweeps stopped before convergence.
            LD dg = 0, off = 0;
            for (int i = 0; i < N; ++i)
                for (int j = 0; j < N; ++j)
                {
                    LD dij = 0;
                    for (int k = 0; k < N; ++k) for (int l = 0; l < N; ++l) dij += u[k][i] * a[k][l] * v[l][j];
                    if (i == j) dg = std::max (dg, fabsl (dij - s[i])); else off = std::max (off, fabsl (dij));
                }
            bool unconverged = dg / (eps * amax) <= Cn<N>::svd_rec && ou <= Cn<N>::svd_orth && ov <= Cn<N>::svd_orth;
            c.fail (fn + (unconverged ? ":recompose_offdiagonal_unconverged" : ":recompose"), idx, describe (unconverged ? "max|U diag(S) V^T - A| / (eps max|A|); U^T A V has diagonal S but off-diagonal entries left" : "max|U diag(S) V^T - A| / (eps max|A|)", q));
        }
    }
    // ordering and signs
    int lastpos = flag ? N - 1 : N; // entries [0,lastpos) must be >= 0
    for (int i = 0; i < lastpos; ++i)
        if (!(s[i] >= 0)) { c.fail (fn + (flag ? ":negative_value_not_last" : ":negative_singular_value"), idx, describe ("negative singular value", s[i])); break; }
    for (int i = 0; i + 1 < N; ++i)
        if (!(s[i] >= fabsl (s[i + 1]))) { c.fail (fn + ":not_descending", idx, describe ("S[i] < |S[i+1]|", (LD) i)); break; }
    if (flag)
    {
        LD du = det (u), dv = det (v);
        if (s[N - 1] < 0) c.cls ("last_value_negative");
        if (!(du > 0)) c.fail (fn + ":det_U_not_positive", idx, describe ("det U", du));
        if (!(dv > 0)) c.fail (fn + ":det_V_not_positive", idx, describe ("det V", dv));
    }
    if (c.verbose) std::fprintf (stderr, "[replay] class=%s flag=%d orthU=%Lg orthV=%Lg rec=%Lg (eps units)\n", cls, (int) flag, ou, ov, amax > 0 ? rec / (eps * amax) : rec);
    if (idx % 997 < (uint64_t) NGEN) c.sample (cls, [&] { return Obj ().raw ("A", mat_json (A0)).arr ("S", &S[0], (size_t) N).kv ("flag", flag).str (); });
}

template <class T, int N>
void
sub_svd (Ctx& c, uint64_t idx)
{
    Rng                      r = c.rng (idx);
    typename MT<T, N>::M     A;
    const char*              cls = gen_general<T, N> (r, idx, A);
    const bool               flag = (idx / NGEN) & 1;
    const bool               defaults = (idx / (2 * NGEN)) & 1; // default arguments (tol = eps, no flag) when the flag is off
    judge_svd<T, N> (c, idx, A, cls, flag, defaults);
}

// Literal 4x4 double matrices with two pairs of coinciding singular values (found by the random
// search of class repeated_singular_values, 3 of ~20 hits in 6e7 samples) on which the 20-sweep cap
// of the 4x4 two-sided Jacobi iteration is reached before the off-diagonal entries have converged:
// residual 626..956 eps*max|A| on the unchanged tree, <= 51 eps*max|A| once the cap is raised to 30.
// Kept as a deterministic sub-check so that this behaviour is reported on every run, not by chance.
const double sweep_limit_witness[3][16] = {
    {-0x1.056642ed0608ep-3, -0x1.22e0644077ed2p-2, 0x1.f67822725d6e3p-3, -0x1.0ea9070c8ce4bp-1, -0x1.eb888e209d919p-3, -0x1.3373594620ff7p-1, 0x1.66421f8146ffdp-3, 0x1.85ccf06cfd813p-2,
     -0x1.0dcda2c587049p-2, 0x1.8df78ecf499a4p-2, 0x1.663b3fdb02ab3p-2, 0x1.4fed0aa4c89bp-2, -0x1.867a7aff7c15dp-2, 0x1.2891281c6f3d5p-4, -0x1.6c2f37439920dp-2, -0x1.76e6f49b15b65p-3},
    {-0x1.72d7af1c9b80dp-2, 0x1.d874082702cf6p-2, 0x1.9a06f1aafc682p-2, 0x1.59a1710fed8ebp-3, 0x1.38a74ca15f66fp-1, -0x1.6630dd9612205p-5, 0x1.2571c9869d9f3p-1, -0x1.7545dfb975184p-4,
     0x1.a9b2b631b175bp-5, -0x1.b58496f0de98ep-5, 0x1.220b8f14b63c5p-3, -0x1.d7d91e6bd2cebp-4, 0x1.0f725b91f519ap-3, -0x1.87f338c8a80acp-2, -0x1.fa36d1e27048fp-3, -0x1.5e96c6e3a4925p-8},
    {0x1.73d7079d3ef9ap-3, 0x1.880f7ce6530e6p-3, -0x1.5997661328d4ep-7, -0x1.0eb97c651afc7p-3, -0x1.1f34b4b9b64ebp-4, 0x1.54f24fa47baaep-2, -0x1.a3c51c3a360a4p-5, 0x1.0be0bef7353d7p-7,
     -0x1.699c81baab35cp-3, -0x1.f6af6b9ef0584p-4, -0x1.aba99f423262bp-3, -0x1.a1f77bb793145p-2, -0x1.0eafc92efdf91p-4, 0x1.142ed5776081dp-2, 0x1.9c712adc74007p-3, -0x1.91387ab9e18f4p-3}};

void
sub_svd44_witness (Ctx& c, uint64_t idx)
{
    M44d A;
    for (int i = 0; i < 4; ++i) for (int j = 0; j < 4; ++j) A[i][j] = sweep_limit_witness[idx % 3][4 * i + j];
    judge_svd<double, 4> (c, idx, A, "coinciding_singular_value_pairs_literal", (idx / 3) & 1, false);
}

// =================================================================== symmetric matrices
enum { NSYM = 14 };
const char* const sym_names[NSYM] = {"gauss_symmetric", "magnitude_sweep", "repeated_eigenvalues", "exactly_repeated", "diagonal", "special", "rank1",
                                     "integer_lattice", "negative_dominant", "graded", "nearly_diagonal", "block2", "positive_definite", "plus_minus_pair"};

template <class T, int N>
const char*
gen_sym (Rng& r, uint64_t idx, typename MT<T, N>::M& out)
{
    const bool dbl = sizeof (T) == 8;
    int        k   = (int) (idx % NSYM);
    Mat<N>     a;
    for (int i = 0; i < N; ++i) for (int j = 0; j < N; ++j) a[i][j] = r.gauss ();
    LD     d[N];
    Mat<N> q = random_orthogonal<N> (r);
    for (int i = 0; i < N; ++i) d[i] = r.sym (2.0);
    switch (k)
    {
        case 0: break;
        case 1: { LD m = ldexpl (1.0L, (int) r.range (dbl ? -100 : -20, dbl ? 100 : 20)); for (int i = 0; i < N; ++i) for (int j = 0; j < N; ++j) a[i][j] *= m; break; }
        case 2: { int v = (int) r.range (0, 1); for (int i = 1; i < N; ++i) if (v == 0 || i < 2) d[i] = d[0]; a = udvt (q, d, q); break; }
        case 3:
        {
            // a*I + b*v v^T with small integers: eigenvalue a with multiplicity N-1, exactly representable
            LD aa = (LD) r.range (-3, 3), bb = (LD) r.range (-2, 2), v[N];
            for (int i = 0; i < N; ++i) v[i] = (LD) r.range (-2, 2);
            for (int i = 0; i < N; ++i) for (int j = 0; j < N; ++j) a[i][j] = (i == j ? aa : 0) + bb * v[i] * v[j];
            break;
        }
        case 4: for (int i = 0; i < N; ++i) for (int j = 0; j < N; ++j) a[i][j] = i == j ? (r.one_in (6) ? 0 : (LD) r.logscale (-8, 8)) : 0; break;
        case 5:
        {
            int v = (int) r.range (0, 4);
            a     = zero<N> ();
            if (v == 1) a = ident<N> ();
            else if (v == 2) for (int i = 0; i < N; ++i) for (int j = 0; j < N; ++j) a[i][j] = 1;
            else if (v == 3) for (int i = 0; i < N; ++i) a[i][N - 1 - i] = 1;
            else if (v == 4) { int p = (int) r.range (0, N - 2); a[p][p + 1] = a[p + 1][p] = (LD) r.logscale (-10, 10); }
            break;
        }
        case 6: { LD v[N]; for (int i = 0; i < N; ++i) v[i] = (LD) (T) r.gauss (); for (int i = 0; i < N; ++i) for (int j = 0; j < N; ++j) a[i][j] = v[i] * v[j]; break; }
        case 7: for (int i = 0; i < N; ++i) for (int j = 0; j < N; ++j) a[i][j] = (LD) r.range (-3, 3); break;
        case 8: d[r.range (0, N - 1)] = -(3 + 5 * (LD) r.uniform ()); a = udvt (q, d, q); break;
        case 9: { LD kk = (dbl ? 15.0L : 6.5L) * (LD) r.uniform (); for (int i = 0; i < N; ++i) d[i] = powl (10.0L, -kk * (LD) i / (N - 1)) * (r.one_in (4) ? -1 : 1); a = udvt (q, d, q); break; }
        case 10:
        {
            LD e = powl (10.0L, -(LD) r.range (1, dbl ? 18 : 9));
            for (int i = 0; i < N; ++i) for (int j = 0; j < N; ++j) a[i][j] = i == j ? (LD) r.sym (2.0) : a[i][j] * e;
            break;
        }
        case 11:
        {
            int p = (int) r.range (0, N - 2);
            for (int i = 0; i < N; ++i) for (int j = 0; j < N; ++j) if (i != j && !((i == p && j == p + 1) || (i == p + 1 && j == p))) a[i][j] = 0;
            break;
        }
        case 12: { Mat<N> b = a; a = mul (b, transpose (b)); break; }
        case 13: { d[1] = -d[0]; if (fabsl (d[0]) < 1) d[0] = d[0] < 0 ? -2 : 2, d[1] = -d[0]; a = udvt (q, d, q); break; }
    }
    // exactly symmetric in T: round the upper triangle, mirror it
    for (int i = 0; i < N; ++i)
        for (int j = i; j < N; ++j)
            out[i][j] = out[j][i] = (T) a[i][j];
    return sym_names[k];
}

template <class T, int N>
void
sub_eigen (Ctx& c, uint64_t idx)
{
    typedef typename MT<T, N>::M M;
    typedef typename MT<T, N>::V V;
    const std::string fn  = std::string ("jacobiEigenSolver") + (N == 3 ? "33." : "44.") + tname<T>::s ();
    const LD          eps = epsT<T> ();
    Rng               r   = c.rng (idx);
    M                 A0;
    const char*       cls = gen_sym<T, N> (r, idx, A0);
    const bool        explicit_tol = (idx / NSYM) & 1;
    c.eval ();
    c.cls (cls);
    c.cls (explicit_tol ? "explicit_tol" : "default_tol");
    c.nontrivial (hash_mat (A0));
    M A = A0, Vm;
    V S;
    if (explicit_tol) jacobiEigenSolver (A, S, Vm, std::numeric_limits<T>::epsilon ());
    else jacobiEigenSolver (A, S, Vm);
    Mat<N> a = toLD (A0), v = toLD (Vm);
    LD     s[N];
    bool   fin = all_finite (v);
    for (int i = 0; i < N; ++i) { s[i] = (LD) S[i]; fin = fin && std::isfinite (s[i]); }
    LD amax = maxabs (a);
    auto describe = [&] (const char* what, LD ratio) {
        return [&, what, ratio] { return Obj ().kv ("class", cls).kv ("what", what).raw ("A", mat_json (A0)).arr ("S", &S[0], (size_t) N).raw ("V", mat_json (Vm)).kv ("ratio", (double) ratio).str (); };
    };
    if (!fin) { c.fail (fn + ":non_finite_output", idx, describe ("NaN/inf in S or V", 0)); return; }
    LD ov = orth_err_cols (v) / eps;
    c.worst ("V_orthonormality/eps", (double) ov, idx, [&] { return Obj ().kv ("class", cls).str (); });
    if (!(ov <= Cn<N>::eig)) c.fail (fn + ":V_not_orthonormal", idx, describe ("max|V^T V - I| / eps", ov));
    LD rec = maxabs ([&] { Mat<N> d = udvt (v, s, v); for (int i = 0; i < N; ++i) for (int j = 0; j < N; ++j) d[i][j] -= a[i][j]; return d; }());
    if (amax == 0)
    {
        if (rec != 0) c.fail (fn + ":recompose", idx, describe ("zero matrix: V diag(S) V^T is not zero", rec));
    }
    else
    {
        LD q = rec / (eps * amax);
        c.worst ("recompose/(eps*max|A|)", (double) q, idx, [&] { return Obj ().kv ("class", cls).str (); });
        if (!(q <= Cn<N>::eig)) c.fail (fn + ":recompose", idx, describe ("max|V diag(S) V^T - A| / (eps max|A|)", q));
    }
    if (c.verbose) std::fprintf (stderr, "[replay] class=%s orthV=%Lg rec=%Lg (eps units)\n", cls, ov, amax > 0 ? rec / (eps * amax) : rec);
    if (idx % 997 < (uint64_t) NSYM) c.sample (cls, [&] { return Obj ().raw ("A", mat_json (A0)).arr ("S", &S[0], (size_t) N).str (); });
}

template <class T, int N>
void
sub_eigvec (Ctx& c, uint64_t idx)
{
    typedef typename MT<T, N>::M M;
    typedef typename MT<T, N>::V V;
    const std::string sfx = std::string (N == 3 ? "33." : "44.") + tname<T>::s ();
    const LD          eps = epsT<T> ();
    Rng               r   = c.rng (idx);
    M                 A0;
    const char*       cls = gen_sym<T, N> (r, idx, A0);
    c.eval ();
    c.cls (cls);
    c.nontrivial (hash_mat (A0));
    Mat<N> a = toLD (A0);
    LD     ev[N], amax = maxabs (a);
    ref_sym_eigenvalues (a, ev);
    LD emax = 0, emin = fabsl (ev[0]);
    for (int i = 0; i < N; ++i) { emax = std::max (emax, fabsl (ev[i])); emin = std::min (emin, fabsl (ev[i])); }
    for (int which = 0; which < 2; ++which)
    {
        const std::string fn = std::string (which ? "maxEigenVector" : "minEigenVector") + sfx;
        M                 A = A0;
        V                 x;
        if (which) maxEigenVector (A, x); else minEigenVector (A, x);
        LD   xv[N], n2 = 0;
        bool fin = true;
        for (int i = 0; i < N; ++i) { xv[i] = (LD) x[i]; fin = fin && std::isfinite (xv[i]); n2 += xv[i] * xv[i]; }
        auto describe = [&] (const char* what, LD ratio) {
            return [&, what, ratio] { return Obj ().kv ("class", cls).kv ("what", what).raw ("A", mat_json (A0)).arr ("v", &x[0], (size_t) N).arr ("reference_eigenvalues", ev, (size_t) N).kv ("ratio", (double) ratio).str (); };
        };
        if (!fin) { c.fail (fn + ":non_finite_output", idx, describe ("NaN/inf", 0)); continue; }
        LD un = fabsl (n2 - 1) / eps;
        c.worst (which ? "max.unit_length/eps" : "min.unit_length/eps", (double) un, idx, [&] { return Obj ().kv ("class", cls).str (); });
        if (!(un <= C_VEC)) { c.fail (fn + ":not_unit_length", idx, describe ("| |v|^2 - 1 | / eps", un)); continue; }
        // Rayleigh quotient and residual
        LD av[N], lam = 0;
        for (int i = 0; i < N; ++i) { av[i] = 0; for (int j = 0; j < N; ++j) av[i] += a[i][j] * xv[j]; lam += xv[i] * av[i]; }
        lam /= n2;
        LD res = 0;
        for (int i = 0; i < N; ++i) res = std::max (res, fabsl (av[i] - lam * xv[i]));
        if (amax == 0) continue; // zero matrix: every unit vector is an eigenvector of the eigenvalue 0
        LD qr = res / (eps * amax);
        LD qe = fabsl (fabsl (lam) - (which ? emax : emin)) / (eps * amax);
        c.worst (which ? "max.residual/(eps*max|A|)" : "min.residual/(eps*max|A|)", (double) qr, idx, [&] { return Obj ().kv ("class", cls).str (); });
        c.worst (which ? "max.extremeness/(eps*max|A|)" : "min.extremeness/(eps*max|A|)", (double) qe, idx, [&] { return Obj ().kv ("class", cls).str (); });
        if (!(qr <= C_VEC)) c.fail (fn + ":not_an_eigenvector", idx, describe ("max|A v - (v.Av) v| / (eps max|A|)", qr));
        if (!(qe <= C_EXTREME)) c.fail (fn + (which ? ":not_the_max_abs_eigenvalue" : ":not_the_min_abs_eigenvalue"), idx, describe ("| |lambda| - extreme |eigenvalue| | / (eps max|A|)", qe));
        if (c.verbose) std::fprintf (stderr, "[replay] %s class=%s lambda=%Lg extreme=%Lg residual=%Lg extremeness=%Lg (eps*max|A| units)\n", fn.c_str (), cls, lam, which ? emax : emin, qr, qe);
    }
}

void svd33f (Ctx& c, uint64_t i) { sub_svd<float, 3> (c, i); }
void svd33d (Ctx& c, uint64_t i) { sub_svd<double, 3> (c, i); }
void svd44f (Ctx& c, uint64_t i) { sub_svd<float, 4> (c, i); }
void svd44d (Ctx& c, uint64_t i) { sub_svd<double, 4> (c, i); }
void eig33f (Ctx& c, uint64_t i) { sub_eigen<float, 3> (c, i); }
void eig33d (Ctx& c, uint64_t i) { sub_eigen<double, 3> (c, i); }
void eig44f (Ctx& c, uint64_t i) { sub_eigen<float, 4> (c, i); }
void eig44d (Ctx& c, uint64_t i) { sub_eigen<double, 4> (c, i); }
void vec33f (Ctx& c, uint64_t i) { sub_eigvec<float, 3> (c, i); }
void vec33d (Ctx& c, uint64_t i) { sub_eigvec<double, 3> (c, i); }
void vec44f (Ctx& c, uint64_t i) { sub_eigvec<float, 4> (c, i); }
void vec44d (Ctx& c, uint64_t i) { sub_eigvec<double, 4> (c, i); }

#define GEN_REQ {"gauss", "magnitude_sweep", "rank1", "rank_nminus1", "exact_rank_deficient", "repeated_singular_values", "scaled_signed_permutation", "diagonal", "special", "integer_lattice", "symmetric", "antisymmetric", "graded_conditioning", "negative_determinant", "nearly_diagonal", "orthogonal", "forcePositiveDeterminant", "plain", "last_value_negative"}
#define SYM_REQ {"gauss_symmetric", "magnitude_sweep", "repeated_eigenvalues", "exactly_repeated", "diagonal", "special", "rank1", "integer_lattice", "negative_dominant", "graded", "nearly_diagonal", "block2", "positive_definite", "plus_minus_pair"}
const char* const SVD_SPACE = "real NxN matrices from 16 classes (Gaussian, magnitudes 2^-100..2^100, rank 1 / N-1, exactly rank-deficient, repeated singular values, scaled signed permutations, diagonal, zero/identity/..., "
                              "integer lattice, symmetric, antisymmetric, graded conditioning to 1e15 (float 1e6.5), det<0, nearly diagonal, orthogonal) x forcePositiveDeterminant off/on";
const char* const SYM_SPACE = "symmetric NxN matrices from 14 classes (Gaussian, magnitudes, repeated / exactly repeated eigenvalues, diagonal, zero/identity/..., rank 1, integer lattice, negative dominant eigenvalue, "
                              "graded, nearly diagonal, 2x2 block, positive definite, +-lambda pair)";

} // namespace

MON_SUB_IDX (svd33f, "jacobiSVD33_float", 1280000, 24000000).req (GEN_REQ).over (SVD_SPACE);
MON_SUB_IDX (svd33d, "jacobiSVD33_double", 1280000, 24000000).req (GEN_REQ).over (SVD_SPACE);
MON_SUB_IDX (svd44f, "jacobiSVD44_float", 960000, 18000000).req (GEN_REQ).over (SVD_SPACE);
MON_SUB_IDX (svd44d, "jacobiSVD44_double", 960000, 18000000).req (GEN_REQ).over (SVD_SPACE);
MON_SUB_IDX (sub_svd44_witness, "jacobiSVD44_double_sweep_limit", 6, 6).req ({"coinciding_singular_value_pairs_literal"}).exh ().noscale ().over ("3 literal Matrix44<double> with two pairs of coinciding singular values x forcePositiveDeterminant off/on (deterministic witnesses of the 20-sweep cap)");
MON_SUB_IDX (eig33f, "jacobiEigenSolver33_float", 1120000, 21000000).req (SYM_REQ).over (SYM_SPACE);
MON_SUB_IDX (eig33d, "jacobiEigenSolver33_double", 1120000, 21000000).req (SYM_REQ).over (SYM_SPACE);
MON_SUB_IDX (eig44f, "jacobiEigenSolver44_float", 840000, 16800000).req (SYM_REQ).over (SYM_SPACE);
MON_SUB_IDX (eig44d, "jacobiEigenSolver44_double", 840000, 16800000).req (SYM_REQ).over (SYM_SPACE);
MON_SUB_IDX (vec33f, "minmaxEigenVector33_float", 560000, 16800000).req (SYM_REQ).over (SYM_SPACE);
MON_SUB_IDX (vec33d, "minmaxEigenVector33_double", 560000, 16800000).req (SYM_REQ).over (SYM_SPACE);
MON_SUB_IDX (vec44f, "minmaxEigenVector44_float", 420000, 12600000).req (SYM_REQ).over (SYM_SPACE);
MON_SUB_IDX (vec44d, "minmaxEigenVector44_double", 420000, 12600000).req (SYM_REQ).over (SYM_SPACE);
