// C01 - float<->half conversion is exact IEEE-754 binary16 with
// round-to-nearest-even.  Exhaustive over all 2^16 half patterns and all 2^32
// float patterns.  Oracles: (1) an arithmetic model of binary16 built from
// ldexp / ilogb / nearbyint (no bit tricks shared with the implementation),
// (2) the CPU's F16C instructions (separate TU, see c01_f16c.cpp).
#include "mon.h"
#include <cfenv>
#include <half.h>
#include <xmmintrin.h>

using namespace mon;
using IMATH_NAMESPACE::half;

extern "C" uint16_t c01_hw_f2h (float f);
extern "C" float    c01_hw_h2f (uint16_t h);
extern "C" void     c01_hw_f2h_block (const float* in, uint16_t* out, unsigned n);

static const bool g_have_f16c = __builtin_cpu_supports ("f16c");

// ---- model: the value a binary16 pattern denotes, as a float bit pattern
static uint32_t
model_h2f_bits (uint16_t h)
{
    unsigned s = h >> 15, e = (h >> 10) & 31, m = h & 1023;
    if (e == 31)
    {
        if (m == 0) return (s << 31) | 0x7f800000u;
        return (s << 31) | 0x7f800000u | (m << 13); // NaN: sign and payload bits preserved
    }
    double v = (e == 0) ? std::ldexp ((double) m, -24) : std::ldexp ((double) (1024 + m), (int) e - 25);
    float  f = (float) v; // exact: every binary16 value is a binary32 value
    uint32_t u = f2u (f);
    return u | (s << 31);
}

enum TieKind { NO_TIE = 0, TIE_TO_EVEN_DOWN = 1, TIE_TO_EVEN_UP = 2 };

// ---- model: nearest binary16 to a float, ties to even
static uint16_t
model_f2h_bits (float f, int* tie = nullptr, bool* sub = nullptr)
{
    uint32_t u = f2u (f);
    uint16_t s = (uint16_t) ((u >> 16) & 0x8000);
    if (tie) *tie = NO_TIE;
    if (sub) *sub = false;
    if (std::isnan (f))
    {
        uint32_t top10 = (u & 0x7fffff) >> 13;
        return s | 0x7c00 | (uint16_t) (top10 ? top10 : 1);
    }
    double a = std::fabs ((double) f);
    if (std::isinf (f) || a >= 65520.0) return s | 0x7c00;
    if (a <= std::ldexp (1.0, -25)) return s;
    if (a < std::ldexp (1.0, -14))
    {
        double x = std::ldexp (a, 24); // exact
        double r = std::nearbyint (x); // FE_TONEAREST: ties to even
        if (tie && x - std::floor (x) == 0.5) *tie = (r < x) ? TIE_TO_EVEN_DOWN : TIE_TO_EVEN_UP;
        if (sub) *sub = true;
        return s | (uint16_t) r; // r == 1024 encodes the smallest normal
    }
    int    E = std::ilogb (a);
    double x = std::ldexp (a, 10 - E); // in [1024, 2048)
    double r = std::nearbyint (x);
    if (tie && x - std::floor (x) == 0.5) *tie = (r < x) ? TIE_TO_EVEN_DOWN : TIE_TO_EVEN_UP;
    if (r == 2048.0) { r = 1024.0; ++E; }
    return s | (uint16_t) (((E + 15) << 10) | ((int) r - 1024));
}

// ------------------------------------------------------------------ half -> float, all 2^16
static void
sub_h2f (Ctx& c, uint64_t b, uint64_t e)
{
    for (uint64_t i = b; i < e; ++i)
    {
        uint16_t h = (uint16_t) i;
        c.eval ();
        uint32_t want = model_h2f_bits (h);
        uint32_t got  = f2u (imath_half_to_float (h));
        half     hh;
        hh.setBits (h);
        uint32_t got_cls = f2u ((float) hh);
        unsigned ex = (h >> 10) & 31, m = h & 1023;
        const char* k = ex == 31 ? (m ? "nan" : "inf") : ex == 0 ? (m ? "subnormal" : "zero") : "normal";
        c.cls (k);
        c.nontrivial_enum (1);
        if (got != want)
            c.fail (std::string ("h2f.c:") + k, i, [&] { return Obj ().kv ("half", hex16 (h)).kv ("got", hex32 (got)).kv ("model", hex32 (want)).str (); });
        if (got_cls != want)
            c.fail (std::string ("h2f.class:") + k, i, [&] { return Obj ().kv ("half", hex16 (h)).kv ("got", hex32 (got_cls)).kv ("model", hex32 (want)).str (); });
        if (g_have_f16c)
        {
            uint32_t hw = f2u (c01_hw_h2f (h));
            bool     ok = (ex == 31 && m) ? (std::isnan (u2f (got)) && (hw >> 31) == (got >> 31)) : hw == got;
            c.cls ("hw_oracle");
            if (!ok)
                c.fail (std::string ("h2f.hw:") + k, i, [&] { return Obj ().kv ("half", hex16 (h)).kv ("got", hex32 (got)).kv ("f16c", hex32 (hw)).str (); });
        }
        if (!(ex == 31 && m))
        {
            // round trip through both the C functions and the C++ class
            uint16_t rt  = imath_float_to_half (u2f (got));
            uint16_t rt2 = half (u2f (got_cls)).bits ();
            c.cls ("roundtrip");
            if (rt != h || rt2 != h)
                c.fail (std::string ("roundtrip:") + k, i, [&] { return Obj ().kv ("half", hex16 (h)).kv ("c", hex16 (rt)).kv ("class", hex16 (rt2)).str (); });
        }
        if (i % 4099 == 0) c.sample (k, [&] { return Obj ().kv ("half", hex16 (h)).kv ("float_bits", hex32 (got)).kv ("value", (double) u2f (got)).str (); });
    }
}
MON_SUB (sub_h2f, "half_to_float_all", 65536, 65536)
    .req ({"nan", "inf", "subnormal", "zero", "normal", "roundtrip"})
    .exh ()
    .chunked (4096)
    .over ("all 2^16 half bit patterns: C function, C++ cast, F16C oracle, h->f->h round trip");

// ------------------------------------------------------------------ float -> half, all 2^32
static void
sub_f2h (Ctx& c, uint64_t b, uint64_t e)
{
    // counters kept local: the loop body runs 2^32 times
    uint64_t n_tie_down = 0, n_tie_up = 0, n_sub = 0, n_nan_top0 = 0, n_nan_top = 0, n_inf = 0, n_ovf_nb = 0, n_flush_nb = 0, n_hw = 0, n_nontriv = 0;
    static thread_local std::vector<float>    in;
    static thread_local std::vector<uint16_t> hw;
    if (g_have_f16c)
    {
        in.resize (e - b);
        hw.resize (e - b);
        for (uint64_t i = b; i < e; ++i) in[i - b] = u2f ((uint32_t) i);
        c01_hw_f2h_block (in.data (), hw.data (), (unsigned) (e - b));
    }
    for (uint64_t i = b; i < e; ++i)
    {
        uint32_t u = (uint32_t) i;
        float    f = u2f (u);
        int      tie; bool sub;
        uint16_t want = model_f2h_bits (f, &tie, &sub);
        uint16_t got  = imath_float_to_half (f);
        uint16_t got2 = half (f).bits ();
        uint32_t mag  = u & 0x7fffffffu;
        const char* k = "normal";
        bool        isnan = mag > 0x7f800000u;
        if (isnan) { k = "nan"; if (((u & 0x7fffff) >> 13) == 0) ++n_nan_top0; else ++n_nan_top; }
        else if (mag == 0x7f800000u) { k = "inf"; ++n_inf; }
        else if (tie == TIE_TO_EVEN_DOWN) { k = "tie_down"; ++n_tie_down; }
        else if (tie == TIE_TO_EVEN_UP) { k = "tie_up"; ++n_tie_up; }
        else if (sub) k = "subnormal";
        if (sub) ++n_sub;
        if (mag >= 0x477fe000u - 64 && mag <= 0x477fe000u + 64) { ++n_ovf_nb; k = "overflow_threshold"; }
        if (mag >= 0x33000000u - 64 && mag <= 0x33000000u + 64) { ++n_flush_nb; k = "flush_threshold"; }
        if (tie != NO_TIE || sub || isnan || mag == 0x7f800000u || (mag >= 0x477fe000u - 64 && mag <= 0x477fe000u + 64) || (mag >= 0x33000000u - 64 && mag <= 0x33000000u + 64)) ++n_nontriv;
        if (got != want)
            c.fail (std::string ("f2h.c:") + k, i, [&] { return Obj ().kv ("float", hex32 (u)).kv ("value", (double) f).kv ("got", hex16 (got)).kv ("model", hex16 (want)).str (); });
        if (got2 != want)
            c.fail (std::string ("f2h.class:") + k, i, [&] { return Obj ().kv ("float", hex32 (u)).kv ("value", (double) f).kv ("got", hex16 (got2)).kv ("model", hex16 (want)).str (); });
        if (g_have_f16c)
        {
            uint16_t h = hw[i - b];
            bool     ok = isnan ? ((got & 0x7c00) == 0x7c00 && (got & 0x3ff) && (h & 0x8000) == (got & 0x8000)) : h == got;
            ++n_hw;
            if (!ok)
                c.fail (std::string ("f2h.hw:") + k, i, [&] { return Obj ().kv ("float", hex32 (u)).kv ("got", hex16 (got)).kv ("f16c", hex16 (h)).str (); });
        }
        if ((u & 0x7fffffu) == 0x2aaaab && (u >> 23) % 16 == 3)
            c.sample (k, [&] { return Obj ().kv ("float", hex32 (u)).kv ("value", (double) f).kv ("half", hex16 (got)).str (); });
        if (tie != NO_TIE && (u & 0xffff) == 0x1000 && (u >> 23) % 8 == 1)
            c.sample (k, [&] { return Obj ().kv ("float", hex32 (u)).kv ("value", (double) f).kv ("half", hex16 (got)).kv ("tie", tie == TIE_TO_EVEN_DOWN ? "to even, down" : "to even, up").str (); });
    }
    c.eval (e - b);
    c.nontrivial_enum (n_nontriv);
    c.cls ("tie_to_even_down", n_tie_down);
    c.cls ("tie_to_even_up", n_tie_up);
    c.cls ("subnormal_result", n_sub);
    c.cls ("nan_top10_zero", n_nan_top0);
    c.cls ("nan_top10_nonzero", n_nan_top);
    c.cls ("inf", n_inf);
    c.cls ("overflow_threshold_nbhd", n_ovf_nb);
    c.cls ("flush_threshold_nbhd", n_flush_nb);
    c.cls ("hw_oracle", n_hw);
}
MON_SUB (sub_f2h, "float_to_half_all", 1ull << 32, 1ull << 32)
    .req ({"tie_to_even_down", "tie_to_even_up", "subnormal_result", "nan_top10_zero", "nan_top10_nonzero"})
    .exh ()
    .chunked (1u << 18)
    .over ("all 2^32 float bit patterns: C function, C++ constructor, arithmetic model, F16C oracle; non-trivial = ties, subnormal results, NaNs, threshold neighbourhoods");

// ------------------------------------------------------------------ FP environment must not matter
// index = (block of 2^16 floats) x 8 environments (4 rounding modes x FTZ/DAZ off/on)
static void
sub_fenv (Ctx& c, uint64_t b, uint64_t e)
{
    static const int modes[4] = {FE_TONEAREST, FE_UPWARD, FE_DOWNWARD, FE_TOWARDZERO};
    static thread_local std::vector<uint16_t> base (65536);
    static thread_local std::vector<uint32_t> baseh (65536);
    for (uint64_t i = b; i < e; ++i)
    {
        unsigned env = (unsigned) (i % 8);
        uint64_t blk = c.thorough ? i / 8 : ((i / 8) * 64 + (splitmix64 (c.seed) % 64)) % 65536;
        for (uint32_t j = 0; j < 65536; ++j) base[j] = imath_float_to_half (u2f ((uint32_t) (blk << 16) | j));
        for (uint32_t j = 0; j < 65536; ++j) baseh[j] = f2u (imath_half_to_float ((uint16_t) j));
        unsigned old_csr = _mm_getcsr ();
        std::fesetround (modes[env % 4]);
        if (env >= 4) _mm_setcsr (_mm_getcsr () | 0x8040); // FTZ | DAZ
        uint64_t bad = 0, badh = 0; uint32_t first = 0, firsth = 0;
        for (uint32_t j = 0; j < 65536; ++j)
        {
            volatile uint32_t bits = (uint32_t) (blk << 16) | j;
            uint16_t got = half (u2f (bits)).bits ();
            if (got != base[j] && !bad++) first = bits;
        }
        for (uint32_t j = 0; j < 65536; ++j)
        {
            half h; h.setBits ((uint16_t) j);
            volatile float fv = (float) h;
            uint32_t got = f2u (fv);
            if (got != baseh[j] && !badh++) firsth = j;
        }
        _mm_setcsr (old_csr);
        std::fesetround (FE_TONEAREST);
        c.eval (2 * 65536);
        c.nontrivial_enum (1);
        c.cls (env >= 4 ? "ftz_daz_on" : "ftz_daz_off");
        c.cls (std::string ("round_mode_") + std::to_string (env % 4));
        if (bad)
            c.fail ("fenv.f2h:env" + std::to_string (env), i, [&] { return Obj ().kv ("env", env).kv ("first_float", hex32 (first)).kv ("mismatches", (unsigned long long) bad).str (); });
        if (badh)
            c.fail ("fenv.h2f:env" + std::to_string (env), i, [&] { return Obj ().kv ("env", env).kv ("first_half", hex16 ((uint16_t) firsth)).kv ("mismatches", (unsigned long long) badh).str (); });
        if (i % 1024 == 5) c.sample ("fenv", [&] { return Obj ().kv ("block_hi16", hex16 ((uint16_t) blk)).kv ("env", env).str (); });
    }
}
MON_SUB (sub_fenv, "fp_environment_independence", 8 * 1024, 8 * 65536)
    .req ({"ftz_daz_on", "ftz_daz_off", "round_mode_0", "round_mode_1", "round_mode_2", "round_mode_3"})
    .chunked (16)
    .over ("blocks of 2^16 floats x {4 rounding modes} x {FTZ/DAZ off,on}: conversions must equal their default-environment results (thorough: all blocks)");

MON_MAIN ("c01_half")
