// C16 (part 1) - projectionMatrix, projectPointToScreen, projectScreenToRay, depth mapping,
// screen/world radius, fov/aspect/set/modifyNearAndFar, window.
//
// Oracle: the camera-space model of c16_common.h (long double, written from the
// geometry of the six frustum numbers).  Tolerances are  C * eps_T * (condition of
// the quantity), C >= 8 x the worst ratio observed on the pristine tree (see
// lib/props.d/c16.py for the calibration figures).
#include "c16_common.h"

using namespace c16;

namespace
{
// calibrated constants (worst observed ratio on >= 1e7 pristine cases in brackets)
// (thorough run, 1.5e7..6e7 frusta per sub-check and type)
const LD C_CORNER = 16;  // [1.67]
const LD C_P2S    = 24;  // [1.80]
const LD C_RAY    = 32;  // [2.52]
const LD C_DEPTH  = 32;  // [2.24]
const LD C_RADIUS = 16;  // [1.56]
const LD C_FOV    = 32;  // [1.84; fov before/after modifyNearAndFar is allowed 2*C_FOV, worst 2.75]
const LD C_WINDOW = 16;  // [1.57]

template <class T>
std::string
key (const char* fn, const char* slot)
{
    return std::string (fn) + "." + TN<T>::n () + ":" + slot;
}

template <class T>
V3
gen_point (Rng& r, const FC<T>& fc, bool front_only)
{
    LD sx = r.uniform (-1.5, 1.5), sy = r.uniform (-1.5, 1.5);
    if (r.one_in (8)) sx = r.coin () ? 1 : -1;
    if (r.one_in (8)) sy = r.coin () ? 1 : -1;
    LD d;
    if (fc.ortho)
    {
        d = fc.N + (fc.F - fc.N) * r.uniform (front_only ? 0.0 : -0.5, 1.5);
        if (front_only && fc.negnear) d = fc.N + (fc.F - fc.N) * r.uniform (0, 1.5);
    }
    else
    {
        switch (r.range (0, 2))
        {
            case 0: d = (fc.N / 4) * powl (16 * fc.F / fc.N, r.uniform ()); break; // log-uniform in [N/4, 4F]
            case 1: d = depth_of_zndc (fc, (LD) r.uniform (-1, 1)); break;
            default: d = fc.N + (fc.F - fc.N) * r.uniform (); break;
        }
    }
    return from_screen (fc, sx, sy, d);
}

// ------------------------------------------------------------------ projectionMatrix: corners -> cube
template <class T>
void
sub_corners (Ctx& c, uint64_t idx)
{
    Rng   r = c.rng (idx);
    FC<T> fc;
    if (!gen_frustum (r, idx, fc)) { c.cls ("skipped_degenerate"); return; }
    count_classes (c, fc);
    c.nontrivial (fc.hash ());
    Frustum<T>  fr = fc.fr ();
    LD          eps = eps_of<T>::value;
    LD          k[3] = {1 + fc.kx (), 1 + fc.ky (), 1 + fc.kz ()};
    static const char* const ax[3] = {"x", "y", "z"};
    // both spellings of the projection matrix: projectionMatrix() and, when it returns, projectionMatrixExc()
    for (int variant = 0; variant < 2; ++variant)
    {
    Matrix44<T> M;
    const char* fname = variant ? "projectionMatrixExc" : "projectionMatrix";
    if (variant == 0) M = fr.projectionMatrix ();
    else
    {
        try { M = fr.projectionMatrixExc (); c.cls ("projectionMatrixExc_returned"); }
        catch (const std::exception&) { c.cls ("projectionMatrixExc_threw"); continue; }
    }
    for (int ci = 0; ci < 8; ++ci)
    {
        int ix = ci & 1, iy = (ci >> 1) & 1, iz = (ci >> 2) & 1;
        V3  p = corner (fc, ix, iy, iz);
        LD  o[4];
        for (int j = 0; j < 4; ++j) o[j] = p.x * M[0][j] + p.y * M[1][j] + p.z * M[2][j] + (LD) M[3][j];
        c.eval ();
        if (!(o[3] > 0))
        {
            c.fail (key<T> (fname, "corner_w_not_positive"), idx, [&] { return Obj ().raw ("frustum", fc.js ()).kv ("corner", ci).kv ("w", o[3]).str (); });
            continue;
        }
        LD want[3] = {ix ? 1.0L : -1.0L, iy ? 1.0L : -1.0L, iz ? 1.0L : -1.0L};
        for (int a = 0; a < 3; ++a)
        {
            LD got = o[a] / o[3], ratio = fabsl (got - want[a]) / (eps * k[a]);
            c.worst (a == 2 ? "projectionMatrix.corner_z.ratio" : "projectionMatrix.corner_xy.ratio", (double) ratio, idx, [&] { return fc.js (); });
            if (!(ratio <= C_CORNER))
                c.fail (key<T> (fname, (std::string ("corner_") + ax[a] + (fc.ortho ? "_orthographic" : "_perspective")).c_str ()), idx, [&] {
                    return Obj ().raw ("frustum", fc.js ()).kv ("corner", ci).kv ("axis", ax[a]).kv ("got_ndc", got).kv ("want_ndc", want[a]).kv ("tol", C_CORNER * eps * k[a]).str ();
                });
        }
    }
    }
    if (idx % 64 < 2) c.sample (fc.ortho ? "orthographic" : "perspective", [&] { return fc.js (); });
}

// ------------------------------------------------------------------ projectPointToScreen
template <class T>
void
sub_p2s (Ctx& c, uint64_t idx)
{
    Rng   r = c.rng (idx);
    FC<T> fc;
    if (!gen_frustum (r, idx, fc)) { c.cls ("skipped_degenerate"); return; }
    count_classes (c, fc);
    Frustum<T>  fr = fc.fr ();
    Matrix44<T> M  = fr.projectionMatrix ();
    LD          eps = eps_of<T>::value;
    for (int q = 0; q < 4; ++q)
    {
        Vec3<T> pT = toT<T> (gen_point (r, fc, true));
        V3      p  = toV3 (pT);
        if (!fc.ortho && !(p.z < 0)) { c.cls ("skipped_behind_camera"); continue; }
        c.eval ();
        c.nontrivial (hash_combine (fc.hash (), hash_combine (d2u ((double) pT.x), hash_combine (d2u ((double) pT.y), d2u ((double) pT.z)))));
        Vec2<T> s = fr.projectPointToScreen (pT);
        V3      want = ndc_of (fc, p);
        LD      xl = fc.ortho ? p.x : p.x * fc.N / -p.z, yl = fc.ortho ? p.y : p.y * fc.N / -p.z;
        LD      tx = eps * (fabsl (fc.L) + fabsl (fc.R) + 2 * fabsl (xl)) / (fc.R - fc.L);
        LD      ty = eps * (fabsl (fc.B) + fabsl (fc.Tp) + 2 * fabsl (yl)) / (fc.Tp - fc.B);
        LD      o[4];
        for (int j = 0; j < 4; ++j) o[j] = p.x * M[0][j] + p.y * M[1][j] + p.z * M[2][j] + (LD) M[3][j];
        LD ra = std::max (fabsl (s.x - want.x) / tx, fabsl (s.y - want.y) / ty);
        LD rm = std::max (fabsl (s.x - o[0] / o[3]) / tx, fabsl (s.y - o[1] / o[3]) / ty);
        c.worst ("projectPointToScreen.vs_analytic.ratio", (double) ra, idx, [&] { return fc.js (); });
        c.worst ("projectPointToScreen.vs_matrix.ratio", (double) rm, idx, [&] { return fc.js (); });
        auto desc = [&] {
            return Obj ().raw ("frustum", fc.js ()).kv ("px", (double) pT.x).kv ("py", (double) pT.y).kv ("pz", (double) pT.z)
                .kv ("got_x", (double) s.x).kv ("got_y", (double) s.y).kv ("analytic_x", want.x).kv ("analytic_y", want.y)
                .kv ("matrix_x", o[0] / o[3]).kv ("matrix_y", o[1] / o[3]).kv ("tol_x", C_P2S * tx).kv ("tol_y", C_P2S * ty).str ();
        };
        if (!(ra <= C_P2S)) c.fail (key<T> ("projectPointToScreen", fc.ortho ? "vs_analytic_orthographic" : "vs_analytic_perspective"), idx, desc);
        if (!(rm <= C_P2S)) c.fail (key<T> ("projectPointToScreen", fc.ortho ? "vs_matrix_orthographic" : "vs_matrix_perspective"), idx, desc);
    }
}

// ------------------------------------------------------------------ projectScreenToRay
template <class T>
void
sub_ray (Ctx& c, uint64_t idx)
{
    Rng   r = c.rng (idx);
    FC<T> fc;
    if (!gen_frustum (r, idx, fc)) { c.cls ("skipped_degenerate"); return; }
    count_classes (c, fc);
    Frustum<T> fr = fc.fr ();
    LD         eps = eps_of<T>::value;
    for (int q = 0; q < 2; ++q)
    {
        T sxT = (T) r.uniform (-1.5, 1.5), syT = (T) r.uniform (-1.5, 1.5);
        if (r.one_in (6)) sxT = (T) (r.range (-1, 1));
        if (r.one_in (6)) syT = (T) (r.range (-1, 1));
        LD       sx = sxT, sy = syT;
        Line3<T> ray = fr.projectScreenToRay (Vec2<T> (sxT, syT));
        V3       pos = toV3 (ray.pos), dir = toV3 (ray.dir);
        c.nontrivial (hash_combine (fc.hash (), hash_combine (d2u ((double) sxT), d2u ((double) syT))));
        if (!(dir.z < 0))
        {
            c.eval ();
            c.fail (key<T> ("projectScreenToRay", "direction_not_forward"), idx, [&] { return Obj ().raw ("frustum", fc.js ()).kv ("sx", sx).kv ("sy", sy).kv ("dir_z", dir.z).str (); });
            continue;
        }
        LD xl = fc.L + (fc.R - fc.L) * (1 + sx) / 2, yl = fc.B + (fc.Tp - fc.B) * (1 + sy) / 2;
        LD tx = eps * (fabsl (fc.L) + fabsl (fc.R) + 2 * fabsl (xl)) / (fc.R - fc.L);
        LD ty = eps * (fabsl (fc.B) + fabsl (fc.Tp) + 2 * fabsl (yl)) / (fc.Tp - fc.B);
        LD wsum = fabsl (fc.L) + fabsl (fc.R) + fabsl (fc.B) + fabsl (fc.Tp);
        for (int j = 0; j < 3; ++j)
        {
            LD d;
            if (fc.ortho) d = fc.N + (fc.F - fc.N) * r.uniform (-0.5, 1.5);
            else d = j == 0 ? fc.N + (fc.F - fc.N) * (LD) r.uniform () : (fc.N / 4) * powl (16 * fc.F / fc.N, r.uniform ());
            c.eval ();
            // (a) a point of the returned ray projects to s
            LD t  = (-d - pos.z) / dir.z;
            V3 p  = pos + dir * t;
            V3 sc = ndc_of (fc, p);
            LD ra = std::max (fabsl (sc.x - sx) / tx, fabsl (sc.y - sy) / ty);
            c.worst ("projectScreenToRay.point_of_ray_projects_to_s.ratio", (double) ra, idx, [&] { return fc.js (); });
            if (!(ra <= C_RAY))
                c.fail (key<T> ("projectScreenToRay", fc.ortho ? "ray_point_projects_elsewhere_orthographic" : "ray_point_projects_elsewhere_perspective"), idx, [&] {
                    return Obj ().raw ("frustum", fc.js ()).kv ("sx", sx).kv ("sy", sy).kv ("depth", d).kv ("proj_x", sc.x).kv ("proj_y", sc.y).kv ("tol_x", C_RAY * tx).kv ("tol_y", C_RAY * ty).str ();
                });
            // (b) the point that projects to s at depth d lies on the ray
            V3 pt   = from_screen (fc, sx, sy, d);
            LD dist = norm (cross (pt - pos, dir)) / norm (dir);
            LD tol  = fc.ortho ? eps * wsum : eps * (norm (pt - pos) * (wsum + fc.N) / norm (V3{xl, yl, fc.N}) + norm (pos));
            LD rb   = dist / tol;
            c.worst ("projectScreenToRay.preimage_on_ray.ratio", (double) rb, idx, [&] { return fc.js (); });
            if (!(rb <= C_RAY))
                c.fail (key<T> ("projectScreenToRay", fc.ortho ? "preimage_off_ray_orthographic" : "preimage_off_ray_perspective"), idx, [&] {
                    return Obj ().raw ("frustum", fc.js ()).kv ("sx", sx).kv ("sy", sy).kv ("depth", d).kv ("distance_to_ray", dist).kv ("tol", C_RAY * tol).str ();
                });
        }
    }
}

// ------------------------------------------------------------------ depth mapping
template <class T>
void
sub_depth (Ctx& c, uint64_t idx)
{
    Rng   r = c.rng (idx);
    FC<T> fc;
    if (!gen_frustum (r, idx, fc)) { c.cls ("skipped_degenerate"); return; }
    count_classes (c, fc);
    Frustum<T>  fr = fc.fr ();
    Matrix44<T> M  = fr.projectionMatrix ();
    LD          eps = eps_of<T>::value, kz = 1 + fc.kz ();
    const char* kind = fc.ortho ? "orthographic" : "perspective";
    auto zndc = [&] (LD depth) { return ndc_of (fc, V3{0, 0, depth}).z; };

    // normalizedZToDepth against the analytic depth and against the matrix
    {
        T zv = (T) r.uniform ();
        int sp = (int) r.range (0, 9);
        if (sp == 0) zv = 0;
        if (sp == 1) zv = 1;
        if (sp == 2) zv = (T) 0.5;
        T  dep = fr.normalizedZToDepth (zv);
        LD Zp  = 2 * (LD) zv - 1;
        c.eval ();
        c.cls (sp == 0 ? "z_at_near" : sp == 1 ? "z_at_far" : "z_between");
        c.nontrivial (hash_combine (fc.hash (), d2u ((double) zv)));
        if (!(dep <= 0 || fc.negnear) || std::isnan ((double) dep))
            c.fail (key<T> ("normalizedZToDepth", "not_a_negative_camera_z"), idx, [&] { return Obj ().raw ("frustum", fc.js ()).kv ("zval", (double) zv).kv ("got", (double) dep).str (); });
        else
        {
            LD ra = fabsl (zndc (dep) - Zp) / (eps * kz);
            c.worst ("normalizedZToDepth.vs_analytic.ratio", (double) ra, idx, [&] { return fc.js (); });
            if (!(ra <= C_DEPTH))
                c.fail (key<T> ("normalizedZToDepth", (std::string ("vs_analytic_") + kind).c_str ()), idx, [&] {
                    return Obj ().raw ("frustum", fc.js ()).kv ("zval", (double) zv).kv ("got_depth", (double) dep).kv ("want_depth", -depth_of_zndc (fc, Zp)).kv ("ndc_of_got", zndc (dep)).kv ("want_ndc", Zp).str ();
                });
            if (std::isfinite ((double) dep))
            {
                LD zm = ((LD) dep * M[2][2] + M[3][2]) / ((LD) dep * M[2][3] + M[3][3]);
                LD rm = fabsl (zm - Zp) / (eps * kz);
                c.worst ("normalizedZToDepth.vs_matrix.ratio", (double) rm, idx, [&] { return fc.js (); });
                if (!(rm <= C_DEPTH))
                    c.fail (key<T> ("normalizedZToDepth", (std::string ("vs_matrix_") + kind).c_str ()), idx, [&] {
                        return Obj ().raw ("frustum", fc.js ()).kv ("zval", (double) zv).kv ("got_depth", (double) dep).kv ("matrix_ndc_of_got", zm).kv ("want_ndc", Zp).str ();
                    });
            }
            else c.cls ("depth_infinite");
        }
    }
    // integer z ranges
    static const long ZR[6][2] = {{0, 255}, {0, 65535}, {0, 16777215}, {-1073741824L, 1073741823L}, {0, 2147483647L}, {0, 4294967295L}};
    int        zi = (int) ((idx >> 8) % 6);
    long       zmin = ZR[zi][0], zmax = ZR[zi][1], zdiff = zmax - zmin;
    static const char* const zn[6] = {"zrange_8bit", "zrange_16bit", "zrange_24bit", "zrange_signed_31bit", "zrange_31bit", "zrange_32bit"};
    c.cls (zn[zi]);
    // zmax - zmin >= 2^31 (a 32-bit depth buffer): ZToDepth keeps the difference in an `int`.  Failures of
    // ZToDepth on that range get one key of their own; DepthToZ is judged as on every other range.
    const bool  r32 = zi == 5;
    auto zkey = [&] (const char* slot) { return r32 ? key<T> ("ZToDepth", "zrange_32bit_zdiff_truncated_to_int") : key<T> ("ZToDepth", (std::string (slot) + kind).c_str ()); };
    {
        long z = r.range (zmin, zmax);
        int  sp = (int) r.range (0, 9);
        if (sp == 0) z = zmin;
        if (sp == 1) z = zmax;
        if (sp == 2) z = zmin + 1;
        T  dep = fr.ZToDepth (z, zmin, zmax);
        LD Zp  = 2 * (LD) (z - zmin) / zdiff - 1;
        c.eval ();
        if (std::isnan ((double) dep) || (dep == 0 && !fc.ortho))
            c.fail (r32 ? zkey ("") : key<T> ("ZToDepth", "nan_or_zero"), idx, [&] { return Obj ().raw ("frustum", fc.js ()).kv ("z", z).kv ("zmin", zmin).kv ("zmax", zmax).kv ("got", (double) dep).str (); });
        else
        {
            LD ra = fabsl (zndc (dep) - Zp) / (eps * kz);
            c.worst ("ZToDepth.vs_analytic.ratio", (double) ra, idx, [&] { return fc.js (); });
            if (!(ra <= C_DEPTH))
                c.fail (zkey ("vs_analytic_"), idx, [&] {
                    return Obj ().raw ("frustum", fc.js ()).kv ("z", z).kv ("zmin", zmin).kv ("zmax", zmax).kv ("got_depth", (double) dep).kv ("want_depth", -depth_of_zndc (fc, Zp)).kv ("ndc_of_got", zndc (dep)).kv ("want_ndc", Zp).str ();
                });
            if (std::isfinite ((double) dep) && ra <= C_DEPTH) // (a wrong depth would only be reported twice, and may not fit a long)
            {
                long z2 = fr.DepthToZ (dep, zmin, zmax);
                LD   slack = C_DEPTH * eps * kz * zdiff;
                LD   over = fabsl ((LD) (z2 - z)) - 1;
                c.eval ();
                c.worst ("DepthToZ(ZToDepth(z)).excess_units_over_1.per_eps_kz_zdiff", (double) (over > 0 ? over / (eps * kz * zdiff) : 0), idx, [&] { return fc.js (); });
                if (!(over <= slack))
                    c.fail (key<T> ("DepthToZ", (std::string ("roundtrip_z_") + kind).c_str ()), idx, [&] {
                        return Obj ().raw ("frustum", fc.js ()).kv ("z", z).kv ("zmin", zmin).kv ("zmax", zmax).kv ("depth", (double) dep).kv ("z_back", z2).kv ("allowed", (double) (1 + slack)).str ();
                    });
            }
        }
    }
    // depth -> z -> depth within one quantum (in normalised z)
    {
        LD d = r.coin () ? fc.N + (fc.F - fc.N) * (LD) r.uniform () : (fc.ortho ? fc.N + (fc.F - fc.N) * (LD) r.uniform () : fc.N * powl (fc.F / fc.N, r.uniform ()));
        T  dT = (T) (-d);
        if (!(-(LD) dT >= fc.N && -(LD) dT <= fc.F) || (dT == 0 && !fc.ortho)) { c.cls ("skipped_depth_rounds_outside"); return; }
        long z = fr.DepthToZ (dT, zmin, zmax);
        LD   e = 1 + C_DEPTH * eps * kz * zdiff;
        c.eval ();
        if (!((LD) z >= zmin - e && (LD) z <= zmax + e))
        {
            c.fail (key<T> ("DepthToZ", (std::string ("out_of_range_") + kind).c_str ()), idx, [&] { return Obj ().raw ("frustum", fc.js ()).kv ("depth", (double) dT).kv ("zmin", zmin).kv ("zmax", zmax).kv ("z", z).str (); });
            return;
        }
        LD zexp = (zndc (dT) + 1) / 2 * zdiff + zmin;
        LD rz   = (fabsl (z - zexp) - 1) / (eps * kz * zdiff);
        c.worst ("DepthToZ.vs_analytic.excess_units_over_1.per_eps_kz_zdiff", (double) (rz > 0 ? rz : 0), idx, [&] { return fc.js (); });
        if (!(rz <= C_DEPTH))
            c.fail (key<T> ("DepthToZ", (std::string ("vs_analytic_") + kind).c_str ()), idx, [&] { return Obj ().raw ("frustum", fc.js ()).kv ("depth", (double) dT).kv ("zmin", zmin).kv ("zmax", zmax).kv ("z", z).kv ("want_z_real", zexp).str (); });
        if (z < zmin || z > zmax) return;
        T  d2 = fr.ZToDepth (z, zmin, zmax);
        LD dn = fabsl (zndc (d2) - zndc (dT));
        LD rq = (dn - 2.0L / zdiff) / (eps * kz);
        c.eval ();
        c.worst ("ZToDepth(DepthToZ(d)).excess_over_one_quantum.per_eps_kz", (double) (rq > 0 ? rq : 0), idx, [&] { return fc.js (); });
        if (!(rq <= C_DEPTH))
            c.fail (zkey ("roundtrip_depth_"), idx, [&] {
                return Obj ().raw ("frustum", fc.js ()).kv ("depth", (double) dT).kv ("zmin", zmin).kv ("zmax", zmax).kv ("z", z).kv ("depth_back", (double) d2).kv ("ndc_diff", dn).kv ("quantum", 2.0 / (double) zdiff).str ();
            });
    }
}

// ------------------------------------------------------------------ screenRadius / worldRadius
template <class T>
void
sub_radius (Ctx& c, uint64_t idx)
{
    Rng   r = c.rng (idx);
    FC<T> fc;
    if (!gen_frustum (r, idx, fc)) { c.cls ("skipped_degenerate"); return; }
    count_classes (c, fc);
    Frustum<T> fr = fc.fr ();
    LD         eps = eps_of<T>::value;
    for (int q = 0; q < 4; ++q)
    {
        Vec3<T> pT = toT<T> (gen_point (r, fc, true));
        if (pT.z == 0) { c.cls ("skipped_z_zero"); continue; }
        T  rad = (T) (std::fabs ((double) pT.z) * std::pow (10.0, r.uniform (-3, 1)));
        T  sr = fr.screenRadius (pT, rad), wr = fr.worldRadius (pT, rad);
        if (!std::isfinite ((double) sr) || !std::isfinite ((double) wr) || sr == 0 || wr == 0) { c.cls ("skipped_overflow"); continue; }
        T  back1 = fr.worldRadius (pT, sr), back2 = fr.screenRadius (pT, wr);
        c.eval ();
        c.nontrivial (hash_combine (fc.hash (), hash_combine (d2u ((double) pT.z), d2u ((double) rad))));
        LD r1 = fabsl ((LD) back1 - rad) / (eps * rad), r2 = fabsl ((LD) back2 - rad) / (eps * rad);
        c.worst ("worldRadius(screenRadius).ratio", (double) r1, idx, [&] { return fc.js (); });
        c.worst ("screenRadius(worldRadius).ratio", (double) r2, idx, [&] { return fc.js (); });
        auto desc = [&] {
            return Obj ().raw ("frustum", fc.js ()).kv ("pz", (double) pT.z).kv ("radius", (double) rad).kv ("screenRadius", (double) sr).kv ("worldRadius", (double) wr)
                .kv ("worldRadius_of_screenRadius", (double) back1).kv ("screenRadius_of_worldRadius", (double) back2).str ();
        };
        if (!(r1 <= C_RADIUS)) c.fail (key<T> ("worldRadius", "not_inverse_of_screenRadius"), idx, desc);
        if (!(r2 <= C_RADIUS)) c.fail (key<T> ("screenRadius", "not_inverse_of_worldRadius"), idx, desc);
        if (!fc.ortho)
        {
            // consistency with the projection: a segment of length rad at depth d spans rad*near/d on the near window
            LD want = (LD) rad * fc.N / -(LD) pT.z;
            LD r3   = fabsl (sr - want) / (eps * fabsl (want));
            c.worst ("screenRadius.vs_projection.ratio", (double) r3, idx, [&] { return fc.js (); });
            if (!(r3 <= C_RADIUS)) c.fail (key<T> ("screenRadius", "vs_projection_perspective"), idx, desc);
        }
    }
}

// ------------------------------------------------------------------ fovx/fovy/aspect, set(fov,aspect), modifyNearAndFar
template <class T>
void
sub_fov (Ctx& c, uint64_t idx)
{
    Rng   r = c.rng (idx);
    FC<T> fc;
    if (!gen_frustum (r, idx, fc)) { c.cls ("skipped_degenerate"); return; }
    count_classes (c, fc);
    c.nontrivial (fc.hash ());
    LD eps = eps_of<T>::value;
    Frustum<T> fr = fc.fr ();
    // aspect (both kinds)
    {
        LD want = (fc.R - fc.L) / (fc.Tp - fc.B), ra = fabsl (fr.aspect () - want) / (eps * want);
        c.eval ();
        c.worst ("aspect.ratio", (double) ra, idx, [&] { return fc.js (); });
        if (!(ra <= C_FOV)) c.fail (key<T> ("aspect", "value"), idx, [&] { return Obj ().raw ("frustum", fc.js ()).kv ("got", (double) fr.aspect ()).kv ("want", want).str (); });
    }
    auto check_fov = [&] (const Frustum<T>& g, LD L, LD R, LD B, LD Tp, LD N, const char* what) {
        LD ax = atanl (R / N), bx = atanl (L / N), ay = atanl (Tp / N), by = atanl (B / N);
        LD rx = fabsl (g.fovx () - (ax - bx)) / (eps * (fabsl (ax) + fabsl (bx)));
        LD ry = fabsl (g.fovy () - (ay - by)) / (eps * (fabsl (ay) + fabsl (by)));
        c.eval (2);
        c.worst ("fovx_fovy.ratio", (double) std::max (rx, ry), idx, [&] { return fc.js (); });
        if (!(rx <= C_FOV)) c.fail (key<T> ("fovx", what), idx, [&] { return Obj ().raw ("frustum", fc.js ()).kv ("got", (double) g.fovx ()).kv ("want", ax - bx).str (); });
        if (!(ry <= C_FOV)) c.fail (key<T> ("fovy", what), idx, [&] { return Obj ().raw ("frustum", fc.js ()).kv ("got", (double) g.fovy ()).kv ("want", ay - by).str (); });
    };
    if (!fc.ortho) check_fov (fr, fc.L, fc.R, fc.B, fc.Tp, fc.N, "vs_window_angles");

    // modifyNearAndFar
    {
        T n2 = (T) std::pow (10.0, r.uniform (-3, 3));
        if (fc.negnear && r.coin ()) n2 = -n2;
        T f2 = (T) ((double) n2 + std::fabs ((double) n2) * (std::pow (10.0, r.uniform (0.02, 8)) - 1));
        if (!(n2 < f2)) { c.cls ("skipped_degenerate"); return; }
        Frustum<T> g = fr;
        g.modifyNearAndFar (n2, f2);
        c.eval ();
        c.cls (fc.ortho ? "modify_orthographic" : "modify_perspective");
        auto desc = [&] {
            return Obj ().raw ("frustum", fc.js ()).kv ("new_near", (double) n2).kv ("new_far", (double) f2).kv ("near", (double) g.nearPlane ()).kv ("far", (double) g.farPlane ())
                .kv ("left", (double) g.left ()).kv ("right", (double) g.right ()).kv ("top", (double) g.top ()).kv ("bottom", (double) g.bottom ()).kv ("ortho", g.orthographic ()).str ();
        };
        if (g.nearPlane () != n2 || g.farPlane () != f2 || g.orthographic () != fc.ortho) c.fail (key<T> ("modifyNearAndFar", "near_far_not_stored"), idx, desc);
        if (fc.ortho)
        {
            if (g.left () != fc.l || g.right () != fc.r || g.top () != fc.t || g.bottom () != fc.b) c.fail (key<T> ("modifyNearAndFar", "orthographic_window_changed"), idx, desc);
        }
        else
        {
            LD s = (LD) n2 / fc.N;
            LD got[4] = {(LD) g.left (), (LD) g.right (), (LD) g.top (), (LD) g.bottom ()}, want[4] = {fc.L * s, fc.R * s, fc.Tp * s, fc.B * s};
            LD rw = 0;
            for (int i = 0; i < 4; ++i)
            {
                LD e = fabsl (got[i] - want[i]);
                rw = std::max (rw, want[i] == 0 ? (e == 0 ? 0.0L : HUGE_VALL) : e / (eps * fabsl (want[i])));
            }
            c.worst ("modifyNearAndFar.window_scaling.ratio", (double) rw, idx, [&] { return fc.js (); });
            if (!(rw <= C_FOV)) c.fail (key<T> ("modifyNearAndFar", "perspective_field_of_view_changed"), idx, desc);
            // the library's own fovx/fovy before and after
            LD ax = atanl (fc.R / fc.N), bx = atanl (fc.L / fc.N), ay = atanl (fc.Tp / fc.N), by = atanl (fc.B / fc.N);
            LD rx = fabsl ((LD) g.fovx () - fr.fovx ()) / (eps * (fabsl (ax) + fabsl (bx))), ry = fabsl ((LD) g.fovy () - fr.fovy ()) / (eps * (fabsl (ay) + fabsl (by)));
            c.worst ("modifyNearAndFar.fov_before_after.ratio", (double) std::max (rx, ry), idx, [&] { return fc.js (); });
            if (!(rx <= 2 * C_FOV && ry <= 2 * C_FOV)) c.fail (key<T> ("modifyNearAndFar", "fovx_fovy_not_kept"), idx, desc);
        }
    }

    // set(near, far, fovx, fovy, aspect)
    {
        bool usex = (idx >> 6) & 1;
        LD   fov = r.coin () ? r.uniform (0.01, 3.1) : std::pow (10.0, r.uniform (-3, 0));
        T    fovT = (T) fov, aspT = (T) std::pow (10.0, r.uniform (-1, 1));
        Frustum<T> g;
        T ns = fc.n > 0 ? fc.n : -fc.n;
        g.set (ns, (T) (ns * 2), usex ? fovT : T (0), usex ? T (0) : fovT, aspT);
        T  nn = g.nearPlane ();
        LD x = (LD) fovT / 2, t = tanl (x), a = aspT;
        LD cond = 1 + (1 + t * t) * x / t;
        LD other = usex ? 2 * atanl (t / a) : 2 * atanl (t * a);
        LD gx = g.fovx (), gy = g.fovy ();
        LD r_given = fabsl ((usex ? gx : gy) - fovT) / (eps * cond * fovT);
        LD r_other = fabsl ((usex ? gy : gx) - other) / (eps * cond * other);
        LD r_asp   = fabsl (g.aspect () - a) / (eps * a);
        c.eval (3);
        c.cls (usex ? "set_fovx" : "set_fovy");
        c.worst ("set(fov,aspect).given_fov.ratio", (double) r_given, idx, [&] { return Obj ().kv ("fov", (double) fovT).kv ("aspect", (double) aspT).str (); });
        c.worst ("set(fov,aspect).other_fov.ratio", (double) r_other, idx, [&] { return Obj ().kv ("fov", (double) fovT).kv ("aspect", (double) aspT).str (); });
        c.worst ("set(fov,aspect).aspect.ratio", (double) r_asp, idx, [&] { return Obj ().kv ("fov", (double) fovT).kv ("aspect", (double) aspT).str (); });
        auto desc = [&] {
            return Obj ().kv ("near", (double) nn).kv ("far", (double) g.farPlane ()).kv ("fovx_arg", usex ? (double) fovT : 0.0).kv ("fovy_arg", usex ? 0.0 : (double) fovT).kv ("aspect_arg", (double) aspT)
                .kv ("fovx", (double) gx).kv ("fovy", (double) gy).kv ("aspect", (double) g.aspect ()).kv ("want_other_fov", other)
                .kv ("left", (double) g.left ()).kv ("right", (double) g.right ()).kv ("top", (double) g.top ()).kv ("bottom", (double) g.bottom ()).str ();
        };
        if (!(r_given <= C_FOV)) c.fail (key<T> ("set", usex ? "fovx_not_reproduced" : "fovy_not_reproduced"), idx, desc);
        if (!(r_other <= C_FOV)) c.fail (key<T> ("set", usex ? "fovy_from_fovx_and_aspect" : "fovx_from_fovy_and_aspect"), idx, desc);
        if (!(r_asp <= C_FOV)) c.fail (key<T> ("set", usex ? "aspect_not_reproduced_fovx_form" : "aspect_not_reproduced_fovy_form"), idx, desc);
        if (g.left () != -g.right () || g.bottom () != -g.top () || g.orthographic () || !(g.right () > 0) || !(g.top () > 0))
            c.fail (key<T> ("set", "window_not_symmetric_perspective"), idx, desc);
    }
}

// ------------------------------------------------------------------ window
template <class T>
void
sub_window (Ctx& c, uint64_t idx)
{
    Rng   r = c.rng (idx);
    FC<T> fc;
    if (!gen_frustum (r, idx, fc)) { c.cls ("skipped_degenerate"); return; }
    count_classes (c, fc);
    Frustum<T> fr = fc.fr ();
    LD         eps = eps_of<T>::value;
    double a = r.uniform (-1, 1), b = r.uniform (-1, 1), p = r.uniform (-1, 1), q = r.uniform (-1, 1);
    T ls = (T) std::min (a, b), rs = (T) std::max (a, b), bs = (T) std::min (p, q), ts = (T) std::max (p, q);
    int sp = (int) r.range (0, 7);
    if (sp == 0) { ls = -1; rs = 1; bs = -1; ts = 1; }
    if (sp == 1) { ls = -1; bs = -1; }
    if (sp == 2) { rs = 1; ts = 1; }
    if (!(ls < rs && bs < ts)) { c.cls ("skipped_degenerate"); return; }
    Frustum<T> g = fr.window (ls, rs, ts, bs);
    c.eval ();
    c.cls (sp == 0 ? "full_window" : "sub_window");
    c.nontrivial (hash_combine (fc.hash (), hash_combine (d2u ((double) ls), hash_combine (d2u ((double) rs), hash_combine (d2u ((double) bs), d2u ((double) ts))))));
    auto scr_x = [&] (LD x) { return (2 * x - (fc.L + fc.R)) / (fc.R - fc.L); };
    auto scr_y = [&] (LD y) { return (2 * y - (fc.B + fc.Tp)) / (fc.Tp - fc.B); };
    LD got[4] = {scr_x (g.left ()), scr_x (g.right ()), scr_y (g.top ()), scr_y (g.bottom ())}, want[4] = {(LD) ls, (LD) rs, (LD) ts, (LD) bs};
    LD k[4] = {1 + fc.kx (), 1 + fc.kx (), 1 + fc.ky (), 1 + fc.ky ()};
    static const char* const nm[4] = {"left", "right", "top", "bottom"};
    auto desc = [&] {
        return Obj ().raw ("frustum", fc.js ()).kv ("l", (double) ls).kv ("r", (double) rs).kv ("t", (double) ts).kv ("b", (double) bs)
            .kv ("new_left", (double) g.left ()).kv ("new_right", (double) g.right ()).kv ("new_top", (double) g.top ()).kv ("new_bottom", (double) g.bottom ())
            .kv ("new_near", (double) g.nearPlane ()).kv ("new_far", (double) g.farPlane ()).kv ("new_ortho", g.orthographic ()).str ();
    };
    for (int i = 0; i < 4; ++i)
    {
        LD ra = fabsl (got[i] - want[i]) / (eps * k[i]);
        c.worst ("window.edge_screen_position.ratio", (double) ra, idx, [&] { return fc.js (); });
        if (!(ra <= C_WINDOW)) c.fail (key<T> ("window", (std::string (nm[i]) + "_edge").c_str ()), idx, desc);
    }
    if (g.nearPlane () != fc.n || g.farPlane () != fc.f || g.orthographic () != fc.ortho) c.fail (key<T> ("window", "near_far_kind_not_kept"), idx, desc);
}

#define REQF {C16_FRUSTUM_CLASSES}
} // namespace

MON_SUB_IDX (sub_corners<float>, "projection_corners_float", 1000000, 30000000).req (REQF).over ("random frusta (kind x 8 near/far decades x 4 window kinds by index); the 8 analytic corners times projectionMatrix() must be the corners of [-1,1]^3");
MON_SUB_IDX (sub_corners<double>, "projection_corners_double", 1000000, 30000000).req (REQF).over ("as projection_corners_float, double");
MON_SUB_IDX (sub_p2s<float>, "point_to_screen_float", 1000000, 30000000).req (REQF).over ("random frusta x 4 points in and around the frustum: projectPointToScreen vs analytic screen position and vs xy of p*projectionMatrix");
MON_SUB_IDX (sub_p2s<double>, "point_to_screen_double", 1000000, 30000000).req (REQF).over ("as point_to_screen_float, double");
MON_SUB_IDX (sub_ray<float>, "screen_to_ray_float", 1000000, 30000000).req (REQF).over ("random frusta x 2 screen positions in [-1.5,1.5]^2 x 3 depths: points of the ray project to s; the analytic pre-image of s lies on the ray");
MON_SUB_IDX (sub_ray<double>, "screen_to_ray_double", 1000000, 30000000).req (REQF).over ("as screen_to_ray_float, double");
MON_SUB_IDX (sub_depth<float>, "depth_float", 2000000, 60000000).req ({C16_FRUSTUM_CLASSES, "z_at_near", "z_at_far", "zrange_8bit", "zrange_16bit", "zrange_24bit", "zrange_signed_31bit", "zrange_31bit", "zrange_32bit"}).over ("random frusta: normalizedZToDepth vs analytic/matrix depth; ZToDepth on 6 integer z ranges (8..32 bit); DepthToZ(ZToDepth(z)) within 1 unit; ZToDepth(DepthToZ(d)) within one quantum");
MON_SUB_IDX (sub_depth<double>, "depth_double", 2000000, 60000000).req ({C16_FRUSTUM_CLASSES, "z_at_near", "z_at_far", "zrange_8bit", "zrange_16bit", "zrange_24bit", "zrange_signed_31bit", "zrange_31bit", "zrange_32bit"}).over ("as depth_float, double");
MON_SUB_IDX (sub_radius<float>, "radius_float", 500000, 15000000).req (REQF).over ("random frusta x 4 (point, radius): worldRadius(screenRadius(r)) = r = screenRadius(worldRadius(r)); perspective: screenRadius = r*near/depth");
MON_SUB_IDX (sub_radius<double>, "radius_double", 500000, 15000000).req (REQF).over ("as radius_float, double");
MON_SUB_IDX (sub_fov<float>, "fov_set_modify_float", 1000000, 30000000).req ({C16_FRUSTUM_CLASSES, "set_fovx", "set_fovy", "modify_orthographic", "modify_perspective"}).over ("random frusta: fovx/fovy/aspect vs window angles; set(near,far,fovx|fovy,aspect) reproduces its arguments; modifyNearAndFar keeps the field of view (perspective) / the window (orthographic)");
MON_SUB_IDX (sub_fov<double>, "fov_set_modify_double", 1000000, 30000000).req ({C16_FRUSTUM_CLASSES, "set_fovx", "set_fovy", "modify_orthographic", "modify_perspective"}).over ("as fov_set_modify_float, double");
MON_SUB_IDX (sub_window<float>, "window_float", 1000000, 30000000).req ({C16_FRUSTUM_CLASSES, "full_window", "sub_window"}).over ("random frusta x random screen rectangle: the edges of window(l,r,t,b) sit at screen positions l,r,t,b of the original frustum; near/far/kind kept");
MON_SUB_IDX (sub_window<double>, "window_double", 1000000, 30000000).req ({C16_FRUSTUM_CLASSES, "full_window", "sub_window"}).over ("as window_float, double");

// ------------------------------------------------------------------ the ...Exc spellings
// Every relation above is judged on the noexcept spelling.  The throwing spellings are separate copies of the code; whenever one
// of them returns, its value must be the noexcept twin's bit for bit (so that it satisfies the same relations).  Added after the
// seeded changes C16-6, C16-7, C16-8, which were confined to projectionMatrixExc / projectPointToScreenExc / ZToDepthExc.
template <class T>
void
sub_exc_spellings (Ctx& c, uint64_t idx)
{
    Rng   r = c.rng (idx);
    FC<T> fc;
    if (!gen_frustum (r, idx, fc)) { c.cls ("skipped_degenerate"); return; }
    count_classes (c, fc);
    Frustum<T> fr = fc.fr ();
    c.nontrivial (hash_combine (fc.hash (), idx));
    auto same = [] (T a, T b) { return (a != a && b != b) || std::memcmp (&a, &b, sizeof (T)) == 0; };
    auto fail = [&] (const char* fn, const char* what, double got, double want) {
        c.fail (key<T> (fn, what), idx, [&] { return Obj ().raw ("frustum", fc.js ()).kv ("exc_spelling", got).kv ("noexcept_spelling", want).str (); });
    };
    for (int q = 0; q < 3; ++q)
    {
        Vec3<T> p = toT<T> (gen_point (r, fc, true));
        if (!fc.ortho && !(p.z < 0)) { c.cls ("skipped_behind_camera"); continue; }
        c.eval ();
        // projectPointToScreen
        try
        {
            Vec2<T> a = fr.projectPointToScreenExc (p), b = fr.projectPointToScreen (p);
            c.cls ("projectPointToScreenExc_returned");
            if (!same (a.x, b.x) || !same (a.y, b.y)) fail ("projectPointToScreenExc", fc.ortho ? "differs_orthographic" : "differs_perspective", (double) a.x, (double) b.x);
        }
        catch (const std::exception&) { c.cls ("projectPointToScreenExc_threw"); }
        // screenRadius / worldRadius
        T rad = (T) r.logscale (-3, 1);
        try { T a = fr.screenRadiusExc (p, rad), b = fr.screenRadius (p, rad); c.cls ("screenRadiusExc_returned"); if (!same (a, b)) fail ("screenRadiusExc", "differs", (double) a, (double) b); }
        catch (const std::exception&) { c.cls ("screenRadiusExc_threw"); }
        try { T a = fr.worldRadiusExc (p, rad), b = fr.worldRadius (p, rad); c.cls ("worldRadiusExc_returned"); if (!same (a, b)) fail ("worldRadiusExc", "differs", (double) a, (double) b); }
        catch (const std::exception&) { c.cls ("worldRadiusExc_threw"); }
        // depth mapping: normalised z, integer z (interior, ends, ranges with a non-zero minimum) and back
        T nz = (T) r.uniform (-1, 1);
        try { T a = fr.normalizedZToDepthExc (nz), b = fr.normalizedZToDepth (nz); c.cls ("normalizedZToDepthExc_returned"); if (!same (a, b)) fail ("normalizedZToDepthExc", "differs", (double) a, (double) b); }
        catch (const std::exception&) { c.cls ("normalizedZToDepthExc_threw"); }
        static const long ZR[4][2] = {{0, 255}, {0, 65535}, {1, 100}, {-32768, 32767}};
        const long* zr = ZR[(idx + q) % 4];
        long        zv = q == 0 ? zr[0] : q == 1 ? zr[1] : zr[0] + (long) r.range (1, zr[1] - zr[0] - 1);
        c.cls (zv == zr[0] || zv == zr[1] ? "integer_z_at_an_end" : "integer_z_interior");
        try
        {
            T a = fr.ZToDepthExc (zv, zr[0], zr[1]), b = fr.ZToDepth (zv, zr[0], zr[1]);
            c.cls ("ZToDepthExc_returned");
            if (!same (a, b)) fail ("ZToDepthExc", zv == zr[0] || zv == zr[1] ? "differs_at_an_end" : "differs_interior", (double) a, (double) b);
            long za = fr.DepthToZExc (b, zr[0], zr[1]), zb = fr.DepthToZ (b, zr[0], zr[1]);
            c.cls ("DepthToZExc_returned");
            if (za != zb) fail ("DepthToZExc", "differs", (double) za, (double) zb);
        }
        catch (const std::exception&) { c.cls ("ZToDepthExc_or_DepthToZExc_threw"); }
    }
    try { T a = fr.aspectExc (), b = fr.aspect (); c.cls ("aspectExc_returned"); if (!same (a, b)) fail ("aspectExc", "differs", (double) a, (double) b); }
    catch (const std::exception&) { c.cls ("aspectExc_threw"); }
}
#define EXC_REQ {C16_FRUSTUM_CLASSES, "projectPointToScreenExc_returned", "screenRadiusExc_returned", "worldRadiusExc_returned", "normalizedZToDepthExc_returned", "ZToDepthExc_returned", "DepthToZExc_returned", "aspectExc_returned", "integer_z_interior", "integer_z_at_an_end"}
MON_SUB_IDX (sub_exc_spellings<float>, "exc_spellings_float", 300000, 10000000).req (EXC_REQ).over ("random frusta x 3 points / depths: each ...Exc spelling that returns equals its noexcept twin bit for bit (projectPointToScreen, screenRadius, worldRadius, normalizedZToDepth, ZToDepth incl. interior integer z and ranges with a non-zero minimum, DepthToZ, aspect)");
MON_SUB_IDX (sub_exc_spellings<double>, "exc_spellings_double", 300000, 10000000).req (EXC_REQ).over ("as exc_spellings_float, double");
