// C08 - shared machinery of the length()/normalisation monitor:
// reference arithmetic, the class-directed vector generator, local counters.
//
// Oracle: the textbook Euclidean norm sqrt(sum_i v_i^2), written as a loop over
// indices and evaluated in `long double` (float inputs) / `__float128` (double
// inputs).  Both reference types have a 15 bit exponent, so the square of every
// finite double (|exponent| <= 2148) is far inside their range and the squares of
// float / double inputs are exact (48 <= 64, 106 <= 113 significand bits): the
// reference needs no scaling to avoid under/overflow of its own.
#pragma once
#include "mon.h"
#include <ImathVec.h>
#include <limits>
#include <quadmath.h>
#include <stdexcept>

namespace c08
{
using namespace mon;
using namespace IMATH_NAMESPACE;

// ------------------------------------------------------------------ vector types by dimension
template <class T, int N> struct VecOf;
template <class T> struct VecOf<T, 2>
{
    typedef Vec2<T> type;
    static type make (const T* a) { return type (a[0], a[1]); }
};
template <class T> struct VecOf<T, 3>
{
    typedef Vec3<T> type;
    static type make (const T* a) { return type (a[0], a[1], a[2]); }
};
template <class T> struct VecOf<T, 4>
{
    typedef Vec4<T> type;
    static type make (const T* a) { return type (a[0], a[1], a[2], a[3]); }
};

// ------------------------------------------------------------------ per-type constants + reference arithmetic
template <class T> struct FP;
template <> struct FP<float>
{
    typedef long double R;
    static constexpr int P = 24, EMIN = -126, ESUB = -149, ECMAX = 62; // m*2^ECMAX < sqrt(max)/2 for m in [1,2)
    static const char*   tag () { return "f"; }
    static R             sqrtR (R x) { return sqrtl (x); }
    static R             absR (R x) { return fabsl (x); }
    static int           ilogbR (R x) { return ilogbl (x); }
    static R             pow2R (int e) { return ldexpl (1.0L, e); }
    static std::string   hex (float x) { return hex32 (f2u (x)); }
    static uint64_t      bits (float x) { return f2u (x); }
};
template <> struct FP<double>
{
    typedef __float128 R;
    static constexpr int P = 53, EMIN = -1022, ESUB = -1074, ECMAX = 510;
    static const char*   tag () { return "d"; }
    static R             sqrtR (R x) { return sqrtq (x); }
    static R             absR (R x) { return fabsq (x); }
    static int           ilogbR (R x) { return ilogbq (x); }
    static R             pow2R (int e) { return scalbnq ((__float128) 1, e); }
    static std::string   hex (double x) { return hex64 (d2u (x)); }
    static uint64_t      bits (double x) { return d2u (x); }
};

// largest T with c <= sqrt(max)/2 (the property's quantifier): sqrt(max) = 2^(E/2) * sqrt(1 - 2^-P)
// lies strictly between prev(2^(E/2)) and 2^(E/2), so the bound is prev(2^(E/2)) / 2 = prev(2^(ECMAX+1)).
template <class T> inline T
cmax ()
{
    return std::nextafter (std::ldexp (T (1), FP<T>::ECMAX + 1), T (0));
}

// Euclidean norm in the reference precision (loop over indices; squares exact).
template <class T, int N> inline typename FP<T>::R
normR (const T* a)
{
    typedef typename FP<T>::R R;
    R s = 0;
    for (int i = 0; i < N; ++i)
    {
        R x = (R) a[i];
        s += x * x;
    }
    return FP<T>::sqrtR (s);
}

// |got - ref| in units of the spacing of T at ref (spacing of the subnormal grid below min).
template <class T> inline double
err_ulps (T got, typename FP<T>::R ref)
{
    typedef typename FP<T>::R R;
    int e = ref > 0 ? FP<T>::ilogbR (ref) : FP<T>::EMIN;
    if (e < FP<T>::EMIN) e = FP<T>::EMIN;
    R ulp = FP<T>::pow2R (e - (FP<T>::P - 1));
    return (double) (FP<T>::absR ((R) got - ref) / ulp);
}

template <class T, int N> inline bool
all_zero (const T* a)
{
    for (int i = 0; i < N; ++i)
        if (a[i] != T (0)) return false;
    return true;
}

template <class T, int N> inline uint64_t
hash_vec (const T* a)
{
    uint64_t h = 0x9E3779B97F4A7C15ull * (uint64_t) (N + 8 * sizeof (T));
    for (int i = 0; i < N; ++i) h = hash_combine (h, FP<T>::bits (a[i]));
    return h;
}

template <class T, int N> inline std::string
vec_json (const T* a)
{
    std::string s = "[";
    for (int i = 0; i < N; ++i)
    {
        if (i) s += ",";
        s += jnum ((double) a[i]);
    }
    s += "]";
    return s;
}
template <class T, int N> inline std::string
vec_hex (const T* a)
{
    std::string s;
    for (int i = 0; i < N; ++i)
    {
        if (i) s += " ";
        s += FP<T>::hex (a[i]);
    }
    return s;
}

inline std::string
tname (const char* fn, int n, const char* tag)
{
    return std::string (fn) + ".Vec" + std::to_string (n) + tag;
}

// ------------------------------------------------------------------ input classes
enum Cls
{
    K_EXP_SWEEP = 0,       // all components m_i * 2^e, common e swept over the whole range
    K_MIXED,               // leading exponent swept, others 2^0..2^-60 below it
    K_SINGLE,              // one non-zero component, the others +-0
    K_THRESHOLD,           // |v|^2 densely around 2*min (and min), both sides; exact hits
    K_SUBNORMAL,           // every component subnormal (k * denorm_min), incl. k = 1..4
    K_UPPER,               // components at / just below sqrt(max)/2
    K_INDEPENDENT,         // independent exponents over the whole range, some zeros
    K_HALF_RANGE,          // exponents where squares go normal -> subnormal -> 0
    K_NGEN,
    // derived (observed, not chosen)
    K_TINY_PATH = K_NGEN,  // dot < 2*min  (library takes lengthTiny)
    K_SQRT_PATH,           // dot >= 2*min
    K_THR_BELOW,           // threshold class, dot < 2*min
    K_THR_ABOVE,           // threshold class, dot > 2*min
    K_THR_EXACT,           // threshold class, dot == 2*min exactly
    K_MIN_SUBNORMAL,       // some component is +-denorm_min
    K_SIGNED_ZERO,         // some component is -0
    K_POS_ZERO,            // some component is +0
    K_NEG_COMPONENT,       // some component negative and non-zero
    K_NORM_NORMAL,         // reference norm is a normal number (normalisation judged for accuracy)
    K_NORM_SUBNORMAL,      // reference norm below min: only "never NaN/inf" judged for the normalize family
    K_SQ_UNDERFLOW,        // some non-zero component's square is below min (underflows / subnormal)
    K_EXP_LOWEST,          // exponent sweep reached the smallest subnormal binade
    K_EXP_HIGHEST,         // exponent sweep reached the top binade below sqrt(max)/2
    K_AT_UPPER_LIMIT,      // every component exactly +-prev(sqrt(max))/2
    K_N
};
static const char* const cls_name[K_N] = {
    "exp_sweep", "mixed_magnitude", "single_nonzero", "threshold_2min", "all_subnormal", "upper_limit", "independent_exponents",
    "half_range_squares_underflow", "lengthTiny_path", "sqrt_path", "threshold_below", "threshold_above", "threshold_exact",
    "min_subnormal_component", "negative_zero_component", "positive_zero_component", "negative_component", "norm_normal",
    "norm_subnormal_only_finiteness_judged", "square_underflows", "exponent_lowest", "exponent_highest", "all_at_upper_limit"};

struct Counts
{
    uint64_t n[K_N] = {};
    void     flush (Ctx& c)
    {
        for (int i = 0; i < K_N; ++i)
            if (n[i]) c.cls (cls_name[i], n[i]);
    }
};

// ------------------------------------------------------------------ generator
template <class T> inline T
rnd_mant (Rng& r) // m in [1,2), exactly representable
{
    uint64_t k = r.u64 () >> (64 - (FP<T>::P - 1));
    return T (1) + std::ldexp ((T) k, -(FP<T>::P - 1));
}
template <class T> inline T
pm (Rng& r, int e) // +-m * 2^e (rounded onto the subnormal grid when e < EMIN)
{
    T v = std::ldexp (rnd_mant<T> (r), e);
    return r.coin () ? v : -v;
}
template <class T> inline T
szero (Rng& r)
{
    return r.coin () ? T (0) : -T (0);
}

// A case is a pure function of (rng stream, idx).  dim is chosen by the caller as 2 + idx % 3;
// class = (idx / 3) % K_NGEN; j = idx / (3*K_NGEN) drives the deterministic sweeps.
template <class T, int N> inline int
gen (Rng& r, uint64_t idx, T* v, Counts& k)
{
    typedef FP<T> F;
    const int      span = F::ECMAX - F::ESUB + 1;
    const int      cls  = (int) ((idx / 3) % K_NGEN);
    const uint64_t j    = idx / (3 * K_NGEN);
    const T        CM   = cmax<T> ();
    switch (cls)
    {
        case K_EXP_SWEEP: {
            int e = F::ESUB + (int) (j % (uint64_t) span);
            for (int i = 0; i < N; ++i) v[i] = pm<T> (r, e);
            if (e == F::ESUB) k.n[K_EXP_LOWEST]++;
            if (e == F::ECMAX) k.n[K_EXP_HIGHEST]++;
            break;
        }
        case K_MIXED: {
            int e    = F::ESUB + (int) (j % (uint64_t) span);
            int lead = (int) r.range (0, N - 1);
            // ratio of the j-th case: sweeps 0..60 deterministically for one other slot, random for the rest
            for (int i = 0; i < N; ++i)
            {
                int rr = (i == (lead + 1) % N) ? (int) ((j / (uint64_t) span) % 61) : (int) r.range (0, 60);
                int ei = (i == lead) ? e : std::max (e - rr, (int) F::ESUB);
                v[i]   = pm<T> (r, ei);
            }
            break;
        }
        case K_SINGLE: {
            int e   = F::ESUB + (int) (j % (uint64_t) span);
            int pos = (int) ((j / (uint64_t) span) % N);
            for (int i = 0; i < N; ++i) v[i] = szero<T> (r);
            T x = std::ldexp (rnd_mant<T> (r), e);
            if ((j / ((uint64_t) span * N)) % 4 == 3) x = std::ldexp (T (1), e); // exact powers of two as well
            v[pos] = r.coin () ? -x : x;
            break;
        }
        case K_THRESHOLD: {
            unsigned var = (unsigned) (j % 8);
            if (var == 2)
            {
                // |v|^2 == 2*min exactly: two slots +-2^(EMIN/2), the rest +-0; neighbours one ulp off
                int p = (int) r.range (0, N - 1), q = (int) r.range (0, N - 2);
                if (q >= p) ++q;
                for (int i = 0; i < N; ++i) v[i] = szero<T> (r);
                T h = std::ldexp (T (1), F::EMIN / 2);
                unsigned w = (unsigned) ((j / 8) % 4);
                v[p] = r.coin () ? h : -h;
                v[q] = r.coin () ? h : -h;
                if (w == 1) v[q] = std::copysign (std::nextafter (h, T (0)), v[q]);
                if (w == 2) v[q] = std::copysign (std::nextafter (h, T (1)), v[q]);
                break;
            }
            long double u[N], s = 0;
            for (int i = 0; i < N; ++i)
            {
                u[i] = r.sym ();
                // sparse directions too: drop a slot now and then (never all)
                if (i > 0 && r.one_in (6)) u[i] = 0;
                s += u[i] * u[i];
            }
            if (s == 0) { u[0] = 1; s = 1; }
            s = sqrtl (s);
            long double target;
            if (var == 1 || var == 5) target = ldexpl (1.0L, F::EMIN - 3) * powl (2.0L, (long double) r.uniform (0.0, 7.0)); // [min/8, 16 min)
            else if (var == 3) target = ldexpl (1.0L, F::EMIN);                                                               // around min
            else target = ldexpl (1.0L, F::EMIN + 1);                                                                        // around 2*min
            int         kk    = (int) r.range (1, F::P + 2);
            long double delta = (var == 1 || var == 5) ? 0.0L : (long double) r.sym () * ldexpl (1.0L, -kk);
            long double lt    = sqrtl (target * (1.0L + delta));
            for (int i = 0; i < N; ++i) v[i] = (T) (u[i] / s * lt);
            break;
        }
        case K_SUBNORMAL: {
            const T  dm  = std::numeric_limits<T>::denorm_min ();
            unsigned var = (unsigned) (j % 3);
            bool     any = false;
            for (int i = 0; i < N; ++i)
            {
                uint64_t m;
                if (var == 0) m = (uint64_t) r.range (0, 4);                    // 0..4 quanta: ulp = whole quantum
                else
                {
                    int bl = (int) r.range (1, F::P - 1);                       // bit length 1..P-1
                    m      = (r.u64 () >> (64 - bl)) | (1ull << (bl - 1));
                }
                T x  = (T) m * dm; // exact: m < 2^(P-1)
                v[i] = r.coin () ? x : -x;
                any |= m != 0;
            }
            if (!any) v[(int) (j % N)] = (j & 8) ? dm : -dm;
            break;
        }
        case K_UPPER: {
            unsigned var = (unsigned) (j % 4);
            for (int i = 0; i < N; ++i)
            {
                T x;
                if (var == 0) x = CM;                                                        // exactly at the limit
                else if (var == 1)
                {
                    double f  = r.uniform ();
                    int    sh = (int) r.range (0, F::P);
                    x         = CM * (T (1) - (T) std::ldexp (f, -sh)); // just below the limit
                }
                else x = std::ldexp (rnd_mant<T> (r), F::ECMAX - (int) r.range (0, var == 2 ? 2 : 30));
                v[i] = r.coin () ? x : -x;
            }
            if (var == 0) k.n[K_AT_UPPER_LIMIT]++;
            break;
        }
        case K_INDEPENDENT: {
            bool any = false;
            for (int i = 0; i < N; ++i)
            {
                if (r.one_in (8)) v[i] = szero<T> (r);
                else { v[i] = pm<T> (r, (int) r.range (F::ESUB, F::ECMAX)); }
                any |= v[i] != T (0);
            }
            if (!any) v[(int) (j % N)] = pm<T> (r, (int) r.range (F::ESUB, F::ECMAX));
            break;
        }
        default: /* K_HALF_RANGE */ {
            // squares are normal for e >= EMIN/2, subnormal for ESUB/2 <= e < EMIN/2, zero below
            int lo = F::ESUB / 2 - 14, hi = F::EMIN / 2 + 14;
            int e  = lo + (int) (j % (uint64_t) (hi - lo + 1));
            for (int i = 0; i < N; ++i) v[i] = pm<T> (r, e - (int) r.range (0, 12));
            break;
        }
    }
    // the quantifier: |component| <= sqrt(max)/2
    for (int i = 0; i < N; ++i)
        if (std::fabs (v[i]) > CM) v[i] = std::copysign (CM, v[i]);
    k.n[cls]++;

    // derived classes
    const T dm = std::numeric_limits<T>::denorm_min (), mn = std::numeric_limits<T>::min ();
    bool    nz = false, pz = false, ms = false, ng = false, uf = false;
    for (int i = 0; i < N; ++i)
    {
        if (v[i] == T (0)) (std::signbit (v[i]) ? nz : pz) = true;
        else
        {
            if (std::fabs (v[i]) == dm) ms = true;
            if (v[i] < 0) ng = true;
            if (v[i] * v[i] < mn) uf = true;
        }
    }
    if (nz) k.n[K_SIGNED_ZERO]++;
    if (pz) k.n[K_POS_ZERO]++;
    if (ms) k.n[K_MIN_SUBNORMAL]++;
    if (ng) k.n[K_NEG_COMPONENT]++;
    if (uf) k.n[K_SQ_UNDERFLOW]++;
    return cls;
}

// which branch of length() the library takes, inferred from its own dot product
// (the anchored mechanism: dot < 2*min -> lengthTiny); also counts the threshold sides.
template <class T, int N> inline bool
path_classes (const T* a, int cls, Counts& k)
{
    typename VecOf<T, N>::type v = VecOf<T, N>::make (a);
    const T two_min = T (2) * std::numeric_limits<T>::min ();
    T       d       = v.dot (v);
    bool    tiny    = d < two_min;
    k.n[tiny ? K_TINY_PATH : K_SQRT_PATH]++;
    if (cls == K_THRESHOLD) k.n[d < two_min ? K_THR_BELOW : d > two_min ? K_THR_ABOVE : K_THR_EXACT]++;
    return tiny;
}

// classes every sub-check that uses gen() must have seen
#define C08_REQ_CLASSES                                                                                                          \
    {                                                                                                                            \
        "exp_sweep", "mixed_magnitude", "single_nonzero", "threshold_2min", "all_subnormal", "upper_limit",                      \
            "independent_exponents", "half_range_squares_underflow", "lengthTiny_path", "sqrt_path", "threshold_below",         \
            "threshold_above", "threshold_exact", "min_subnormal_component", "negative_zero_component",                         \
            "positive_zero_component", "negative_component", "square_underflows", "exponent_lowest", "exponent_highest",        \
            "all_at_upper_limit"                                                                                                 \
    }

} // namespace c08
