// C04 - stream output: the components in declaration order inside ONE pair of
// parentheses as whitespace-separated tokens; vectors, colours, shears and
// quaternions on one line with single spaces, matrices one row per line; for
// non-character element types tokenising the text yields exactly one token per
// component, equal to that component's own printed form.
//
// Oracle: for the one-line types the expected text is rebuilt from every
// component streamed ALONE into a fresh stream carrying the same flags and
// precision (string equality per token, and of the whole line).  For matrices
// (the operator switches the stream to scientific/showpoint itself and pads
// with setw) every token is parsed with strtold and must agree with x[i][j] to
// the stream's precision: |tok - x| <= 4*10^-p*|x| (scientific) or 4*10^-p
// (fixed) - 8 times the worst error of a correctly rounded decimal conversion
// (half a unit of the last printed digit, which is also the worst ratio
// observed), and far smaller than the difference between two slots (values per
// slot differ by >= 13 %, p >= 2) - and the stream's flags/precision must be
// what they were.  unsigned char elements stream as characters: only the
// structure "(c c c)" is checked for them.
#include "c04_common.h"

using namespace c04;

namespace
{

struct Fmt
{
    std::ios_base::fmtflags flags;
    int                     prec;
    const char*             name;
};

inline void set_fmt (std::ostream& os, const Fmt& f)
{
    os.flags (f.flags);
    os.precision (f.prec);
}

// flag sets for the one-line types
static const std::ios_base::fmtflags DEF = std::ios_base::dec | std::ios_base::skipws;
static const Fmt LINE_FMTS[] = {
    {DEF, 6, "default"},
    {DEF | std::ios_base::fixed, 3, "fixed.3"},
    {DEF | std::ios_base::scientific, 9, "scientific.9"},
    {DEF | std::ios_base::showpos, 6, "showpos"},
    {DEF | std::ios_base::showpoint, 4, "showpoint.4"},
    {DEF | std::ios_base::scientific | std::ios_base::uppercase, 2, "scientific.uppercase.2"},
    {DEF, 17, "default.17"},
    {DEF, 1, "default.1"},
    {(DEF & ~std::ios_base::dec) | std::ios_base::hex | std::ios_base::showbase, 6, "hex.showbase"},
    {(DEF & ~std::ios_base::dec) | std::ios_base::oct, 6, "oct"},
    {DEF | std::ios_base::fixed, 0, "fixed.0"},
    {DEF | std::ios_base::fixed | std::ios_base::scientific, 6, "hexfloat"},
};
static const int N_LINE_FMTS = (int) (sizeof LINE_FMTS / sizeof LINE_FMTS[0]);

// values: class = (idx / N_LINE_FMTS) % K
template <class T> typename std::enable_if<is_fp_t<T>::value, const char*>::type
gen_text_values (Rng& r, uint64_t k, int N, T* a)
{
    PrimePick pp (r);
    for (int i = 0; i < N; ++i) { int p = pp ((unsigned) i); a[i] = cvt<T> (r.coin () ? p : -p); }
    switch (k % 6)
    {
        case 0: return "primes";
        case 1: for (int i = 0; i < N; ++i) a[i] = cvt<T> (std::ldexp ((double) (float) a[i] + 0.25 * (double) (r.u64 () % 4), (int) r.range (-3, 3))); return "primes_scaled";
        case 2: for (int i = 0; i < N; ++i) if (r.one_in (2)) a[i] = fp_zero<T> (r.coin ()); a[k / 6 % N] = fp_zero<T> (r.coin ()); return "signed_zero";
        case 3: for (int i = 0; i < N; ++i) if (r.one_in (2)) a[i] = fp_extreme<T> (r); a[k / 6 % N] = fp_extreme<T> (r); return "extreme";
        case 4: for (int i = 0; i < N; ++i) if (r.one_in (2)) a[i] = r.coin () ? fp_inf<T> (r.coin ()) : fp_nan<T> (r); a[k / 6 % N] = r.coin () ? fp_inf<T> (r.coin ()) : fp_nan<T> (r); return "inf_nan";
        default: for (int i = 0; i < N; ++i) a[i] = fp_random_bits<T> (r); return "random_bits";
    }
}
template <class T> typename std::enable_if<!is_fp_t<T>::value, const char*>::type
gen_text_values (Rng& r, uint64_t k, int N, T* a)
{
    typedef std::numeric_limits<T> L;
    constexpr bool sg = std::is_signed<T>::value;
    PrimePick pp (r);
    for (int i = 0; i < N; ++i) { int p = pp ((unsigned) i); a[i] = T ((sg && r.coin ()) ? -p : p); }
    switch (k % 4)
    {
        case 0: return "primes";
        case 1: for (int i = 0; i < N; ++i) if (r.one_in (2)) a[i] = T (0); a[k / 4 % N] = T (0); return "zero";
        case 2: for (int i = 0; i < N; ++i) if (r.one_in (2)) a[i] = r.coin () ? L::max () : L::min (); a[k / 4 % N] = r.coin () ? L::max () : L::min (); return "extreme";
        default: for (int i = 0; i < N; ++i) a[i] = T (r.u64 ()); return "random_bits"; // modular conversion: every bit pattern of T
    }
}

inline std::vector<std::string> tokenise (const std::string& s)
{
    std::vector<std::string> t;
    size_t i = 0;
    while (i < s.size ())
    {
        while (i < s.size () && std::isspace ((unsigned char) s[i])) ++i;
        size_t j = i;
        while (j < s.size () && !std::isspace ((unsigned char) s[j])) ++j;
        if (j > i) t.push_back (s.substr (i, j - i));
        i = j;
    }
    return t;
}
inline size_t count_ch (const std::string& s, char ch) { return (size_t) std::count (s.begin (), s.end (), ch); }

// ---------------------------------------------------------------- one-line types
template <class V> void run_text_line (Ctx& c, uint64_t idx)
{
    typedef typename Tr<V>::E T;
    constexpr int  N       = Tr<V>::N;
    constexpr bool is_char = std::is_same<T, uchar>::value;
    Rng r = c.rng (idx);
    const Fmt& f = LINE_FMTS[idx % N_LINE_FMTS];
    T          a[N];
    const char* cls = gen_text_values<T> (r, idx / N_LINE_FMTS, N, a);
    const V     v   = make<V> (a);
    std::ostringstream os;
    set_fmt (os, f);
    os << v;
    const std::string got = os.str ();
    c.eval ();
    c.cls (cls);
    c.cls (std::string ("fmt_") + f.name);
    c.nontrivial (hash_combine (hash_vals (5, a, N), idx % N_LINE_FMTS));
    const std::string tn = Tr<V>::name ();
    auto d = [&] { return Obj ().kv ("format", f.name).raw ("values", sarr (a, N)).kv ("text", got).str (); };
    if (idx < (uint64_t) N_LINE_FMTS) c.sample (f.name, d);
    if (!os.good ()) c.fail ("operator<<." + tn + ":stream_state", idx, d);

    if (is_char)
    {
        // characters: "(c c c)" - N bytes at the odd positions, single spaces between, one pair of parentheses around
        bool ok = got.size () == (size_t) (2 * N + 1) && got[0] == '(' && got[got.size () - 1] == ')';
        for (int i = 1; ok && i < N; ++i) ok = got[(size_t) (2 * i)] == ' ';
        if (!ok) { c.fail ("operator<<." + tn + ":structure", idx, d); return; }
        for (int i = 0; i < N; ++i)
            if ((unsigned char) got[(size_t) (2 * i + 1)] != (unsigned char) bits_of (a[i])) c.fail ("operator<<." + tn + ":" + Tr<V>::slot (i), idx, d);
        return;
    }

    // the component's own printed form
    std::string own[N], want = "(";
    for (int i = 0; i < N; ++i)
    {
        std::ostringstream o1;
        set_fmt (o1, f);
        o1 << a[i];
        own[i] = o1.str ();
        if (i) want += " ";
        want += own[i];
    }
    want += ")";
    if (got.empty () || got[0] != '(' || got[got.size () - 1] != ')' || count_ch (got, '(') != 1 || count_ch (got, ')') != 1)
    {
        c.fail ("operator<<." + tn + ":parentheses", idx, d);
        return;
    }
    const std::vector<std::string> tok = tokenise (got.substr (1, got.size () - 2));
    if (tok.size () != (size_t) N)
    {
        c.fail ("operator<<." + tn + ":token_count", idx, [&] { return Obj ().kv ("format", f.name).raw ("values", sarr (a, N)).kv ("text", got).kv ("tokens", (unsigned long) tok.size ()).kv ("want", N).str (); });
        return;
    }
    for (int i = 0; i < N; ++i)
        if (tok[(size_t) i] != own[i])
            c.fail ("operator<<." + tn + ":" + Tr<V>::slot (i), idx, [&] { return Obj ().kv ("format", f.name).raw ("values", sarr (a, N)).kv ("text", got).kv ("token", tok[(size_t) i]).kv ("own_form", own[i]).str (); });
    if (got != want) // one line, single spaces
        c.fail ("operator<<." + tn + ":separators", idx, [&] { return Obj ().kv ("format", f.name).kv ("text", got).kv ("want", want).str (); });
}

// ---------------------------------------------------------------- matrices
static const Fmt MAT_FMTS[] = {
    {DEF, 6, "default"},
    {DEF | std::ios_base::fixed, 6, "fixed"},
    {DEF | std::ios_base::scientific, 6, "scientific"},
    {DEF, 2, "default.2"},
    {DEF | std::ios_base::fixed, 2, "fixed.2"},
    {DEF, 3, "default.3"},
    {DEF | std::ios_base::fixed, 9, "fixed.9"},
    {DEF, 9, "default.9"},
    {DEF | std::ios_base::scientific, 12, "scientific.12"},
    {DEF, 17, "default.17"},
    {DEF | std::ios_base::fixed, 17, "fixed.17"},
    {DEF | std::ios_base::showpos, 6, "showpos"},
    {DEF | std::ios_base::fixed | std::ios_base::showpos | std::ios_base::uppercase, 4, "fixed.showpos.4"},
};
static const int N_MAT_FMTS = (int) (sizeof MAT_FMTS / sizeof MAT_FMTS[0]);
static const int SMALL_PRIMES[17] = {2, 3, 5, 7, 11, 13, 17, 23, 29, 37, 43, 53, 61, 71, 83, 97, 113}; // any two differ by >= 13 %

template <class V> void run_text_matrix (Ctx& c, uint64_t idx)
{
    typedef typename Tr<V>::E T;
    constexpr int N = Tr<V>::N, D = Tr<V>::DIM;
    Rng r = c.rng (idx);
    const Fmt& f     = MAT_FMTS[idx % N_MAT_FMTS];
    const bool fixed = (f.flags & std::ios_base::fixed) != 0;
    T          a[N];
    const char* cls;
    const uint64_t k = idx / N_MAT_FMTS;
    if (k % 3 != 2)
    {
        // distinct values per slot, any two differ by >= 13 %: a slot mix-up is far outside the tolerance (<= 4 %)
        unsigned start = (unsigned) (r.u64 () % 17), step = 1 + (unsigned) (r.u64 () % 16); // 17 is prime: every step visits 17 distinct entries
        double scale = (fixed || k % 3 == 0) ? 1.0 : std::pow (10.0, (double) r.range (-20, 20));
        for (int i = 0; i < N; ++i)
        {
            double p = SMALL_PRIMES[(start + (unsigned) i * step) % 17] * (1.0 + 0.001 * r.uniform ());
            a[i]     = T ((r.coin () ? p : -p) * scale);
        }
        cls = (k % 3 == 0) ? "primes" : "primes_scaled";
    }
    else
        cls = gen_text_values<T> (r, k / 3, N, a);
    const V m = make<V> (a);
    std::ostringstream os;
    set_fmt (os, f);
    const std::ios_base::fmtflags flags_before = os.flags ();
    os << m;
    const std::string got = os.str ();
    c.eval ();
    c.cls (cls);
    c.cls (std::string ("fmt_") + f.name);
    c.nontrivial (hash_combine (hash_vals (6, a, N), idx % N_MAT_FMTS));
    const std::string tn = Tr<V>::name ();
    auto d = [&] { return Obj ().kv ("format", f.name).raw ("values", sarr (a, N)).kv ("text", got).str (); };
    if (idx < (uint64_t) N_MAT_FMTS) c.sample (f.name, d);
    if (!os.good ()) c.fail ("operator<<." + tn + ":stream_state", idx, d);
    if (os.flags () != flags_before || os.precision () != f.prec) c.fail ("operator<<." + tn + ":flags_not_restored", idx, d);

    size_t close = got.find (')');
    if (got.empty () || got[0] != '(' || close == std::string::npos || count_ch (got, '(') != 1 || count_ch (got, ')') != 1 || !tokenise (got.substr (close + 1)).empty ())
    {
        c.fail ("operator<<." + tn + ":parentheses", idx, d);
        return;
    }
    // one row per line
    std::vector<std::string> rows;
    {
        const std::string in = got.substr (1, close - 1);
        size_t            b  = 0;
        for (;;)
        {
            size_t e = in.find ('\n', b);
            rows.push_back (in.substr (b, e == std::string::npos ? std::string::npos : e - b));
            if (e == std::string::npos) break;
            b = e + 1;
        }
    }
    if (rows.size () != (size_t) D)
    {
        c.fail ("operator<<." + tn + ":row_count", idx, [&] { return Obj ().kv ("format", f.name).kv ("text", got).kv ("rows", (unsigned long) rows.size ()).kv ("want", D).str (); });
        return;
    }
    for (int i = 0; i < D; ++i)
    {
        const std::vector<std::string> tok = tokenise (rows[(size_t) i]);
        if (tok.size () != (size_t) D)
        {
            c.fail ("operator<<." + tn + ":token_count.row" + std::to_string (i), idx, [&] { return Obj ().kv ("format", f.name).kv ("text", got).kv ("row", i).kv ("tokens", (unsigned long) tok.size ()).kv ("want", D).str (); });
            continue;
        }
        for (int j = 0; j < D; ++j)
        {
            const std::string& t  = tok[(size_t) j];
            const double       x  = (double) a[i * D + j];
            char*              ep = nullptr;
            // parsed in long double: a printed DBL_MAX rounded up in its last digit ("1.798e+308") is beyond double
            const long double  pv = std::strtold (t.c_str (), &ep);
            bool               ok;
            double             ratio = 0;
            if (ep == t.c_str () || *ep != 0) ok = false;
            else if (std::isnan (x)) ok = std::isnan (pv);
            else if (std::isinf (x)) ok = pv == (long double) x;
            else
            {
                // a correctly rounded conversion is within half a unit of the last printed digit (worst ratio observed on
                // the pristine tree: 1.0 of that half unit, see c.worst); the bound is 8 times that = 4 units
                double unit = std::pow (10.0, -(double) f.prec) * (fixed ? 1.0 : std::fabs (x));
                double tol  = 4.0 * unit + std::fabs (x) * 4.5e-16 + 1e-323; // + the parser's own rounding, + two quanta of the subnormal range
                double err  = (double) fabsl (pv - (long double) x);
                ok          = err <= tol && (std::signbit (pv) == std::signbit (x) || pv == 0);
                ratio       = (unit > 0) ? err / (0.5 * unit + std::fabs (x) * 2.3e-16) : 0;
                if (std::isfinite (ratio)) c.worst (fixed ? "matrix_token.fixed.err_over_half_unit" : "matrix_token.scientific.err_over_half_unit", ratio, idx);
            }
            if (!ok)
                c.fail ("operator<<." + tn + ":" + Tr<V>::slot (i * D + j), idx, [&] { return Obj ().kv ("format", f.name).raw ("values", sarr (a, N)).kv ("text", got).kv ("token", t).kv ("want", sval (a[i * D + j])).str (); });
        }
    }
}

} // namespace

#define C04_TEXT_Q 24000
#define C04_TEXT_T 600000
#define C04_REG_TEXT(V, tag, ...)                                                                                    \
    MON_SUB_IDX (run_text_line<V>, "text_" tag, C04_TEXT_Q, C04_TEXT_T)                                              \
        .req (__VA_ARGS__)                                                                                           \
        .over ("operator<< of " + c04::Tr<V>::name () + " under 12 flag/precision settings (idx mod 12) x value classes: one pair of parentheses, exactly N tokens, token i string-equal to component i streamed alone under the same flags/precision, whole line equal to the single-space join")
#define C04_REG_TEXT_MATRIX(V, tag)                                                                                  \
    MON_SUB_IDX (run_text_matrix<V>, "text_" tag, C04_TEXT_Q, C04_TEXT_T)                                            \
        .req ({"primes", "primes_scaled", "signed_zero", "extreme", "inf_nan", "random_bits", "fmt_default", "fmt_fixed", "fmt_scientific", "fmt_default.17", "fmt_fixed.2"}) \
        .over ("operator<< of " + c04::Tr<V>::name () + " under 13 flag/precision settings (idx mod 13) x value classes: one pair of parentheses, one row per line, N tokens per row, strtold(token(i,j)) equals x[i][j] to 4 units of the last printed digit, stream flags/precision restored")

#define C04_FP_TEXT_CLASSES {"primes", "primes_scaled", "signed_zero", "extreme", "inf_nan", "random_bits", "fmt_default", "fmt_fixed.3", "fmt_scientific.9", "fmt_showpos", "fmt_hexfloat", "fmt_default.17"}
#define C04_INT_TEXT_CLASSES {"primes", "zero", "extreme", "random_bits", "fmt_default", "fmt_showpos", "fmt_hex.showbase", "fmt_oct"}

using namespace IMATH_INTERNAL_NAMESPACE;
typedef unsigned char uchar;

C04_REG_TEXT (Vec2<short>, "Vec2_short", C04_INT_TEXT_CLASSES);
C04_REG_TEXT (Vec2<int>, "Vec2_int", C04_INT_TEXT_CLASSES);
C04_REG_TEXT (Vec2<int64_t>, "Vec2_int64", C04_INT_TEXT_CLASSES);
C04_REG_TEXT (Vec2<half>, "Vec2_half", C04_FP_TEXT_CLASSES);
C04_REG_TEXT (Vec2<float>, "Vec2_float", C04_FP_TEXT_CLASSES);
C04_REG_TEXT (Vec2<double>, "Vec2_double", C04_FP_TEXT_CLASSES);
C04_REG_TEXT (Vec3<short>, "Vec3_short", C04_INT_TEXT_CLASSES);
C04_REG_TEXT (Vec3<int>, "Vec3_int", C04_INT_TEXT_CLASSES);
C04_REG_TEXT (Vec3<int64_t>, "Vec3_int64", C04_INT_TEXT_CLASSES);
C04_REG_TEXT (Vec3<half>, "Vec3_half", C04_FP_TEXT_CLASSES);
C04_REG_TEXT (Vec3<float>, "Vec3_float", C04_FP_TEXT_CLASSES);
C04_REG_TEXT (Vec3<double>, "Vec3_double", C04_FP_TEXT_CLASSES);
C04_REG_TEXT (Vec4<short>, "Vec4_short", C04_INT_TEXT_CLASSES);
C04_REG_TEXT (Vec4<int>, "Vec4_int", C04_INT_TEXT_CLASSES);
C04_REG_TEXT (Vec4<int64_t>, "Vec4_int64", C04_INT_TEXT_CLASSES);
C04_REG_TEXT (Vec4<half>, "Vec4_half", C04_FP_TEXT_CLASSES);
C04_REG_TEXT (Vec4<float>, "Vec4_float", C04_FP_TEXT_CLASSES);
C04_REG_TEXT (Vec4<double>, "Vec4_double", C04_FP_TEXT_CLASSES);
C04_REG_TEXT (Color3<half>, "Color3_half", C04_FP_TEXT_CLASSES);
C04_REG_TEXT (Color3<float>, "Color3_float", C04_FP_TEXT_CLASSES);
C04_REG_TEXT (Color3<uchar>, "Color3_uchar", C04_INT_TEXT_CLASSES);
C04_REG_TEXT (Color4<half>, "Color4_half", C04_FP_TEXT_CLASSES);
C04_REG_TEXT (Color4<float>, "Color4_float", C04_FP_TEXT_CLASSES);
C04_REG_TEXT (Color4<uchar>, "Color4_uchar", C04_INT_TEXT_CLASSES);
C04_REG_TEXT (Shear6<float>, "Shear6_float", C04_FP_TEXT_CLASSES);
C04_REG_TEXT (Shear6<double>, "Shear6_double", C04_FP_TEXT_CLASSES);
C04_REG_TEXT (Quat<float>, "Quat_float", C04_FP_TEXT_CLASSES);
C04_REG_TEXT (Quat<double>, "Quat_double", C04_FP_TEXT_CLASSES);
C04_REG_TEXT_MATRIX (Matrix22<float>, "Matrix22_float");
C04_REG_TEXT_MATRIX (Matrix22<double>, "Matrix22_double");
C04_REG_TEXT_MATRIX (Matrix33<float>, "Matrix33_float");
C04_REG_TEXT_MATRIX (Matrix33<double>, "Matrix33_double");
C04_REG_TEXT_MATRIX (Matrix44<float>, "Matrix44_float");
C04_REG_TEXT_MATRIX (Matrix44<double>, "Matrix44_double");
