// C12 - shared helpers of the three translation units (c12_shrt.cpp,
// c12_svd.cpp, c12_procrustes.cpp): small dense matrices in long double,
// written as loops over indices (no expression copied from the library),
// random orthogonal matrices, a textbook cyclic Jacobi eigenvalue solver used
// as reference, hashing of inputs.
#pragma once
#include "mon.h"
#include <ImathMatrix.h>
#include <ImathVec.h>
#include <limits>
#include <stdexcept>

namespace c12
{
using namespace mon;
typedef long double LD;

template <int N> struct Mat
{
    LD a[N][N];
    LD*       operator[] (int i) { return a[i]; }
    const LD* operator[] (int i) const { return a[i]; }
};

template <int N>
inline Mat<N>
ident ()
{
    Mat<N> m;
    for (int i = 0; i < N; ++i)
        for (int j = 0; j < N; ++j)
            m[i][j] = i == j ? 1.0L : 0.0L;
    return m;
}

template <int N>
inline Mat<N>
zero ()
{
    Mat<N> m;
    for (int i = 0; i < N; ++i)
        for (int j = 0; j < N; ++j)
            m[i][j] = 0.0L;
    return m;
}

template <int N>
inline Mat<N>
mul (const Mat<N>& x, const Mat<N>& y)
{
    Mat<N> m;
    for (int i = 0; i < N; ++i)
        for (int j = 0; j < N; ++j)
        {
            LD s = 0;
            for (int k = 0; k < N; ++k)
                s += x[i][k] * y[k][j];
            m[i][j] = s;
        }
    return m;
}

template <int N>
inline Mat<N>
transpose (const Mat<N>& x)
{
    Mat<N> m;
    for (int i = 0; i < N; ++i)
        for (int j = 0; j < N; ++j)
            m[i][j] = x[j][i];
    return m;
}

template <int N>
inline LD
maxabs (const Mat<N>& x)
{
    LD m = 0;
    for (int i = 0; i < N; ++i)
        for (int j = 0; j < N; ++j)
            m = std::max (m, fabsl (x[i][j]));
    return m;
}

template <int N>
inline bool
all_finite (const Mat<N>& x)
{
    for (int i = 0; i < N; ++i)
        for (int j = 0; j < N; ++j)
            if (!std::isfinite (x[i][j])) return false;
    return true;
}

template <int N>
inline LD
frob (const Mat<N>& x)
{
    LD m = 0;
    for (int i = 0; i < N; ++i)
        for (int j = 0; j < N; ++j)
            m += x[i][j] * x[i][j];
    return sqrtl (m);
}

// determinant by Gaussian elimination with partial pivoting
template <int N>
inline LD
det (Mat<N> x)
{
    LD d = 1;
    for (int c = 0; c < N; ++c)
    {
        int p = c;
        for (int r = c + 1; r < N; ++r)
            if (fabsl (x[r][c]) > fabsl (x[p][c])) p = r;
        if (x[p][c] == 0) return 0;
        if (p != c)
        {
            for (int j = 0; j < N; ++j)
                std::swap (x[p][j], x[c][j]);
            d = -d;
        }
        d *= x[c][c];
        for (int r = c + 1; r < N; ++r)
        {
            LD f = x[r][c] / x[c][c];
            for (int j = c; j < N; ++j)
                x[r][j] -= f * x[c][j];
        }
    }
    return d;
}

// inverse by Gauss-Jordan with partial pivoting; false if a pivot is exactly zero
template <int N>
inline bool
invert (Mat<N> x, Mat<N>& inv)
{
    inv = ident<N> ();
    for (int c = 0; c < N; ++c)
    {
        int p = c;
        for (int r = c + 1; r < N; ++r)
            if (fabsl (x[r][c]) > fabsl (x[p][c])) p = r;
        if (x[p][c] == 0 || !std::isfinite (x[p][c])) return false;
        if (p != c)
            for (int j = 0; j < N; ++j)
            {
                std::swap (x[p][j], x[c][j]);
                std::swap (inv[p][j], inv[c][j]);
            }
        LD d = x[c][c];
        for (int j = 0; j < N; ++j)
        {
            x[c][j] /= d;
            inv[c][j] /= d;
        }
        for (int r = 0; r < N; ++r)
        {
            if (r == c) continue;
            LD f = x[r][c];
            if (f == 0) continue;
            for (int j = 0; j < N; ++j)
            {
                x[r][j] -= f * x[c][j];
                inv[r][j] -= f * inv[c][j];
            }
        }
    }
    return true;
}

// max |X X^T - I|
template <int N>
inline LD
orth_err (const Mat<N>& x)
{
    LD m = 0;
    for (int i = 0; i < N; ++i)
        for (int j = 0; j < N; ++j)
        {
            LD s = 0;
            for (int k = 0; k < N; ++k)
                s += x[i][k] * x[j][k];
            m = std::max (m, fabsl (s - (i == j ? 1.0L : 0.0L)));
        }
    return m;
}

// max |X^T X - I| (columns orthonormal; equal to the above up to rounding for square X)
template <int N>
inline LD
orth_err_cols (const Mat<N>& x)
{
    return orth_err (transpose (x));
}

// condition number estimate ||X||_F ||X^-1||_F of the matrix whose rows have been
// scaled to unit length (row scaling = the "scale" factor of the decomposition, which
// costs no accuracy); +inf for a singular matrix
template <int N>
inline LD
row_equilibrated_cond (const Mat<N>& x)
{
    Mat<N> n;
    for (int i = 0; i < N; ++i)
    {
        LD l = 0;
        for (int j = 0; j < N; ++j)
            l += x[i][j] * x[i][j];
        l = sqrtl (l);
        if (l == 0 || !std::isfinite (l)) return std::numeric_limits<LD>::infinity ();
        for (int j = 0; j < N; ++j)
            n[i][j] = x[i][j] / l;
    }
    Mat<N> inv;
    if (!invert (n, inv)) return std::numeric_limits<LD>::infinity ();
    LD k = frob (n) * frob (inv);
    return std::isfinite (k) ? k : std::numeric_limits<LD>::infinity ();
}

// ---- Imath <-> Mat conversions -------------------------------------------------
template <class T>
inline Mat<4>
toLD (const IMATH_NAMESPACE::Matrix44<T>& m)
{
    Mat<4> r;
    for (int i = 0; i < 4; ++i)
        for (int j = 0; j < 4; ++j)
            r[i][j] = (LD) m[i][j];
    return r;
}
template <class T>
inline Mat<3>
toLD (const IMATH_NAMESPACE::Matrix33<T>& m)
{
    Mat<3> r;
    for (int i = 0; i < 3; ++i)
        for (int j = 0; j < 3; ++j)
            r[i][j] = (LD) m[i][j];
    return r;
}
template <int K, int N>
inline Mat<K>
topleft (const Mat<N>& m)
{
    Mat<K> r;
    for (int i = 0; i < K; ++i)
        for (int j = 0; j < K; ++j)
            r[i][j] = m[i][j];
    return r;
}

template <class T>
inline void
fromLD (const Mat<4>& m, IMATH_NAMESPACE::Matrix44<T>& out)
{
    for (int i = 0; i < 4; ++i)
        for (int j = 0; j < 4; ++j)
            out[i][j] = (T) m[i][j];
}
template <class T>
inline void
fromLD (const Mat<3>& m, IMATH_NAMESPACE::Matrix33<T>& out)
{
    for (int i = 0; i < 3; ++i)
        for (int j = 0; j < 3; ++j)
            out[i][j] = (T) m[i][j];
}

template <class M>
inline bool
same_bits (const M& a, const M& b)
{
    // exact comparison that treats +0 and -0 as equal and is false for NaN
    for (unsigned i = 0; i < M::dimensions (); ++i)
        for (unsigned j = 0; j < M::dimensions (); ++j)
            if (!(a[i][j] == b[i][j])) return false;
    return true;
}

template <class M>
inline uint64_t
hash_mat (const M& a, uint64_t h = 0x12345)
{
    for (unsigned i = 0; i < M::dimensions (); ++i)
        for (unsigned j = 0; j < M::dimensions (); ++j)
            h = hash_combine (h, d2u ((double) a[i][j]));
    return h;
}

template <class M>
inline std::string
mat_json (const M& a)
{
    // row-major literal values, %.17g (round-trips float and double)
    std::string s = "[";
    for (unsigned i = 0; i < M::dimensions (); ++i)
        for (unsigned j = 0; j < M::dimensions (); ++j)
        {
            if (i || j) s += ",";
            s += jnum ((double) a[i][j]);
        }
    return s + "]";
}

template <int N>
inline std::string
mat_json (const Mat<N>& a)
{
    std::string s = "[";
    for (int i = 0; i < N; ++i)
        for (int j = 0; j < N; ++j)
        {
            if (i || j) s += ",";
            s += jnum ((double) a[i][j]);
        }
    return s + "]";
}

// ---- random orthogonal matrices ---------------------------------------------
// rotation from a random unit quaternion (uniform on SO(3)), row-vector convention
inline Mat<3>
quat_rotation (LD w, LD x, LD y, LD z)
{
    LD n = sqrtl (w * w + x * x + y * y + z * z);
    w /= n; x /= n; y /= n; z /= n;
    Mat<3> r;
    r[0][0] = 1 - 2 * (y * y + z * z); r[0][1] = 2 * (x * y + w * z);     r[0][2] = 2 * (x * z - w * y);
    r[1][0] = 2 * (x * y - w * z);     r[1][1] = 1 - 2 * (x * x + z * z); r[1][2] = 2 * (y * z + w * x);
    r[2][0] = 2 * (x * z + w * y);     r[2][1] = 2 * (y * z - w * x);     r[2][2] = 1 - 2 * (x * x + y * y);
    return r;
}

inline Mat<3>
random_rotation3 (Rng& r)
{
    LD w, x, y, z, n;
    do
    {
        w = r.gauss (); x = r.gauss (); y = r.gauss (); z = r.gauss ();
        n = w * w + x * x + y * y + z * z;
    } while (n < 1e-6L);
    return quat_rotation (w, x, y, z);
}

// random orthogonal N x N matrix (Gram-Schmidt, twice, on a Gaussian matrix); det may be +-1
template <int N>
inline Mat<N>
random_orthogonal (Rng& r)
{
    for (;;)
    {
        Mat<N> m;
        for (int i = 0; i < N; ++i)
            for (int j = 0; j < N; ++j)
                m[i][j] = r.gauss ();
        bool ok = true;
        for (int i = 0; i < N && ok; ++i)
        {
            for (int pass = 0; pass < 2; ++pass)
                for (int k = 0; k < i; ++k)
                {
                    LD d = 0;
                    for (int j = 0; j < N; ++j)
                        d += m[i][j] * m[k][j];
                    for (int j = 0; j < N; ++j)
                        m[i][j] -= d * m[k][j];
                }
            LD l = 0;
            for (int j = 0; j < N; ++j)
                l += m[i][j] * m[i][j];
            l = sqrtl (l);
            if (l < 1e-3L) { ok = false; break; }
            for (int j = 0; j < N; ++j)
                m[i][j] /= l;
        }
        if (ok) return m;
    }
}

// U diag(d) V^T
template <int N>
inline Mat<N>
udvt (const Mat<N>& u, const LD* d, const Mat<N>& v)
{
    Mat<N> m;
    for (int i = 0; i < N; ++i)
        for (int j = 0; j < N; ++j)
        {
            LD s = 0;
            for (int k = 0; k < N; ++k)
                s += u[i][k] * d[k] * v[j][k];
            m[i][j] = s;
        }
    return m;
}

// ---- reference eigenvalues of a symmetric matrix: cyclic Jacobi in long double
// (angle from atan2, full similarity transform with explicit rotation matrices)
template <int N>
inline void
ref_sym_eigenvalues (Mat<N> a, LD* ev)
{
    for (int sweep = 0; sweep < 60; ++sweep)
    {
        LD off = 0, dia = 0;
        for (int i = 0; i < N; ++i)
            for (int j = 0; j < N; ++j)
                (i == j ? dia : off) += a[i][j] * a[i][j];
        if (off <= 1e-42L * dia || off == 0) break;
        for (int p = 0; p < N; ++p)
            for (int q = p + 1; q < N; ++q)
            {
                if (a[p][q] == 0) continue;
                LD     th = 0.5L * atan2l (2 * a[p][q], a[q][q] - a[p][p]);
                LD     cs = cosl (th), sn = sinl (th);
                Mat<N> g = ident<N> ();
                g[p][p] = cs; g[q][q] = cs; g[p][q] = sn; g[q][p] = -sn;
                a = mul (mul (transpose (g), a), g);
                // keep it exactly symmetric
                for (int i = 0; i < N; ++i)
                    for (int j = i + 1; j < N; ++j)
                        a[j][i] = a[i][j] = 0.5L * (a[i][j] + a[j][i]);
            }
    }
    for (int i = 0; i < N; ++i)
        ev[i] = a[i][i];
}

template <class T> struct tname;
template <> struct tname<float> { static const char* s () { return "float"; } };
template <> struct tname<double> { static const char* s () { return "double"; } };

} // namespace c12
