// C02 - every half-conversion back-end and language mode returns identical
// bits, and the shipped table is what its generator prints.
// Each configuration is a separately compiled TU (mon/c02_cfg/tu.inc); this
// driver compares them output for output, exhaustively.
#include "mon.h"
#include <half.h>
#include <fstream>

using namespace mon;

#define CONFIGS(X)                                                             \
    X (cxx14_table) X (cxx17_table) X (cxx20_table)                            \
    X (cxx14_notable) X (cxx17_notable) X (cxx20_notable)                      \
    X (cxx14_lookupoff) X (c_table) X (c_notable) X (c_lookupoff)              \
    X (cxx14_f16c) X (c_f16c) X (cxx14_O0_notable) X (cxx14_O3_notable)

#define DECL(n)                                                                \
    extern "C" void c02_f2h_block_##n (uint32_t, uint32_t, uint16_t*);         \
    extern "C" void c02_h2f_all_##n (uint32_t*);                               \
    extern "C" int  c02_branch_##n (void);                                     \
    extern "C" long c02_lang_##n (void);
CONFIGS (DECL)

#define DECLXX(n)                                                              \
    extern "C" void c02_class_f2h_block_##n (uint32_t, uint32_t, uint16_t*);   \
    extern "C" void c02_class_h2f_all_##n (uint32_t*);
#define CXXCONFIGS(X)                                                          \
    X (cxx14_table) X (cxx17_table) X (cxx20_table) X (cxx14_notable) X (cxx17_notable) X (cxx20_notable) X (cxx14_lookupoff) X (cxx14_f16c) X (cxx14_O0_notable) X (cxx14_O3_notable)
CXXCONFIGS (DECLXX)

struct Cfg
{
    const char* name;
    void (*f2h) (uint32_t, uint32_t, uint16_t*);
    void (*h2f) (uint32_t*);
    int (*branch) (void);
    long (*lang) (void);
    bool f16c;
};
#define ROW(n) {#n, c02_f2h_block_##n, c02_h2f_all_##n, c02_branch_##n, c02_lang_##n, false},
#define ROWXX(n) {#n ".class", c02_class_f2h_block_##n, c02_class_h2f_all_##n, c02_branch_##n, c02_lang_##n, false},
static std::vector<Cfg>
configs ()
{
    std::vector<Cfg> v = {CONFIGS (ROW) CXXCONFIGS (ROWXX)};
    for (auto& c: v) c.f16c = c.branch () == 0;
    return v;
}
static const std::vector<Cfg> g_cfg = configs ();
static const bool g_cpu_f16c = __builtin_cpu_supports ("f16c");

static const char* branch_name (int b) { return b == 0 ? "f16c" : b == 1 ? "table" : "bitshift"; }

// ----------------------------------------------------------------- float -> half, all 2^32, all configs
static void
sub_f2h (Ctx& c, uint64_t b, uint64_t e)
{
    static thread_local std::vector<uint16_t> ref, got;
    uint32_t n = (uint32_t) (e - b);
    ref.resize (n); got.resize (n);
    g_cfg[0].f2h ((uint32_t) b, n, ref.data ());
    for (size_t k = 1; k < g_cfg.size (); ++k)
    {
        const Cfg& cf = g_cfg[k];
        if (cf.f16c && !g_cpu_f16c) { c.cls ("f16c_skipped_cpu_lacks_f16c", n); continue; }
        cf.f2h ((uint32_t) b, n, got.data ());
        uint64_t bad = 0; uint32_t first = 0;
        for (uint32_t i = 0; i < n; ++i)
        {
            if (got[i] == ref[i]) continue;
            if (cf.f16c)
            {
                // tolerated: NaN payload on the F16C path; NaN-ness and sign must agree
                bool rn = (ref[i] & 0x7c00) == 0x7c00 && (ref[i] & 0x3ff);
                bool gn = (got[i] & 0x7c00) == 0x7c00 && (got[i] & 0x3ff);
                if (rn && gn && ((ref[i] ^ got[i]) & 0x8000) == 0) continue;
            }
            if (!bad++) first = (uint32_t) b + i;
        }
        c.eval (n);
        c.cls (std::string ("branch_") + branch_name (cf.branch ()), n);
        if (bad)
            c.fail (std::string ("f2h:") + cf.name, first, [&] {
                uint16_t r, g; g_cfg[0].f2h (first, 1, &r); cf.f2h (first, 1, &g);
                return Obj ().kv ("config", cf.name).kv ("float", hex32 (first)).kv ("ref_cxx14_table", hex16 (r)).kv ("got", hex16 (g)).kv ("mismatches_in_chunk", (unsigned long long) bad).str ();
            });
    }
    c.nontrivial_enum (n);
    if ((b >> 18) % 4096 == 77)
        c.sample ("f2h", [&] { return Obj ().kv ("float", hex32 ((uint32_t) b)).kv ("half_all_configs", hex16 (ref[0])).kv ("configs", (int) g_cfg.size ()).str (); });
}
MON_SUB (sub_f2h, "float_to_half_all_configs", 1ull << 32, 1ull << 32)
    .req ({"branch_table", "branch_bitshift"})
    .exh ()
    .chunked (1u << 18)
    .over ("all 2^32 float patterns x every compiled configuration of half.h, compared with the C++14 table build");

// ----------------------------------------------------------------- half -> float, all 2^16, all configs
static void
sub_h2f (Ctx& c, uint64_t b, uint64_t e)
{
    for (uint64_t k = b; k < e; ++k)
    {
        if (k == 0) continue;
        const Cfg& cf = g_cfg[k];
        if (cf.f16c && !g_cpu_f16c) { c.cls ("f16c_skipped_cpu_lacks_f16c"); c.eval (); continue; }
        std::vector<uint32_t> ref (65536), got (65536);
        g_cfg[0].h2f (ref.data ());
        cf.h2f (got.data ());
        uint64_t bad = 0; uint32_t first = 0;
        for (uint32_t i = 0; i < 65536; ++i)
        {
            if (got[i] == ref[i]) continue;
            if (cf.f16c)
            {
                bool rn = (ref[i] & 0x7fffffffu) > 0x7f800000u, gn = (got[i] & 0x7fffffffu) > 0x7f800000u;
                if (rn && gn && ((ref[i] ^ got[i]) >> 31) == 0) continue;
            }
            if (!bad++) first = i;
        }
        c.eval (65536);
        c.nontrivial_enum (65536);
        c.cls (std::string ("branch_") + branch_name (cf.branch ()));
        c.cls (std::string ("lang_") + std::to_string (cf.lang ()));
        if (bad)
            c.fail (std::string ("h2f:") + cf.name, first, [&] { return Obj ().kv ("config", cf.name).kv ("half", hex16 ((uint16_t) first)).kv ("ref_cxx14_table", hex32 (ref[first])).kv ("got", hex32 (got[first])).kv ("mismatches", (unsigned long long) bad).str (); });
        c.sample (cf.name, [&] { return Obj ().kv ("config", cf.name).kv ("branch", branch_name (cf.branch ())).kv ("language", cf.lang ()).kv ("half", "0x3c01").kv ("float_bits", hex32 (got[0x3c01])).str (); });
    }
}
MON_SUB (sub_h2f, "half_to_float_all_configs", g_cfg.size (), g_cfg.size ())
    .req ({"branch_table", "branch_bitshift", "lang_0", "lang_201402", "lang_201703", "lang_202002"})
    .exh ()
    .chunked (1)
    .noscale ()
    .over ("all 2^16 half patterns x every compiled configuration (index = configuration)");

// ----------------------------------------------------------------- independence of the caller's floating-point environment
// The conversions are pure functions of their input bits: the software paths are integer-only and the F16C path asks the
// instruction for round-to-nearest explicitly.  A hostile caller therefore changes the thread's rounding direction and the
// MXCSR flush-to-zero / denormals-are-zero bits around each call; every configuration must still return what the reference
// configuration returns in the default environment.
#include <fenv.h>
#include <xmmintrin.h>
static const int   k_modes[5][2] = {{FE_DOWNWARD, 0}, {FE_UPWARD, 0}, {FE_TOWARDZERO, 0}, {FE_TONEAREST, 1}, {FE_UPWARD, 1}};
static const char* k_mode_names[5] = {"FE_DOWNWARD", "FE_UPWARD", "FE_TOWARDZERO", "FE_TONEAREST+FTZ+DAZ", "FE_UPWARD+FTZ+DAZ"};

struct EnvGuard
{
    int          old_round;
    unsigned int old_csr;
    EnvGuard (int mode) : old_round (fegetround ()), old_csr (_mm_getcsr ())
    {
        fesetround (k_modes[mode][0]);
        if (k_modes[mode][1]) _mm_setcsr (_mm_getcsr () | 0x8040u);
    }
    ~EnvGuard () { _mm_setcsr (old_csr); fesetround (old_round); }
};

static void
sub_fenv (Ctx& c, uint64_t b, uint64_t e)
{
    static thread_local std::vector<uint16_t> ref, got;
    const uint32_t n = 4096;
    ref.resize (n); got.resize (n);
    for (uint64_t idx = b; idx < e; ++idx)
    {
        int      mode = (int) (idx % 5);
        uint64_t blk = idx / 5;
        Rng      r = c.rng (blk);
        // block position: boundary neighbourhoods (ties / thresholds of every binade that maps into half range) or random
        uint32_t start;
        if (blk % 4 == 0) start = (uint32_t) (0x33000000u + (r.u64 () % 0x14800000u)) & ~0xfffu; // 2^-25 .. 65536: where rounding matters
        else if (blk % 4 == 1) start = ((uint32_t) (0x33000000u + (r.u64 () % 0x14800000u)) & ~0xfffu) | 0x80000000u;
        else start = r.u32 () & ~0xfffu;
        g_cfg[0].f2h (start, n, ref.data ()); // default environment
        for (size_t k = 0; k < g_cfg.size (); ++k)
        {
            const Cfg& cf = g_cfg[k];
            if (cf.f16c && !g_cpu_f16c) { c.cls ("f16c_skipped_cpu_lacks_f16c", n); continue; }
            {
                EnvGuard g (mode);
                cf.f2h (start, n, got.data ());
            }
            uint64_t bad = 0; uint32_t first = 0;
            for (uint32_t i = 0; i < n; ++i)
            {
                if (got[i] == ref[i]) continue;
                if (cf.f16c)
                {
                    bool rn = (ref[i] & 0x7c00) == 0x7c00 && (ref[i] & 0x3ff);
                    bool gn = (got[i] & 0x7c00) == 0x7c00 && (got[i] & 0x3ff);
                    if (rn && gn && ((ref[i] ^ got[i]) & 0x8000) == 0) continue;
                }
                if (!bad++) first = start + i;
            }
            c.eval (n);
            c.cls (std::string ("env_") + k_mode_names[mode], n);
            if (cf.f16c) c.cls ("f16c_under_changed_environment", n);
            if (bad)
                c.fail (std::string ("f2h_fenv:") + cf.name + ":" + k_mode_names[mode], idx, [&] {
                    uint16_t rr, gg; g_cfg[0].f2h (first, 1, &rr);
                    { EnvGuard g (mode); cf.f2h (first, 1, &gg); }
                    return Obj ().kv ("config", cf.name).kv ("environment", k_mode_names[mode]).kv ("float", hex32 (first)).kv ("default_env_ref", hex16 (rr)).kv ("got", hex16 (gg)).kv ("mismatches_in_block", (unsigned long long) bad).str ();
                });
        }
        // half -> float of all patterns, once per mode
        if (blk == 0)
        {
            std::vector<uint32_t> r32 (65536), g32 (65536);
            g_cfg[0].h2f (r32.data ());
            for (size_t k = 0; k < g_cfg.size (); ++k)
            {
                const Cfg& cf = g_cfg[k];
                if (cf.f16c && !g_cpu_f16c) continue;
                { EnvGuard g (mode); cf.h2f (g32.data ()); }
                uint64_t bad = 0; uint32_t first = 0;
                for (uint32_t i = 0; i < 65536; ++i)
                {
                    if (g32[i] == r32[i]) continue;
                    if (cf.f16c)
                    {
                        bool rn = (r32[i] & 0x7fffffffu) > 0x7f800000u, gn = (g32[i] & 0x7fffffffu) > 0x7f800000u;
                        if (rn && gn && ((r32[i] ^ g32[i]) >> 31) == 0) continue;
                    }
                    if (!bad++) first = i;
                }
                c.eval (65536);
                if (bad)
                    c.fail (std::string ("h2f_fenv:") + cf.name + ":" + k_mode_names[mode], idx, [&] { return Obj ().kv ("config", cf.name).kv ("environment", k_mode_names[mode]).kv ("half", hex16 ((uint16_t) first)).kv ("default_env_ref", hex32 (r32[first])).kv ("got", hex32 (g32[first])).kv ("mismatches", (unsigned long long) bad).str (); });
            }
        }
        c.nontrivial (hash_combine (start, (uint64_t) mode));
        if (idx % 9973 == 0) c.sample (k_mode_names[mode], [&] { return Obj ().kv ("environment", k_mode_names[mode]).kv ("first_float", hex32 (start)).kv ("floats", (int) n).kv ("configs", (int) g_cfg.size ()).str (); });
    }
}
MON_SUB (sub_fenv, "fp_environment_independence", 5 * 2048, 5 * 65536)
    .req ({"env_FE_DOWNWARD", "env_FE_UPWARD", "env_FE_TOWARDZERO", "env_FE_TONEAREST+FTZ+DAZ", "env_FE_UPWARD+FTZ+DAZ"})
    .chunked (16)
    .over ("blocks of 4096 consecutive float patterns (half of them inside [2^-25, 65536) where rounding matters, both signs) and all 2^16 half patterns, "
           "converted by every configuration while the calling thread runs with a non-default rounding direction and/or FTZ+DAZ, compared with the "
           "reference configuration in the default environment");

// ----------------------------------------------------------------- the shipped table is what the generator prints
static bool
parse_entries (const char* path, std::vector<uint32_t>& out)
{
    std::ifstream f (path);
    if (!f) return false;
    std::string s ((std::istreambuf_iterator<char> (f)), std::istreambuf_iterator<char> ());
    size_t p = 0;
    while ((p = s.find ("{0x", p)) != std::string::npos)
    {
        out.push_back ((uint32_t) std::strtoul (s.c_str () + p + 1, nullptr, 16));
        p += 3;
    }
    return true;
}

static void
sub_table (Ctx& c, uint64_t b, uint64_t e)
{
    if (b != 0) return;
    const char* gen = std::getenv ("C02_GEN_TABLE");
    const char* hdr = std::getenv ("C02_TABLE_HEADER");
    std::vector<uint32_t> G, H;
    if (!gen || !hdr || !parse_entries (gen, G) || !parse_entries (hdr, H)) return; // required classes stay empty -> inconclusive
    c.cls ("generator_output_parsed");
    if (G.size () != 65536) c.fail ("table:generator_entry_count", 0, [&] { return Obj ().kv ("entries", (unsigned long long) G.size ()).str (); });
    if (H.size () != 65536) c.fail ("table:header_entry_count", 0, [&] { return Obj ().kv ("entries", (unsigned long long) H.size ()).str (); });
    if (G.size () != 65536 || H.size () != 65536) return;
    for (uint32_t i = 0; i < 65536; ++i)
    {
        c.eval ();
        uint32_t mem = imath_half_to_float_table[i].i;
        if (H[i] != G[i]) c.fail ("table:header_vs_generator", i, [&] { return Obj ().kv ("half", hex16 ((uint16_t) i)).kv ("toFloat.h", hex32 (H[i])).kv ("generator", hex32 (G[i])).str (); });
        if (mem != G[i]) c.fail ("table:memory_vs_generator", i, [&] { return Obj ().kv ("half", hex16 ((uint16_t) i)).kv ("imath_half_to_float_table", hex32 (mem)).kv ("generator", hex32 (G[i])).str (); });
    }
    c.nontrivial_enum (65536);
    c.cls ("entries_compared", 65536);
    c.sample ("table", [&] { return Obj ().kv ("half", "0x3c00").kv ("generator", hex32 (G[0x3c00])).kv ("toFloat.h", hex32 (H[0x3c00])).kv ("in_memory", hex32 (imath_half_to_float_table[0x3c00].i)).str (); });
}
MON_SUB (sub_table, "table_equals_generator_output", 1, 1)
    .req ({"generator_output_parsed", "entries_compared"})
    .exh ()
    .chunked (1)
    .noscale ()
    .over ("65,536 entries: toFloat.cpp compiled and run now vs. checked-in toFloat.h vs. imath_half_to_float_table in libImath");

MON_MAIN ("c02_backends")
