// C02 - every half-conversion back-end and language mode returns identical
// bits, and the shipped table is what its generator prints.
// Each configuration is a separately compiled TU (mon/c02_cfg/tu.inc); this
// driver compares them output for output, exhaustively.
#include "mon.h"
#include <half.h>
#include <fstream>

using namespace mon;

#define CONFIGS(X)                                                             \
    X (cxx14_table) X (cxx17_table) X (cxx20_table)                            \
    X (cxx14_notable) X (cxx17_notable) X (cxx20_notable)                      \
    X (cxx14_lookupoff) X (c_table) X (c_notable) X (c_lookupoff)              \
    X (cxx14_f16c) X (c_f16c) X (cxx14_O0_notable) X (cxx14_O3_notable)

#define DECL(n)                                                                \
    extern "C" void c02_f2h_block_##n (uint32_t, uint32_t, uint16_t*);         \
    extern "C" void c02_h2f_all_##n (uint32_t*);                               \
    extern "C" int  c02_branch_##n (void);                                     \
    extern "C" long c02_lang_##n (void);
CONFIGS (DECL)

#define DECLXX(n)                                                              \
    extern "C" void c02_class_f2h_block_##n (uint32_t, uint32_t, uint16_t*);   \
    extern "C" void c02_class_h2f_all_##n (uint32_t*);
#define CXXCONFIGS(X)                                                          \
    X (cxx14_table) X (cxx17_table) X (cxx20_table) X (cxx14_notable) X (cxx17_notable) X (cxx20_notable) X (cxx14_lookupoff) X (cxx14_f16c) X (cxx14_O0_notable) X (cxx14_O3_notable)
CXXCONFIGS (DECLXX)

struct Cfg
{
    const char* name;
    void (*f2h) (uint32_t, uint32_t, uint16_t*);
    void (*h2f) (uint32_t*);
    int (*branch) (void);
    long (*lang) (void);
    bool f16c;
};
#define ROW(n) {#n, c02_f2h_block_##n, c02_h2f_all_##n, c02_branch_##n, c02_lang_##n, false},
#define ROWXX(n) {#n ".class", c02_class_f2h_block_##n, c02_class_h2f_all_##n, c02_branch_##n, c02_lang_##n, false},
static std::vector<Cfg>
configs ()
{
    std::vector<Cfg> v = {CONFIGS (ROW) CXXCONFIGS (ROWXX)};
    for (auto& c: v) c.f16c = c.branch () == 0;
    return v;
}
static const std::vector<Cfg> g_cfg = configs ();
static const bool g_cpu_f16c = __builtin_cpu_supports ("f16c");

static const char* branch_name (int b) { return b == 0 ? "f16c" : b == 1 ? "table" : "bitshift"; }

// ----------------------------------------------------------------- float -> half, all 2^32, all configs
static void
sub_f2h (Ctx& c, uint64_t b, uint64_t e)
{
    static thread_local std::vector<uint16_t> ref, got;
    uint32_t n = (uint32_t) (e - b);
    ref.resize (n); got.resize (n);
    g_cfg[0].f2h ((uint32_t) b, n, ref.data ());
    for (size_t k = 1; k < g_cfg.size (); ++k)
    {
        const Cfg& cf = g_cfg[k];
        if (cf.f16c && !g_cpu_f16c) { c.cls ("f16c_skipped_cpu_lacks_f16c", n); continue; }
        cf.f2h ((uint32_t) b, n, got.data ());
        uint64_t bad = 0; uint32_t first = 0;
        for (uint32_t i = 0; i < n; ++i)
        {
            if (got[i] == ref[i]) continue;
            if (cf.f16c)
            {
                // tolerated: NaN payload on the F16C path; NaN-ness and sign must agree
                bool rn = (ref[i] & 0x7c00) == 0x7c00 && (ref[i] & 0x3ff);
                bool gn = (got[i] & 0x7c00) == 0x7c00 && (got[i] & 0x3ff);
                if (rn && gn && ((ref[i] ^ got[i]) & 0x8000) == 0) continue;
            }
            if (!bad++) first = (uint32_t) b + i;
        }
        c.eval (n);
        c.cls (std::string ("branch_") + branch_name (cf.branch ()), n);
        if (bad)
            c.fail (std::string ("f2h:") + cf.name, first, [&] {
                uint16_t r, g; g_cfg[0].f2h (first, 1, &r); cf.f2h (first, 1, &g);
                return Obj ().kv ("config", cf.name).kv ("float", hex32 (first)).kv ("ref_cxx14_table", hex16 (r)).kv ("got", hex16 (g)).kv ("mismatches_in_chunk", (unsigned long long) bad).str ();
            });
    }
    c.nontrivial_enum (n);
    if ((b >> 18) % 4096 == 77)
        c.sample ("f2h", [&] { return Obj ().kv ("float", hex32 ((uint32_t) b)).kv ("half_all_configs", hex16 (ref[0])).kv ("configs", (int) g_cfg.size ()).str (); });
}
MON_SUB (sub_f2h, "float_to_half_all_configs", 1ull << 32, 1ull << 32)
    .req ({"branch_table", "branch_bitshift"})
    .exh ()
    .chunked (1u << 18)
    .over ("all 2^32 float patterns x every compiled configuration of half.h, compared with the C++14 table build");

// ----------------------------------------------------------------- half -> float, all 2^16, all configs
static void
sub_h2f (Ctx& c, uint64_t b, uint64_t e)
{
    for (uint64_t k = b; k < e; ++k)
    {
        if (k == 0) continue;
        const Cfg& cf = g_cfg[k];
        if (cf.f16c && !g_cpu_f16c) { c.cls ("f16c_skipped_cpu_lacks_f16c"); c.eval (); continue; }
        std::vector<uint32_t> ref (65536), got (65536);
        g_cfg[0].h2f (ref.data ());
        cf.h2f (got.data ());
        uint64_t bad = 0; uint32_t first = 0;
        for (uint32_t i = 0; i < 65536; ++i)
        {
            if (got[i] == ref[i]) continue;
            if (cf.f16c)
            {
                bool rn = (ref[i] & 0x7fffffffu) > 0x7f800000u, gn = (got[i] & 0x7fffffffu) > 0x7f800000u;
                if (rn && gn && ((ref[i] ^ got[i]) >> 31) == 0) continue;
            }
            if (!bad++) first = i;
        }
        c.eval (65536);
        c.nontrivial_enum (65536);
        c.cls (std::string ("branch_") + branch_name (cf.branch ()));
        c.cls (std::string ("lang_") + std::to_string (cf.lang ()));
        if (bad)
            c.fail (std::string ("h2f:") + cf.name, first, [&] { return Obj ().kv ("config", cf.name).kv ("half", hex16 ((uint16_t) first)).kv ("ref_cxx14_table", hex32 (ref[first])).kv ("got", hex32 (got[first])).kv ("mismatches", (unsigned long long) bad).str (); });
        c.sample (cf.name, [&] { return Obj ().kv ("config", cf.name).kv ("branch", branch_name (cf.branch ())).kv ("language", cf.lang ()).kv ("half", "0x3c01").kv ("float_bits", hex32 (got[0x3c01])).str (); });
    }
}
MON_SUB (sub_h2f, "half_to_float_all_configs", g_cfg.size (), g_cfg.size ())
    .req ({"branch_table", "branch_bitshift", "lang_0", "lang_201402", "lang_201703", "lang_202002"})
    .exh ()
    .chunked (1)
    .noscale ()
    .over ("all 2^16 half patterns x every compiled configuration (index = configuration)");

// ----------------------------------------------------------------- the shipped table is what the generator prints
static bool
parse_entries (const char* path, std::vector<uint32_t>& out)
{
    std::ifstream f (path);
    if (!f) return false;
    std::string s ((std::istreambuf_iterator<char> (f)), std::istreambuf_iterator<char> ());
    size_t p = 0;
    while ((p = s.find ("{0x", p)) != std::string::npos)
    {
        out.push_back ((uint32_t) std::strtoul (s.c_str () + p + 1, nullptr, 16));
        p += 3;
    }
    return true;
}

static void
sub_table (Ctx& c, uint64_t b, uint64_t e)
{
    if (b != 0) return;
    const char* gen = std::getenv ("C02_GEN_TABLE");
    const char* hdr = std::getenv ("C02_TABLE_HEADER");
    std::vector<uint32_t> G, H;
    if (!gen || !hdr || !parse_entries (gen, G) || !parse_entries (hdr, H)) return; // required classes stay empty -> inconclusive
    c.cls ("generator_output_parsed");
    if (G.size () != 65536) c.fail ("table:generator_entry_count", 0, [&] { return Obj ().kv ("entries", (unsigned long long) G.size ()).str (); });
    if (H.size () != 65536) c.fail ("table:header_entry_count", 0, [&] { return Obj ().kv ("entries", (unsigned long long) H.size ()).str (); });
    if (G.size () != 65536 || H.size () != 65536) return;
    for (uint32_t i = 0; i < 65536; ++i)
    {
        c.eval ();
        uint32_t mem = imath_half_to_float_table[i].i;
        if (H[i] != G[i]) c.fail ("table:header_vs_generator", i, [&] { return Obj ().kv ("half", hex16 ((uint16_t) i)).kv ("toFloat.h", hex32 (H[i])).kv ("generator", hex32 (G[i])).str (); });
        if (mem != G[i]) c.fail ("table:memory_vs_generator", i, [&] { return Obj ().kv ("half", hex16 ((uint16_t) i)).kv ("imath_half_to_float_table", hex32 (mem)).kv ("generator", hex32 (G[i])).str (); });
    }
    c.nontrivial_enum (65536);
    c.cls ("entries_compared", 65536);
    c.sample ("table", [&] { return Obj ().kv ("half", "0x3c00").kv ("generator", hex32 (G[0x3c00])).kv ("toFloat.h", hex32 (H[0x3c00])).kv ("in_memory", hex32 (imath_half_to_float_table[0x3c00].i)).str (); });
}
MON_SUB (sub_table, "table_equals_generator_output", 1, 1)
    .req ({"generator_output_parsed", "entries_compared"})
    .exh ()
    .chunked (1)
    .noscale ()
    .over ("65,536 entries: toFloat.cpp compiled and run now vs. checked-in toFloat.h vs. imath_half_to_float_table in libImath");

MON_MAIN ("c02_backends")
