// C10 (part 1) - quaternion / matrix / axis-angle consistency:
//   rotate_agree      rotateVector(v), v*q, v*toMatrix33(), v*toMatrix44() agree (each judged against q v q*
//                     in the reference precision); toMatrix33/44 entry by entry
//   mul_matrix        q1*q2, q1*=q2 against the Hamilton product; (q1*q2).toMatrixNN() == q2.toMatrixNN()*q1.toMatrixNN()
//   inverse_conj      q*inverse(q) = inverse(q)*q = 1, invert(), ~q conjugates (exact) and undoes the rotation
//   exp_log           exp(log q) = q for real part > -1 + delta
//   axis_angle        Quat().setAxisAngle(q.axis(), q.angle()) = +-q
//   extract_quat      extractQuat(q.toMatrix44()) = +-q, every branch
//   set_axis_angle    Quat::setAxisAngle and Matrix44::setAxisAngle against Rodrigues' formula and each other
// float and double each; see c10_common.h for the oracle and the generators.
#include "c10_common.h"

using namespace c10;

// Tolerance constants (multiples of eps of the type, applied to the scale stated at each use).
// Calibrated on the unchanged tree: thorough tier, seed 1, 1e7 (double) / 2e7 (float) cases per sub-check;
// "worst" = largest ratio error/(eps*scale) seen there (float / double).  Every constant is >= 8x the worst.
namespace tol
{
static const double rotate     = 48;  // |got - q v q*|_2 <= C eps |v|_2                       worst 4.57 / 4.66 (v*q)
static const double matrix     = 32;  // |M[i][j] - ref| <= C eps                              worst 2.59 / 2.48
static const double product    = 16;  // |(q1*q2)[k] - ref| <= C eps                           worst 1.09 / 1.10
static const double mulmatrix  = 64;  // |(q1*q2).toMatrix()[i][j] - (M2*M1)[i][j]| <= C eps   worst 5.5 / 6.0
static const double inverse    = 32;  // |(q*q^-1)[k] - delta_k0| <= C eps                     worst 2.0 / 2.0
static const double unrotate   = 96;  // |(v*q)*~q - v|_2 <= C eps |v|_2                       worst 7.61 / 7.37
static const double explog     = 32;  // |exp(log q) - q|_inf <= C eps / (1 + r) (r < 0), C eps (r >= 0)   worst 3.13 / 3.39
static const double explog_rel = 32;  // r >= 0: |v' - v|_2 <= C eps |v|_2                     worst 2.03 / 2.10
static const double axisangle  = 32;  // |q' -+ q|_inf <= C eps;  r >= 0: |v' - v|_2 <= C eps |v|_2   worst 2.58 / 2.57
static const double extract    = 32;  // |q' -+ q|_inf <= C eps;  |r| > 1/2: |v' -+ v|_2 <= C eps |v|_2   worst 2.90 / 2.84
static const double setaa      = 64;  // |M[i][j] - Rodrigues| <= C eps, | |q| - 1 | <= C eps  worst 6.5 / 6.5 (quat vs matrix)
} // namespace tol

template <class T> static inline double E () { return eps_of<T>::value; }

// ------------------------------------------------------------------ rotate_agree
template <class T>
static void
sub_rotate (Ctx& c, uint64_t idx)
{
    typedef typename HPOf<T>::type H;
    Rng      r  = c.rng (idx);
    unsigned qc = (unsigned) (idx % NQCLS), vc = (unsigned) ((idx / NQCLS) % NVCLS);
    UQ       u  = gen_unit (r, qc);
    Quat<T>  q  = mkq<T> (u);
    long double vl[3];
    gen_vec (r, vc, u.c + 1, vl);
    Vec3<T> v ((T) vl[0], (T) vl[1], (T) vl[2]);
    c.eval ();
    c.cls (kQClass[qc]);
    c.cls (kVClass[vc]);
    c.nontrivial (hash_combine (qhash (q), vhash (v)));

    Q4<H> qh    = hunit (toH (q));
    H     vh[3] = {(H) v.x, (H) v.y, (H) v.z}, ref[3];
    hrot (qh, vh, ref);
    H scale = norm3 (vh);

    Vec3<T>            g[4]  = {q.rotateVector (v), v * q, v * q.toMatrix33 (), v * q.toMatrix44 ()};
    static const char* fn[4] = {"rotateVector", "vecTimesQuat", "vecTimesMatrix33", "vecTimesMatrix44"};
    for (int k = 0; k < 4; ++k)
    {
        H e2 = 0;
        for (int i = 0; i < 3; ++i) { H d = (H) g[k][i] - ref[i]; e2 += d * d; }
        double err   = (double) hp::sqrt (e2);
        double ratio = scale > 0 ? err / (E<T> () * (double) scale) : (err == 0 ? 0.0 : INFINITY);
        judge<T> (c, fn[k], kQClass[qc], ratio, tol::rotate, idx, [&] {
            double w[3] = {(double) ref[0], (double) ref[1], (double) ref[2]};
            return Obj ().raw ("q", qjson (q)).raw ("v", vjson (v)).raw ("got", vjson (g[k])).arr ("want", w, 3).kv ("err_over_eps_len", ratio).str ();
        });
    }

    H M[3][3];
    hmat (qh, M);
    Matrix33<T> m3 = q.toMatrix33 ();
    Matrix44<T> m4 = q.toMatrix44 ();
    for (int i = 0; i < 4; ++i)
        for (int j = 0; j < 4; ++j)
        {
            H want = (i < 3 && j < 3) ? M[i][j] : (i == j ? (H) 1 : (H) 0);
            if (i < 3 && j < 3)
            {
                double ratio = (double) hp::fabs ((H) m3[i][j] - want) / E<T> ();
                judge<T> (c, "toMatrix33", slot2 (i, j).c_str (), ratio, tol::matrix, idx,
                          [&] { return Obj ().raw ("q", qjson (q)).kv ("got", (double) m3[i][j]).kv ("want", (double) want).str (); });
            }
            double ratio = (i < 3 && j < 3) ? (double) hp::fabs ((H) m4[i][j] - want) / E<T> () : ((H) m4[i][j] == want ? 0.0 : INFINITY);
            judge<T> (c, "toMatrix44", slot2 (i, j).c_str (), ratio, tol::matrix, idx,
                      [&] { return Obj ().raw ("q", qjson (q)).kv ("got", (double) m4[i][j]).kv ("want", (double) want).str (); });
        }
    if (idx % 997 == 0)
        c.sample (kQClass[qc], [&] { return Obj ().raw ("q", qjson (q)).raw ("v", vjson (v)).raw ("rotateVector", vjson (g[0])).str (); });
}
static const std::vector<std::string> kQReq (kQClass, kQClass + NQCLS);
static std::vector<std::string>
req_q_plus (std::initializer_list<const char*> more)
{
    std::vector<std::string> v = kQReq;
    for (auto m: more) v.push_back (m);
    return v;
}
#define ROT_SPACE "unit quaternions from 10 classes (generic; real part +-1e-1..1e-17 and 0; half angle 1e-1..1e-12 at r->+1 and r->-1; coordinate axes incl. exact 90/180/360 degrees; trace branch point |r| = 1/2 +- 1e-k; tied and ordered imaginary parts) x vectors from 6 classes (generic 2^-30..2^30, axis aligned, mixed magnitudes, zero components incl. the zero vector, along the rotation axis, integer lattice)"
MON_SUB_IDX (sub_rotate<float>, "rotate_agree.float", 1200000, 20000000)
    .req (req_q_plus ({"v_generic", "v_axis_aligned", "v_mixed_magnitude", "v_zero_components", "v_along_rotation_axis", "v_integer_lattice"}))
    .over (ROT_SPACE);
MON_SUB_IDX (sub_rotate<double>, "rotate_agree.double", 600000, 10000000)
    .req (req_q_plus ({"v_generic", "v_axis_aligned", "v_mixed_magnitude", "v_zero_components", "v_along_rotation_axis", "v_integer_lattice"}))
    .over (ROT_SPACE);

// ------------------------------------------------------------------ mul_matrix
template <class T>
static void
sub_mul (Ctx& c, uint64_t idx)
{
    typedef typename HPOf<T>::type H;
    Rng      r  = c.rng (idx);
    unsigned c1 = (unsigned) (idx % NQCLS), c2 = (unsigned) ((idx / NQCLS) % NQCLS);
    Quat<T>  q1 = mkq<T> (gen_unit (r, c1)), q2 = mkq<T> (gen_unit (r, c2));
    c.eval ();
    c.cls (kQClass[c1]);
    c.nontrivial (hash_combine (qhash (q1), qhash (q2)));

    Q4<H>   ph = hmul (toH (q1), toH (q2));
    Quat<T> p  = q1 * q2;
    Quat<T> pe = q1;
    pe *= q2;
    for (int k = 0; k < 4; ++k)
    {
        char s[16];
        std::snprintf (s, sizeof s, "slot[%d]", k);
        double r1 = (double) hp::fabs ((H) p[k] - ph.c[k]) / E<T> ();
        double r2 = (double) hp::fabs ((H) pe[k] - ph.c[k]) / E<T> ();
        judge<T> (c, "operator*", s, r1, tol::product, idx,
                  [&] { return Obj ().raw ("q1", qjson (q1)).raw ("q2", qjson (q2)).raw ("got", qjson (p)).kv ("want_slot", (double) ph.c[k]).str (); });
        judge<T> (c, "operator*=", s, r2, tol::product, idx,
                  [&] { return Obj ().raw ("q1", qjson (q1)).raw ("q2", qjson (q2)).raw ("got", qjson (pe)).kv ("want_slot", (double) ph.c[k]).str (); });
    }

    // the in-place form with the operand aliased to the object itself (q *= q), against the reference square
    {
        Q4<H>   sh = hmul (toH (q1), toH (q1));
        Quat<T> qa = q1;
        qa *= qa;
        for (int k = 0; k < 4; ++k)
        {
            char s[16];
            std::snprintf (s, sizeof s, "slot[%d]", k);
            double r3 = (double) hp::fabs ((H) qa[k] - sh.c[k]) / E<T> ();
            judge<T> (c, "operator*=(self)", s, r3, tol::product, idx,
                      [&] { return Obj ().raw ("q", qjson (q1)).raw ("got", qjson (qa)).kv ("want_slot", (double) sh.c[k]).str (); });
        }
    }
    // the mixed operators: q * M is q.toMatrix33() * M and M * q is M * q.toMatrix33() (M = the matrix of q2: the order is observable)
    {
        Matrix33<T> A = q1.toMatrix33 (), B = q2.toMatrix33 ();
        Matrix33<T> qm = q1 * B, mq = B * q1, AB = A * B, BA = B * A;
        for (int i = 0; i < 3; ++i)
            for (int j = 0; j < 3; ++j)
            {
                double a = std::fabs ((double) qm[i][j] - (double) AB[i][j]) / E<T> ();
                double b = std::fabs ((double) mq[i][j] - (double) BA[i][j]) / E<T> ();
                judge<T> (c, "operator*(Quat,Matrix33)", slot2 (i, j).c_str (), a, tol::mulmatrix, idx, [&] {
                    return Obj ().raw ("q", qjson (q1)).raw ("M_is_matrix_of", qjson (q2)).kv ("(q*M)", (double) qm[i][j]).kv ("q.toMatrix33*M", (double) AB[i][j]).str ();
                });
                judge<T> (c, "operator*(Matrix33,Quat)", slot2 (i, j).c_str (), b, tol::mulmatrix, idx, [&] {
                    return Obj ().raw ("q", qjson (q1)).raw ("M_is_matrix_of", qjson (q2)).kv ("(M*q)", (double) mq[i][j]).kv ("M*q.toMatrix33", (double) BA[i][j]).str ();
                });
            }
    }

    // matrix of the product: against the product of the matrices (row-vector convention: M(q1 q2) = M(q2) M(q1))
    // and against the reference matrix of the reference product
    H Mref[3][3];
    hmat (hunit (ph), Mref);
    Matrix33<T> L3 = p.toMatrix33 (), A3 = q1.toMatrix33 (), B3 = q2.toMatrix33 (), R3 = B3 * A3, W3 = A3 * B3;
    Matrix44<T> L4 = p.toMatrix44 (), R4 = q2.toMatrix44 () * q1.toMatrix44 ();
    double      asym = 0;
    for (int i = 0; i < 3; ++i)
        for (int j = 0; j < 3; ++j)
        {
            asym = std::max (asym, std::fabs ((double) R3[i][j] - (double) W3[i][j]));
            double a = std::fabs ((double) L3[i][j] - (double) R3[i][j]) / E<T> ();
            double b = std::fabs ((double) L4[i][j] - (double) R4[i][j]) / E<T> ();
            double o = (double) hp::fabs ((H) R3[i][j] - Mref[i][j]) / E<T> ();
            judge<T> (c, "mulMatrix33", slot2 (i, j).c_str (), a, tol::mulmatrix, idx, [&] {
                return Obj ().raw ("q1", qjson (q1)).raw ("q2", qjson (q2)).kv ("(q1*q2).toMatrix33", (double) L3[i][j]).kv ("q2.toMatrix33*q1.toMatrix33", (double) R3[i][j]).str ();
            });
            judge<T> (c, "mulMatrix44", slot2 (i, j).c_str (), b, tol::mulmatrix, idx, [&] {
                return Obj ().raw ("q1", qjson (q1)).raw ("q2", qjson (q2)).kv ("(q1*q2).toMatrix44", (double) L4[i][j]).kv ("q2.toMatrix44*q1.toMatrix44", (double) R4[i][j]).str ();
            });
            judge<T> (c, "mulMatrixOracle", slot2 (i, j).c_str (), o, tol::mulmatrix, idx, [&] {
                return Obj ().raw ("q1", qjson (q1)).raw ("q2", qjson (q2)).kv ("q2.toMatrix33*q1.toMatrix33", (double) R3[i][j]).kv ("reference", (double) Mref[i][j]).str ();
            });
        }
    // the order of the factors is observable in this case (so the check would see a swapped product)
    if (asym > 0.05) c.cls ("order_sensitive");
    if (idx % 1009 == 0)
        c.sample ("product", [&] { return Obj ().raw ("q1", qjson (q1)).raw ("q2", qjson (q2)).raw ("q1*q2", qjson (p)).kv ("max|M2*M1-M1*M2|", asym).str (); });
}
#define MUL_SPACE "ordered pairs of unit quaternions, each from the 10 classes of rotate_agree (100 class pairs); order_sensitive = pairs whose matrix products in the two orders differ by > 0.05"
MON_SUB_IDX (sub_mul<float>, "mul_matrix.float", 1000000, 20000000).req (req_q_plus ({"order_sensitive"})).over (MUL_SPACE);
MON_SUB_IDX (sub_mul<double>, "mul_matrix.double", 500000, 10000000).req (req_q_plus ({"order_sensitive"})).over (MUL_SPACE);

// ------------------------------------------------------------------ inverse_conj
template <class T>
static void
sub_inverse (Ctx& c, uint64_t idx)
{
    typedef typename HPOf<T>::type H;
    Rng      r  = c.rng (idx);
    unsigned qc = (unsigned) (idx % NQCLS), vc = (unsigned) ((idx / NQCLS) % NVCLS);
    UQ       u  = gen_unit (r, qc);
    Quat<T>  q  = mkq<T> (u);
    long double vl[3];
    gen_vec (r, vc, u.c + 1, vl);
    Vec3<T> v ((T) vl[0], (T) vl[1], (T) vl[2]);
    c.eval ();
    c.cls (kQClass[qc]);
    c.nontrivial (hash_combine (qhash (q), vhash (v)));

    Quat<T> inv = q.inverse ();
    Quat<T> inp = q;
    Quat<T>& ret = inp.invert ();
    if (&ret != &inp) c.fail (std::string ("invert.") + tname<T> () + ":return_reference", idx, [&] { return qjson (q); });
    Quat<T> a = q * inv, b = inv * q, a2 = q * inp;
    Q4<H>   qh = toH (q), ih = hconj (qh);
    H       n2 = hdot (qh, qh);
    for (int k = 0; k < 4; ++k)
    {
        char s[16];
        std::snprintf (s, sizeof s, "slot[%d]", k);
        H      want = k == 0 ? 1 : 0;
        double ra = (double) hp::fabs ((H) a[k] - want) / E<T> (), rb = (double) hp::fabs ((H) b[k] - want) / E<T> (),
               rc = (double) hp::fabs ((H) a2[k] - want) / E<T> ();
        judge<T> (c, "q*inverse", s, ra, tol::inverse, idx, [&] { return Obj ().raw ("q", qjson (q)).raw ("inverse", qjson (inv)).raw ("q*inverse", qjson (a)).str (); });
        judge<T> (c, "inverse*q", s, rb, tol::inverse, idx, [&] { return Obj ().raw ("q", qjson (q)).raw ("inverse", qjson (inv)).raw ("inverse*q", qjson (b)).str (); });
        judge<T> (c, "q*invert", s, rc, tol::inverse, idx, [&] { return Obj ().raw ("q", qjson (q)).raw ("invert", qjson (inp)).raw ("q*invert", qjson (a2)).str (); });
        // 1/q = q* / |q|^2 in the reference precision
        H      iw = ih.c[k] / n2;
        double ro = (double) hp::fabs ((H) inv[k] - iw) / E<T> (), rp = (double) hp::fabs ((H) inp[k] - iw) / E<T> ();
        judge<T> (c, "inverse", s, ro, tol::inverse, idx, [&] { return Obj ().raw ("q", qjson (q)).raw ("inverse", qjson (inv)).kv ("want_slot", (double) iw).str (); });
        judge<T> (c, "invert", s, rp, tol::inverse, idx, [&] { return Obj ().raw ("q", qjson (q)).raw ("invert", qjson (inp)).kv ("want_slot", (double) iw).str (); });
    }

    // ~q: real part kept, imaginary part negated, bit for bit
    Quat<T> cj = ~q;
    bool    okc = cj.r == q.r;
    for (int k = 0; k < 3; ++k) okc = okc && cj.v[k] == -q.v[k] && std::signbit (cj.v[k]) != std::signbit (q.v[k]);
    if (!okc) c.fail (std::string ("conjugate.") + tname<T> () + ":" + kQClass[qc], idx, [&] { return Obj ().raw ("q", qjson (q)).raw ("~q", qjson (cj)).str (); });
    // and ~q undoes the rotation of q
    Vec3<T> w = (v * q) * cj, w2 = cj.rotateVector (q.rotateVector (v));
    H       vh[3] = {(H) v.x, (H) v.y, (H) v.z};
    H       scale = norm3 (vh), e1 = 0, e2 = 0;
    for (int i = 0; i < 3; ++i) { H d = (H) w[i] - vh[i]; e1 += d * d; d = (H) w2[i] - vh[i]; e2 += d * d; }
    double r1 = scale > 0 ? (double) (hp::sqrt (e1) / scale) / E<T> () : (e1 == 0 ? 0.0 : INFINITY);
    double r2 = scale > 0 ? (double) (hp::sqrt (e2) / scale) / E<T> () : (e2 == 0 ? 0.0 : INFINITY);
    judge<T> (c, "conjugateUndoes.vecTimesQuat", kQClass[qc], r1, tol::unrotate, idx, [&] { return Obj ().raw ("q", qjson (q)).raw ("v", vjson (v)).raw ("(v*q)*~q", vjson (w)).str (); });
    judge<T> (c, "conjugateUndoes.rotateVector", kQClass[qc], r2, tol::unrotate, idx, [&] { return Obj ().raw ("q", qjson (q)).raw ("v", vjson (v)).raw ("(~q).rotateVector(q.rotateVector(v))", vjson (w2)).str (); });
    if (idx % 1013 == 0) c.sample (kQClass[qc], [&] { return Obj ().raw ("q", qjson (q)).raw ("inverse", qjson (inv)).raw ("~q", qjson (cj)).str (); });
}
#define INV_SPACE "unit quaternions from the 10 classes x vectors from the 6 classes of rotate_agree"
MON_SUB_IDX (sub_inverse<float>, "inverse_conj.float", 1000000, 20000000).req (kQReq).over (INV_SPACE);
MON_SUB_IDX (sub_inverse<double>, "inverse_conj.double", 600000, 10000000).req (kQReq).over (INV_SPACE);

// ------------------------------------------------------------------ exp_log
// "unless the real part of q is close to -1": judged for r > -1 + delta with delta = 1e-3 (float) / 1e-6 (double);
// acos(r) is ill-conditioned towards r = -1, which the tolerance formula follows (C eps / (1+r) for r < 0).
template <class T> static inline double explog_delta ();
template <> inline double explog_delta<float> () { return 1e-3; }
template <> inline double explog_delta<double> () { return 1e-6; }

template <class T>
static void
sub_explog (Ctx& c, uint64_t idx)
{
    typedef typename HPOf<T>::type H;
    Rng      r  = c.rng (idx);
    unsigned qc = (unsigned) (idx % NQCLS);
    Quat<T>  q  = mkq<T> (gen_unit (r, qc));
    c.cls (kQClass[qc]);
    if (!((double) q.r > -1.0 + explog_delta<T> ()))
    {
        // outside the quantifier; still executed (sanitizers, no crash), not judged
        Quat<T> e = q.log ().exp ();
        (void) e;
        c.cls ("skipped_real_part_near_minus_one");
        return;
    }
    c.eval ();
    c.nontrivial (qhash (q));
    Quat<T> l = q.log (), e = l.exp ();
    if (q.r >= T (1)) c.cls ("log_theta_zero_branch");
    if (l.v == Vec3<T> (0, 0, 0)) c.cls ("exp_theta_zero_branch");
    if ((double) q.r > 0.999) c.cls ("tiny_angle");
    double cond = q.r < 0 ? 1.0 / (1.0 + (double) q.r) : 1.0;
    double err  = 0;
    for (int k = 0; k < 4; ++k) err = std::max (err, std::fabs ((double) e[k] - (double) q[k]));
    if (std::isnan ((double) e.r + (double) e.v.x + (double) e.v.y + (double) e.v.z)) err = NAN;
    double ratio = err / (E<T> () * cond);
    auto   desc  = [&] { return Obj ().raw ("q", qjson (q)).raw ("log", qjson (l)).raw ("exp(log)", qjson (e)).kv ("err_over_eps", err / E<T> ()).str (); };
    judge<T> (c, "exp(log)", kQClass[qc], ratio, tol::explog, idx, desc);
    if (l.r != T (0)) c.fail (std::string ("log.") + tname<T> () + ":real_part_nonzero", idx, desc);
    if (q.r >= 0)
    {
        // towards the identity the imaginary part must survive to relative accuracy
        H vh[3] = {(H) q.v.x, (H) q.v.y, (H) q.v.z}, d2 = 0;
        for (int i = 0; i < 3; ++i) { H d = (H) e.v[i] - vh[i]; d2 += d * d; }
        H      n   = norm3 (vh);
        double rel = n > 0 ? (double) (hp::sqrt (d2) / n) / E<T> () : (d2 == 0 ? 0.0 : INFINITY);
        judge<T> (c, "exp(log).imaginary_relative", kQClass[qc], rel, tol::explog_rel, idx, desc);
    }
    if (idx % 1019 == 0) c.sample (kQClass[qc], desc);
}
#define EXPLOG_SPACE "unit quaternions from the 10 classes of rotate_agree with real part > -1 + delta (delta = 1e-3 float, 1e-6 double; the others are executed but not judged and counted as skipped_real_part_near_minus_one); tiny_angle = real part > 0.999"
MON_SUB_IDX (sub_explog<float>, "exp_log.float", 1000000, 20000000).req (req_q_plus ({"log_theta_zero_branch", "exp_theta_zero_branch", "tiny_angle"})).over (EXPLOG_SPACE);
MON_SUB_IDX (sub_explog<double>, "exp_log.double", 1000000, 20000000).req (req_q_plus ({"log_theta_zero_branch", "exp_theta_zero_branch", "tiny_angle"})).over (EXPLOG_SPACE);

// ------------------------------------------------------------------ axis_angle
// smallest of |a - b|_inf and |a + b|_inf, and which sign was taken
template <class T>
static inline double
dist_pm (const Quat<T>& a, const Quat<T>& b, int* sign)
{
    double p = 0, m = 0;
    bool   nan = false;
    for (int k = 0; k < 4; ++k)
    {
        p = std::max (p, std::fabs ((double) a[k] - (double) b[k]));
        m = std::max (m, std::fabs ((double) a[k] + (double) b[k]));
        nan = nan || std::isnan ((double) a[k]);
    }
    if (nan) return NAN;
    if (sign) *sign = p <= m ? 1 : -1;
    return std::min (p, m);
}

template <class T>
static void
sub_axisangle (Ctx& c, uint64_t idx)
{
    typedef typename HPOf<T>::type H;
    Rng      r  = c.rng (idx);
    unsigned qc = (unsigned) (idx % NQCLS);
    Quat<T>  q  = mkq<T> (gen_unit (r, qc));
    c.eval ();
    c.cls (kQClass[qc]);
    c.nontrivial (qhash (q));
    Vec3<T> ax  = q.axis ();
    T       ang = q.angle ();
    Quat<T> b   = Quat<T> ().setAxisAngle (ax, ang);
    int     sg  = 1;
    double  err = dist_pm (b, q, &sg);
    c.cls (sg > 0 ? "reproduced_plus_q" : "reproduced_minus_q");
    if (q.v == Vec3<T> (0, 0, 0)) c.cls ("zero_imaginary_part");
    auto desc = [&] { return Obj ().raw ("q", qjson (q)).raw ("axis", vjson (ax)).kv ("angle", (double) ang).raw ("setAxisAngle(axis,angle)", qjson (b)).str (); };
    judge<T> (c, "setAxisAngle(axis,angle)", kQClass[qc], err / E<T> (), tol::axisangle, idx, desc);
    if (q.r >= 0)
    {
        H vh[3] = {(H) q.v.x, (H) q.v.y, (H) q.v.z}, d2 = 0;
        for (int i = 0; i < 3; ++i) { H d = (H) b.v[i] - sg * vh[i]; d2 += d * d; }
        H      n   = norm3 (vh);
        double rel = n > 0 ? (double) (hp::sqrt (d2) / n) / E<T> () : (d2 == 0 ? 0.0 : INFINITY);
        judge<T> (c, "setAxisAngle(axis,angle).imaginary_relative", kQClass[qc], rel, tol::axisangle, idx, desc);
    }
    if (idx % 1021 == 0) c.sample (kQClass[qc], desc);
}
#define AA_SPACE "unit quaternions from the 10 classes of rotate_agree (includes +-identity, where axis() is the zero vector)"
MON_SUB_IDX (sub_axisangle<float>, "axis_angle.float", 1500000, 20000000).req (req_q_plus ({"zero_imaginary_part", "reproduced_plus_q"})).over (AA_SPACE);
MON_SUB_IDX (sub_axisangle<double>, "axis_angle.double", 1500000, 20000000).req (req_q_plus ({"zero_imaginary_part", "reproduced_plus_q"})).over (AA_SPACE);

// ------------------------------------------------------------------ extract_quat
template <class T>
static void
sub_extract (Ctx& c, uint64_t idx)
{
    typedef typename HPOf<T>::type H;
    Rng      r  = c.rng (idx);
    unsigned qc = (unsigned) (idx % NQCLS);
    Quat<T>  q  = mkq<T> (gen_unit (r, qc));
    c.eval ();
    c.cls (kQClass[qc]);
    c.nontrivial (qhash (q));
    Matrix44<T> M = q.toMatrix44 ();
    // which branch of extractQuat this matrix takes (classification only)
    const char* br;
    T           tr = M[0][0] + M[1][1] + M[2][2];
    if (tr > 0) br = "branch_trace_positive";
    else
    {
        int i = 0;
        if (M[1][1] > M[0][0]) i = 1;
        if (M[2][2] > M[i][i]) i = 2;
        br = i == 0 ? "branch_largest_diagonal_x" : i == 1 ? "branch_largest_diagonal_y" : "branch_largest_diagonal_z";
    }
    c.cls (br);
    if (std::fabs ((double) tr) < 1e-3) c.cls ("trace_within_1e-3_of_zero");
    Quat<T> b   = extractQuat (M);
    int     sg  = 1;
    double  err = dist_pm (b, q, &sg);
    c.cls (sg > 0 ? "extracted_plus_q" : "extracted_minus_q");
    auto desc = [&] { return Obj ().raw ("q", qjson (q)).kv ("branch", br).kv ("trace", (double) tr).raw ("extractQuat(toMatrix44)", qjson (b)).str (); };
    judge<T> (c, "extractQuat", br, err / E<T> (), tol::extract, idx, desc);
    if (std::fabs ((double) q.r) > 0.5)
    {
        H vh[3] = {(H) q.v.x, (H) q.v.y, (H) q.v.z}, d2 = 0;
        for (int i = 0; i < 3; ++i) { H d = (H) b.v[i] - sg * vh[i]; d2 += d * d; }
        H      n   = norm3 (vh);
        double rel = n > 0 ? (double) (hp::sqrt (d2) / n) / E<T> () : (d2 == 0 ? 0.0 : INFINITY);
        judge<T> (c, "extractQuat.imaginary_relative", kQClass[qc], rel, tol::extract, idx, desc);
    }
    if (idx % 1031 == 0) c.sample (br, desc);
}
#define EX_SPACE "unit quaternions from the 10 classes of rotate_agree; the branch of extractQuat taken by toMatrix44() is counted per case"
#define EX_REQ req_q_plus ({"branch_trace_positive", "branch_largest_diagonal_x", "branch_largest_diagonal_y", "branch_largest_diagonal_z", "trace_within_1e-3_of_zero", "extracted_plus_q", "extracted_minus_q"})
MON_SUB_IDX (sub_extract<float>, "extract_quat.float", 1500000, 20000000).req (EX_REQ).over (EX_SPACE);
MON_SUB_IDX (sub_extract<double>, "extract_quat.double", 1500000, 20000000).req (EX_REQ).over (EX_SPACE);

// ------------------------------------------------------------------ set_axis_angle (Quat vs Matrix44 vs Rodrigues)
enum
{
    NANG = 6
};
static const char* const kAngClass[NANG] = {"angle_within_pi", "angle_within_4pi", "angle_multiple_of_half_pi_pm_1e-k", "angle_tiny", "angle_large", "angle_zero_or_pi"};

template <class T>
static void
sub_setaa (Ctx& c, uint64_t idx)
{
    typedef typename HPOf<T>::type H;
    Rng      r  = c.rng (idx);
    unsigned ac = (unsigned) (idx % NANG), vc = (unsigned) ((idx / NANG) % NVCLS);
    if (vc == 4) vc = 0;
    long double al[3], zero[3] = {0, 0, 0};
    gen_vec (r, vc, zero, al);
    Vec3<T> axis ((T) al[0], (T) al[1], (T) al[2]);
    if (axis == Vec3<T> (0, 0, 0)) axis = Vec3<T> (0, 0, 1); // the statement is about rotations: a zero axis describes none
    long double a;
    const long double PI = 3.141592653589793238462643383279502884L;
    switch (ac)
    {
        case 0: a = r.sym (3.141592653589793); break;
        case 1: a = r.sym (12.566370614359172); break;
        case 2: {
            int k = (int) r.range (1, 17);
            a     = (long double) r.range (-8, 8) * PI / 2;
            if (k < 17) a += (r.coin () ? 1 : -1) * (long double) r.uniform (0.1, 1.0) * p10 (k - 1);
            break;
        }
        case 3: a = (r.coin () ? 1 : -1) * (long double) r.uniform (0.1, 1.0) * p10 ((int) r.range (0, 11)); break;
        case 4: a = (r.coin () ? 1 : -1) * (long double) r.uniform (10.0, 1000.0); break;
        default: a = r.coin () ? 0.0L : (r.coin () ? PI : -PI); break;
    }
    T angle = (T) a;
    c.eval ();
    c.cls (kAngClass[ac]);
    c.cls (kVClass[vc]);
    c.nontrivial (hash_combine (vhash (axis), d2u ((double) angle)));

    // Rodrigues: R = cos I + sin [u]x + (1 - cos) u u^T (column convention); Imath stores the transpose
    H uh[3] = {(H) axis.x, (H) axis.y, (H) axis.z};
    H n     = norm3 (uh);
    for (int i = 0; i < 3; ++i) uh[i] /= n;
    H co = hp::cos ((H) angle), si = hp::sin ((H) angle);
    H R[3][3];
    for (int i = 0; i < 3; ++i)
        for (int j = 0; j < 3; ++j)
        {
            H cross = 0; // [u]x[i][j] = -epsilon_ijk u_k
            int k   = 3 - i - j;
            if (i != j) cross = ((j - i + 3) % 3 == 1) ? -uh[k] : uh[k];
            R[i][j] = (i == j ? co : (H) 0) + si * cross + (1 - co) * uh[i] * uh[j];
        }
    Quat<T>     q  = Quat<T> ().setAxisAngle (axis, angle);
    Matrix44<T> Mq = q.toMatrix44 ();
    Matrix44<T> Mm;
    Mm.makeIdentity ();
    Mm.setAxisAngle (axis, angle);
    double un = std::fabs ((double) (hnorm (toH (q)) - 1)) / E<T> ();
    auto   desc0 = [&] { return Obj ().raw ("axis", vjson (axis)).kv ("angle", (double) angle).raw ("Quat.setAxisAngle", qjson (q)).str (); };
    judge<T> (c, "Quat.setAxisAngle.unit", kAngClass[ac], un, tol::setaa, idx, desc0);
    for (int i = 0; i < 4; ++i)
        for (int j = 0; j < 4; ++j)
        {
            auto desc = [&] {
                return Obj ().raw ("axis", vjson (axis)).kv ("angle", (double) angle).kv ("Quat.setAxisAngle.toMatrix44", (double) Mq[i][j]).kv ("Matrix44.setAxisAngle", (double) Mm[i][j]).kv ("rodrigues", i < 3 && j < 3 ? (double) R[j][i] : (i == j ? 1.0 : 0.0)).str ();
            };
            if (i < 3 && j < 3)
            {
                double rq = (double) hp::fabs ((H) Mq[i][j] - R[j][i]) / E<T> ();
                double rm = (double) hp::fabs ((H) Mm[i][j] - R[j][i]) / E<T> ();
                double ra = std::fabs ((double) Mq[i][j] - (double) Mm[i][j]) / E<T> ();
                judge<T> (c, "Quat.setAxisAngle", slot2 (i, j).c_str (), rq, tol::setaa, idx, desc);
                judge<T> (c, "Matrix44.setAxisAngle", slot2 (i, j).c_str (), rm, tol::setaa, idx, desc);
                judge<T> (c, "setAxisAngle.quat_vs_matrix", slot2 (i, j).c_str (), ra, tol::setaa, idx, desc);
            }
            else if (Mm[i][j] != (i == j ? T (1) : T (0)))
                c.fail (std::string ("Matrix44.setAxisAngle.") + tname<T> () + ":" + slot2 (i, j), idx, desc);
        }
    if (idx % 1033 == 0) c.sample (kAngClass[ac], desc0);
}
#define SAA_SPACE "non-zero axes (generic 2^-30..2^30, axis aligned, mixed magnitudes, zero components, integer lattice) x angles (within +-pi, within +-4pi, multiples of pi/2 +- 1e-k incl. exact, tiny 1e-1..1e-12, large 10..1000, exactly 0 / +-pi)"
MON_SUB_IDX (sub_setaa<float>, "set_axis_angle.float", 1000000, 20000000)
    .req ({"angle_within_pi", "angle_within_4pi", "angle_multiple_of_half_pi_pm_1e-k", "angle_tiny", "angle_large", "angle_zero_or_pi", "v_generic", "v_axis_aligned", "v_mixed_magnitude", "v_zero_components", "v_integer_lattice"})
    .over (SAA_SPACE);
MON_SUB_IDX (sub_setaa<double>, "set_axis_angle.double", 500000, 10000000)
    .req ({"angle_within_pi", "angle_within_4pi", "angle_multiple_of_half_pi_pm_1e-k", "angle_tiny", "angle_large", "angle_zero_or_pi", "v_generic", "v_axis_aligned", "v_mixed_magnitude", "v_zero_components", "v_integer_lattice"})
    .over (SAA_SPACE);

MON_MAIN ("c10_rotation")
