// C05 - shared machinery of the three translation units of the c05_products monitor.
//
// Oracles: every product is recomputed as a textbook sum written as LOOPS over
// indices (Leibniz permutations for determinants / minors, Levi-Civita for cross
// products, the Hamilton basis table for quaternions) in a wider type
// (long double for float operands, __float128 for double operands), together
// with the sum of the absolute values of the terms.  A result is accepted when
//      |got - ref| <= C * eps(T) * sum|terms|
// and, on integer lattices (all operands small integers, every intermediate
// value exactly representable), when got == ref exactly.
#pragma once
#include "mon.h"
#include <quadmath.h>
#include <ImathVec.h>
#include <ImathMatrix.h>
#include <ImathMatrixAlgo.h>
#include <ImathQuat.h>

namespace c05
{
using namespace mon;
using namespace IMATH_NAMESPACE;

template <class T> struct Ref;
template <> struct Ref<float>
{
    using type = long double;
    static const char* name () { return "float"; }
};
template <> struct Ref<double>
{
    using type = __float128;
    static const char* name () { return "double"; }
};

template <class R> inline R rabs (R x) { return x < 0 ? -x : x; }

inline uint64_t bits_of (float f) { return f2u (f); }
inline uint64_t bits_of (double d) { return d2u (d); }
template <class T> inline bool same_bits (T a, T b) { return bits_of (a) == bits_of (b) || (std::isnan (a) && std::isnan (b)); }

template <class T, int N> struct VecOf;
template <class T> struct VecOf<T, 2> { using type = Vec2<T>; };
template <class T> struct VecOf<T, 3> { using type = Vec3<T>; };
template <class T> struct VecOf<T, 4> { using type = Vec4<T>; };
template <class T, int N> struct MatOf;
template <class T> struct MatOf<T, 2> { using type = Matrix22<T>; };
template <class T> struct MatOf<T, 3> { using type = Matrix33<T>; };
template <class T> struct MatOf<T, 4> { using type = Matrix44<T>; };

template <class T, int N> inline typename VecOf<T, N>::type
make_vec (const T* a)
{
    typename VecOf<T, N>::type v;
    for (int i = 0; i < N; ++i) v[i] = a[i];
    return v;
}
template <class T, int N> inline typename MatOf<T, N>::type
make_mat (const T (&a)[N][N])
{
    typename MatOf<T, N>::type m;
    for (int i = 0; i < N; ++i)
        for (int j = 0; j < N; ++j) m[i][j] = a[i][j];
    return m;
}

// ---------------------------------------------------------------- input classes
// The class of a case is idx % NCLS, so every class is hit deterministically.
enum Cls
{
    K_DENSE = 0,    // uniform in [-1,1] times one power of two per operand: every term matters
    K_LOG,          // every entry +-m*2^e, e uniform: terms of very different magnitude
    K_LATTICE,      // integers in -L..L: every result exact
    K_SPARSE,       // about half of the entries +-0 (random positions, random sign of zero)
    K_AFFINE,       // matrices: last column exactly (0,..,0,1); vectors: dense
    K_ZEROCOL,      // matrices: a non-empty random subset of the last column is +-0; vectors: one axis only
    K_LATSPARSE,    // integer lattice with about half the entries zero, last column partly zero: exact + zero skipping
    K_SZERO,        // entries drawn from {+0,-0,+1,-1,dense}: signed zeros
    K_PERM,         // matrices: signed scaled permutation matrix (one term of every sum survives); vectors: dense
    K_NCLS
};
static const char* const cls_name[K_NCLS] = {"dense", "logscale", "lattice", "sparse", "affine", "zero_lastcol", "lattice_sparse", "signed_zero", "scaled_permutation"};
#define C05_ALL_CLASSES "dense", "logscale", "lattice", "sparse", "affine", "zero_lastcol", "lattice_sparse", "signed_zero", "scaled_permutation"

inline bool is_lattice (int cls) { return cls == K_LATTICE || cls == K_LATSPARSE; }

struct GenParam
{
    int smax = 10; // dense: common scale 2^s, s in [-smax,smax]
    int emax = 8;  // logscale: exponent range
    int L    = 8;  // lattice range
};

template <class T> inline T
signed_zero (Rng& r)
{
    return r.coin () ? T (0) : -T (0);
}

template <class T, int N> inline void
gen_vec (Rng& r, int cls, T* a, const GenParam& g = GenParam ())
{
    double scale = std::ldexp (1.0, (int) r.range (-g.smax, g.smax));
    switch (cls)
    {
        case K_LOG:
            for (int i = 0; i < N; ++i) a[i] = (T) r.logscale (-g.emax, g.emax);
            break;
        case K_LATTICE:
            for (int i = 0; i < N; ++i) a[i] = (T) r.range (-g.L, g.L);
            break;
        case K_LATSPARSE:
            for (int i = 0; i < N; ++i) a[i] = r.coin () ? signed_zero<T> (r) : (T) r.range (-g.L, g.L);
            break;
        case K_SPARSE:
            for (int i = 0; i < N; ++i) a[i] = r.coin () ? signed_zero<T> (r) : (T) (r.sym () * scale);
            break;
        case K_ZEROCOL: { // one axis only
            int k = (int) r.range (0, N - 1);
            for (int i = 0; i < N; ++i) a[i] = i == k ? (T) (r.sym () * scale) : signed_zero<T> (r);
            break;
        }
        case K_SZERO:
            for (int i = 0; i < N; ++i)
            {
                switch (r.range (0, 4))
                {
                    case 0: a[i] = T (0); break;
                    case 1: a[i] = -T (0); break;
                    case 2: a[i] = T (1); break;
                    case 3: a[i] = T (-1); break;
                    default: a[i] = (T) (r.sym () * scale);
                }
            }
            break;
        default: // dense, affine, perm
            for (int i = 0; i < N; ++i) a[i] = (T) (r.sym () * scale);
    }
}

template <class T, int N> inline void
gen_mat (Rng& r, int cls, T (&a)[N][N], const GenParam& g = GenParam ())
{
    double scale = std::ldexp (1.0, (int) r.range (-g.smax, g.smax));
    auto   dense = [&] { return (T) (r.sym () * scale); };
    switch (cls)
    {
        case K_LOG:
            for (int i = 0; i < N; ++i)
                for (int j = 0; j < N; ++j) a[i][j] = (T) r.logscale (-g.emax, g.emax);
            break;
        case K_LATTICE:
            for (int i = 0; i < N; ++i)
                for (int j = 0; j < N; ++j) a[i][j] = (T) r.range (-g.L, g.L);
            break;
        case K_LATSPARSE: {
            for (int i = 0; i < N; ++i)
                for (int j = 0; j < N; ++j) a[i][j] = r.coin () ? signed_zero<T> (r) : (T) r.range (-g.L, g.L);
            int mask = (int) r.range (0, (1 << N) - 1);
            for (int i = 0; i < N; ++i)
                if (mask & (1 << i)) a[i][N - 1] = signed_zero<T> (r);
            break;
        }
        case K_SPARSE:
            for (int i = 0; i < N; ++i)
                for (int j = 0; j < N; ++j) a[i][j] = r.coin () ? signed_zero<T> (r) : dense ();
            break;
        case K_AFFINE:
            for (int i = 0; i < N; ++i)
                for (int j = 0; j < N; ++j) a[i][j] = dense ();
            for (int i = 0; i < N; ++i) a[i][N - 1] = i == N - 1 ? T (1) : T (0);
            break;
        case K_ZEROCOL: {
            for (int i = 0; i < N; ++i)
                for (int j = 0; j < N; ++j) a[i][j] = dense ();
            int mask = (int) r.range (1, (1 << N) - 1);
            for (int i = 0; i < N; ++i)
                if (mask & (1 << i)) a[i][N - 1] = signed_zero<T> (r);
            break;
        }
        case K_SZERO:
            for (int i = 0; i < N; ++i)
                for (int j = 0; j < N; ++j)
                {
                    switch (r.range (0, 4))
                    {
                        case 0: a[i][j] = T (0); break;
                        case 1: a[i][j] = -T (0); break;
                        case 2: a[i][j] = T (1); break;
                        case 3: a[i][j] = T (-1); break;
                        default: a[i][j] = dense ();
                    }
                }
            break;
        case K_PERM: {
            int p[4] = {0, 1, 2, 3};
            for (int i = N - 1; i > 0; --i) std::swap (p[i], p[(int) r.range (0, i)]);
            for (int i = 0; i < N; ++i)
                for (int j = 0; j < N; ++j) a[i][j] = j == p[i] ? dense () : signed_zero<T> (r);
            break;
        }
        default:
            for (int i = 0; i < N; ++i)
                for (int j = 0; j < N; ++j) a[i][j] = dense ();
    }
}

template <class T> inline uint64_t
hash_arr (uint64_t h, const T* p, int n)
{
    for (int i = 0; i < n; ++i) h = (h ^ bits_of (p[i])) * 0x9E3779B97F4A7C15ull + (h >> 29);
    return h;
}

// ---------------------------------------------------------------- judging
// ratio = |got - ref| / (eps * sabs); 0 when got == ref; +inf when got is not
// finite or when the sum of absolute terms is 0 and got != 0.
template <class T, class R> inline double
err_ratio (T got, R ref, R sabs)
{
    if (!std::isfinite (got)) return INFINITY;
    R d = rabs ((R) got - ref);
    if (d == 0) return 0.0;
    if (!(sabs > 0)) return INFINITY;
    return (double) (d / ((R) eps_of<T>::value * sabs));
}

// One scalar result judged against its reference.  Lattice classes: exact.
template <class T, class R> inline bool
is_bad (int cls, T got, R ref, double ratio, double C)
{
    if (is_lattice (cls)) return !((R) got == ref);
    return !(ratio <= C);
}

template <class T> inline std::string
tname ()
{
    return Ref<T>::name ();
}

inline std::string
slot1 (int i)
{
    return "slot[" + std::to_string (i) + "]";
}
inline std::string
slot2 (int i, int j)
{
    return "slot[" + std::to_string (i) + "][" + std::to_string (j) + "]";
}

// Leibniz determinant of the n x n submatrix (rows[i], cols[j]) of a, and the
// sum of the absolute values of its n! terms.
template <class R, class T, int N> inline void
ref_det (const T (&a)[N][N], const int* rows, const int* cols, int n, R& det, R& sabs)
{
    int p[4] = {0, 1, 2, 3};
    det = 0;
    sabs = 0;
    do
    {
        int inv = 0;
        for (int i = 0; i < n; ++i)
            for (int j = i + 1; j < n; ++j)
                if (p[i] > p[j]) ++inv;
        R t = 1;
        for (int i = 0; i < n; ++i) t *= (R) a[rows[i]][cols[p[i]]];
        sabs += rabs (t);
        det += (inv & 1) ? -t : t;
    } while (std::next_permutation (p, p + n));
}

} // namespace c05
