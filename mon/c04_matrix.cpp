// C04 - element-wise operators and equality of Matrix22/33/44 x {float,double}
// (harness in c04_common.h).
#include "c04_common.h"
using namespace IMATH_INTERNAL_NAMESPACE;

C04_REG_OPS (Matrix22<float>, "Matrix22_float");
C04_REG_OPS (Matrix22<double>, "Matrix22_double");
C04_REG_OPS (Matrix33<float>, "Matrix33_float");
C04_REG_OPS (Matrix33<double>, "Matrix33_double");
C04_REG_OPS (Matrix44<float>, "Matrix44_float");
C04_REG_OPS (Matrix44<double>, "Matrix44_double");

C04_REG_EQ (Matrix22<float>, "Matrix22_float");
C04_REG_EQ (Matrix22<double>, "Matrix22_double");
C04_REG_EQ (Matrix33<float>, "Matrix33_float");
C04_REG_EQ (Matrix33<double>, "Matrix33_double");
C04_REG_EQ (Matrix44<float>, "Matrix44_float");
C04_REG_EQ (Matrix44<double>, "Matrix44_double");
