// C14 - float stress part: real-valued boxes with moderate coordinates, *unit* directions
// (as Line3's constructor produces; partly produced BY that constructor) whose components
// are +0, -0, denormal, the smallest normal, 1e-30, 2^-k, and un-normalised directions with
// huge components.  "Direction components that are zero, denormal or huge never turn a hit
// into a miss or vice versa through division overflow."
//
// Oracle: the slab test written as a loop over the axes in higher precision (long double
// for float, __float128 for double); every quotient (face - pos)/dir is formed directly
// (no guards: the wide exponent range cannot overflow).  A verdict is given only if the
// decision is robust: every comparison t_near(i) <= t_far(j), i != j, that decides the
// case holds or fails with a relative margin > 1e-4 (comparisons with an exact 0 are
// exact); near ties are skipped and counted (they are what the lattices are for), and so
// are cases in which a quotient underflows (relative precision lost) or lies within 1e-3
// of the overflow threshold.
//
// The class `partial_overflow` (one of the two quotients of an axis overflows T, the other
// does not - e.g. origin exactly on a face plane and a denormal direction component) is
// reported under its own key: findEntryAndExitPoints treats such an axis as parallel.
#include "c14_common.h"
#include <quadmath.h>

using namespace c14;

namespace
{
template <class T> struct HPof;
template <> struct HPof<float> { typedef long double type; };
template <> struct HPof<double> { typedef __float128 type; };

template <class H> inline H habs (H x) { return x < 0 ? -x : x; }
template <class H> inline double
to_d (H x)
{
    if (x > (H) 1.7e308) return std::numeric_limits<double>::infinity ();
    if (x < (H) -1.7e308) return -std::numeric_limits<double>::infinity ();
    return (double) x;
}

constexpr double MARGIN     = 1e-4;
constexpr double PT_TOL_S   = 16.0; // same formula as PT_TOL; calibrated worst ratio see c14_common.h

template <class T> struct SCase
{
    T    lo[3], hi[3], p[3], d[3];
    bool via_ctor = false;
};

template <class T> inline std::string bits (T v);
template <> inline std::string bits<float> (float v) { return hex32 (f2u (v)); }
template <> inline std::string bits<double> (double v) { return hex64 (d2u (v)); }

template <class T>
std::string
scase_json (const SCase<T>& k)
{
    std::string hb;
    for (int j = 0; j < 3; ++j) hb += (j ? " " : "") + bits (k.lo[j]);
    hb += " |";
    for (int j = 0; j < 3; ++j) hb += " " + bits (k.hi[j]);
    hb += " |";
    for (int j = 0; j < 3; ++j) hb += " " + bits (k.p[j]);
    hb += " |";
    for (int j = 0; j < 3; ++j) hb += " " + bits (k.d[j]);
    return Obj ().arr ("box_min", k.lo, 3).arr ("box_max", k.hi, 3).arr ("pos", k.p, 3).arr ("dir", k.d, 3).kv ("bits_min|max|pos|dir", hb).kv ("dir_from_Line3_ctor", k.via_ctor).str ();
}

// ------------------------------------------------------------------ generator
template <class T> struct Lim;
template <> struct Lim<float>
{
    static constexpr int MANT = 23, KMAX = 126, EHUGE = 125;
    static float denormal (Rng& r) { return u2f ((uint32_t) r.range (1, 0x7fffff)); }
    static float small_dec () { return 1e-38f; } // denormal in binary32
};
template <> struct Lim<double>
{
    static constexpr int MANT = 52, KMAX = 1022, EHUGE = 1021;
    static double denormal (Rng& r) { return u2d ((uint64_t) r.range (1, (1ll << 52) - 1)); }
    static double small_dec () { return 1e-300; }
};

// kinds: 0 denorm_min, 1 random denormal, 2 smallest normal, 3 1e-30, 4 2^-k (k in [20,KMAX]) * [1,2), 5 1e-38f / 1e-300
template <class T>
inline T
tinyval (Rng& r, int kind)
{
    T v;
    switch (kind)
    {
    case 0: v = std::numeric_limits<T>::denorm_min (); break;
    case 1: v = Lim<T>::denormal (r); break;
    case 2: v = std::numeric_limits<T>::min (); break;
    case 3: v = T (1e-30); break;
    case 4: v = (T) std::ldexp (1.0 + r.uniform (), -(int) r.range (20, Lim<T>::KMAX)); break;
    default: v = Lim<T>::small_dec (); break;
    }
    return r.coin () ? v : -v;
}

enum Role { REG, ZERO, SPECIAL };

// returns false if the case is outside the domain (zero / non-finite direction)
template <class T>
bool
gen_stress (Rng& r, uint64_t idx, SCase<T>& k)
{
    int cls = (int) (idx % 10);
    // ---- box with moderate coordinates
    int bk = (int) (r.u64 () % 4);
    for (int j = 0; j < 3; ++j)
    {
        double a, b;
        if (bk == 0) { a = (double) r.range (-10, 10); b = (double) r.range (-10, 10); }
        else if (bk == 1) { a = r.sym (10); b = r.sym (10); }
        else if (bk == 2) { a = r.coin () ? 0.0 : r.sym (10); b = r.sym (10); }
        else { double ce = r.sym (10), h = 1e-3 * r.uniform (0.1, 1); a = ce - h; b = ce + h; }
        k.lo[j] = (T) std::min (a, b);
        k.hi[j] = (T) std::max (a, b);
    }
    if (r.one_in (8)) { int j = (int) r.range (0, 2); k.hi[j] = k.lo[j]; }

    // ---- roles of the three direction components
    Role role[3] = {REG, REG, REG};
    int  kind[3] = {0, 0, 0};
    int  a0 = (int) r.range (0, 2);
    bool huge = false;
    int  pattern = cls;
    if (cls == 5) { huge = true; pattern = (int) (r.u64 () % 5); }
    if (cls == 8) pattern = (int) (r.u64 () % 5);
    switch (pattern)
    {
    case 0: case 9:
        for (int j = 0; j < 2; ++j) if (r.one_in (8)) role[(a0 + j) % 3] = ZERO;
        break;
    case 1: role[a0] = SPECIAL; kind[a0] = (int) (r.u64 () % 3); break;
    case 2: role[a0] = SPECIAL; kind[a0] = 3 + (int) (r.u64 () % 3); break;
    case 3: role[a0] = ZERO; if (r.coin ()) role[(a0 + 1) % 3] = ZERO; break;
    case 4:
        for (int i = 0; i < 2; ++i)
        {
            int j = (a0 + i) % 3;
            if (r.one_in (3)) role[j] = ZERO;
            else { role[j] = SPECIAL; kind[j] = (int) (r.u64 () % 6); }
        }
        break;
    case 6: case 7: role[a0] = SPECIAL; kind[a0] = (int) (r.u64 () % 2); break;
    }
    // ---- unit direction over the regular components (long double), specials set directly
    long double v[3] = {0, 0, 0}, len2 = 0;
    for (int j = 0; j < 3; ++j)
        if (role[j] == REG)
        {
            double x = r.uniform (0.05, 1.0);
            v[j] = r.coin () ? x : -x;
            len2 += v[j] * v[j];
        }
    long double len = sqrtl (len2);
    for (int j = 0; j < 3; ++j)
    {
        if (role[j] == REG) k.d[j] = (T) (v[j] / len);
        else if (role[j] == ZERO) k.d[j] = r.coin () ? T (0) : -T (0);
        else k.d[j] = tinyval<T> (r, kind[j]);
    }

    // ---- origin: regular axes aimed at a target point q in / near the box, special axes from a menu
    long double s = r.uniform (-3, 12);
    if (r.one_in (6)) s = 0; // origin at the target itself (inside / on the surface / just outside)
    for (int j = 0; j < 3; ++j)
    {
        long double lo = k.lo[j], hi = k.hi[j];
        long double u  = r.one_in (10) ? (r.coin () ? 0.0 : 1.0) : (r.u64 () % 10 < 7 ? r.uniform () : r.uniform (-0.3, 1.3));
        long double q  = lo + (hi - lo) * u;
        if (role[j] == REG)
        {
            k.p[j] = (T) (q - s * (long double) k.d[j]);
            if (r.one_in (12)) k.p[j] = r.coin () ? k.lo[j] : k.hi[j]; // exactly on a face plane with a regular component
        }
        else
        {
            switch (r.u64 () % 8)
            {
            case 0: case 1: case 2: k.p[j] = (T) (lo + (hi - lo) * r.uniform ()); break;
            case 3: k.p[j] = k.lo[j]; break;
            case 4: k.p[j] = k.hi[j]; break;
            case 5: k.p[j] = (T) (lo - r.uniform (0.01, 3)); break;
            case 6: k.p[j] = (T) (hi + r.uniform (0.01, 3)); break;
            default: k.p[j] = k.lo[j] + tinyval<T> (r, (int) (r.u64 () % 6)); break;
            }
        }
    }
    if (cls == 6) // origin exactly on a face plane of the axis with the denormal component
        k.p[a0] = r.coin () ? k.lo[a0] : k.hi[a0];
    if (cls == 7) // face at 0, origin at a denormal-scale distance such that its quotient is moderate
    {
        if (r.coin ()) k.lo[a0] = 0, k.hi[a0] = (T) r.uniform (0.5, 10);
        else k.hi[a0] = 0, k.lo[a0] = (T) -r.uniform (0.5, 10);
        k.p[a0] = (T) (-(long double) k.d[a0] * (long double) r.uniform (-20, 20));
    }
    if (r.one_in (32)) // empty box
    {
        int j = (int) r.range (0, 2);
        if (k.lo[j] < k.hi[j]) std::swap (k.lo[j], k.hi[j]);
    }

    if (cls == 8) // let Line3's constructor normalise: dir = (p2 - p1).normalized()
    {
        Vec3<T> p1, p2;
        for (int j = 0; j < 3; ++j)
        {
            if (role[j] != REG && r.coin ())
            {
                // a denormal difference survives only next to 0: put the origin coordinate at 0 and the slab around / at / beside it
                k.p[j] = 0;
                switch (r.u64 () % 4)
                {
                case 0: k.lo[j] = (T) -r.uniform (0.5, 3); k.hi[j] = (T) r.uniform (0.5, 3); break;
                case 1: k.lo[j] = 0; k.hi[j] = (T) r.uniform (0.5, 3); break;
                case 2: k.hi[j] = 0; k.lo[j] = (T) -r.uniform (0.5, 3); break;
                default: k.lo[j] = (T) r.uniform (0.5, 3); k.hi[j] = k.lo[j] + (T) r.uniform (0.5, 3); break;
                }
            }
            p1[j] = k.p[j];
        }
        long double L = r.uniform (0.5, 4);
        for (int j = 0; j < 3; ++j) p2[j] = role[j] == REG ? (T) ((long double) p1[j] + L * (long double) k.d[j]) : p1[j] + k.d[j];
        Line3<T> ln (p1, p2);
        for (int j = 0; j < 3; ++j) { k.p[j] = ln.pos[j]; k.d[j] = ln.dir[j]; }
        k.via_ctor = true;
    }

    if (huge) // un-normalised: scale all components by 2^e (exact), or make one component huge
    {
        if (r.coin ())
        {
            int e = (int) r.range (20, Lim<T>::EHUGE);
            for (int j = 0; j < 3; ++j) k.d[j] = (T) std::ldexp ((double) k.d[j], e);
        }
        else
        {
            // one regular component becomes huge; the origin is either far away (so that the ray still reaches the box
            // region at a moderate parameter... of the other axes) or stays where it is
            int j = a0;
            for (int i = 0; i < 3 && role[j] != REG; ++i) j = (j + 1) % 3;
            int e = (int) r.range (20, Lim<T>::EHUGE - 12);
            T   old = k.d[j];
            k.d[j]  = (T) std::ldexp ((double) k.d[j], e);
            if (r.coin ())
            {
                long double q = (long double) k.p[j] + s * (long double) old; // the target coordinate
                k.p[j]        = (T) (q - s * (long double) k.d[j]);
            }
        }
    }
    bool any = false;
    for (int j = 0; j < 3; ++j)
    {
        if (!std::isfinite (k.d[j]) || !std::isfinite (k.p[j])) return false;
        if (k.d[j] != 0) any = true;
    }
    return any;
}

// ------------------------------------------------------------------ oracle
enum
{
    S_EMPTY, S_FLAT, S_INSIDE, S_ON_FACE_PLANE, S_DIR_ZERO, S_DIR_NEGZERO, S_DIR_DENORMAL, S_DIR_TINY, S_DIR_HUGE, S_DIR_REGULAR, S_CTOR, S_CTOR_DENORMAL, S_PARTIAL,
    S_LINE_HIT, S_LINE_MISS, S_RAY_HIT, S_RAY_MISS, S_BEHIND, S_BINDING_TINY_AXIS, S_OVERFLOWING_QUOTIENT,
    S_SKIP_TIE, S_SKIP_UNDERFLOW, S_SKIP_THRESHOLD, S_SKIP_DOMAIN, S_N
};
const char* const S_NAME[S_N] = {"empty_box", "flat_box", "origin_inside", "origin_on_face_plane", "dir_zero", "dir_negzero", "dir_denormal", "dir_tiny",
                                 "dir_huge", "dir_regular", "dir_from_Line3_ctor", "denormal_dir_from_Line3_ctor", "partial_overflow", "line_hit", "line_miss", "ray_hit", "ray_miss",
                                 "box_behind_origin", "hit_bound_by_tiny_axis", "overflowing_quotient", "skipped_near_tie", "skipped_underflow",
                                 "skipped_near_overflow_threshold", "skipped_zero_or_nonfinite_dir"};

template <class T> struct SVerdict
{
    typedef typename HPof<T>::type H;
    bool        skip = false;
    int         skipwhy = 0;
    bool        empty = false, flat = false, inside = true, slab_ok = true, on_face = false, partial = false, overflowing = false;
    bool        zero = false, negzero = false, denormal = false, tiny = false, huge = false;
    int         line = 0, ray = 0; // +1 hit, -1 miss, 0 undecided
    H           te = 0, tx = 0;
    int         te_axis = -1;
};

template <class T>
SVerdict<T>
stress_oracle (const SCase<T>& k)
{
    typedef typename HPof<T>::type H;
    SVerdict<T> v;
    const H     TMAXH = (H) std::numeric_limits<T>::max (), MINH = (H) std::numeric_limits<T>::min ();
    H           tn[3], tf[3];
    bool        nz[3];
    bool        far_negative = false;
    for (int j = 0; j < 3; ++j)
    {
        T lo = k.lo[j], hi = k.hi[j], p = k.p[j], d = k.d[j];
        if (lo > hi) v.empty = true;
        if (lo == hi) v.flat = true;
        bool in = lo <= p && p <= hi;
        if (!in) v.inside = false;
        if (p == lo || p == hi) v.on_face = true;
        T ad = std::fabs (d);
        if (d == 0) { (std::signbit (d) ? v.negzero : v.zero) = true; }
        else if (ad < std::numeric_limits<T>::min ()) v.denormal = true;
        else if (ad < T (1e-20)) v.tiny = true;
        else if (ad >= T (1048576)) v.huge = true;
        nz[j] = d != 0;
        tn[j] = tf[j] = 0;
        if (!nz[j])
        {
            if (!in) v.slab_ok = false;
            continue;
        }
        H q1 = ((H) lo - (H) p) / (H) d, q2 = ((H) hi - (H) p) / (H) d;
        tn[j] = q1 < q2 ? q1 : q2;
        tf[j] = q1 < q2 ? q2 : q1;
        bool o[2];
        H    q[2] = {q1, q2};
        for (int i = 0; i < 2; ++i)
        {
            H a = habs (q[i]);
            if (a != 0 && a < MINH * (H) 1048576) { v.skip = true; v.skipwhy = S_SKIP_UNDERFLOW; }
            o[i] = a > TMAXH;
            if (a > TMAXH * (H) 0.999 && a < TMAXH * (H) 1.001) { v.skip = true; v.skipwhy = S_SKIP_THRESHOLD; }
        }
        if (o[0] != o[1]) v.partial = true;
        if (o[0] || o[1]) v.overflowing = true;
        if (tf[j] < 0) far_negative = true;
    }
    if (v.empty)
    {
        v.line = v.ray = -1;
        v.flat = v.inside = false;
        v.skip = false;
        return v;
    }
    if (!v.slab_ok)
    {
        v.line = v.ray = -1; // exact comparisons only
        v.skip = false;
        return v;
    }
    if (v.skip) return v;
    bool hit_robust = true, miss_robust = false, first = true;
    const H DM = (H) MARGIN;
    for (int i = 0; i < 3; ++i)
    {
        if (!nz[i]) continue;
        if (first || tn[i] > v.te) { v.te = tn[i]; v.te_axis = i; }
        if (first || tf[i] < v.tx) v.tx = tf[i];
        first = false;
        for (int j = 0; j < 3; ++j)
        {
            if (!nz[j] || j == i) continue;
            H a = tn[i], b = tf[j];
            H au = a + DM * habs (a), al = a - DM * habs (a), bu = b + DM * habs (b), bl = b - DM * habs (b);
            if (!(au <= bl)) hit_robust = false;
            if (al > bu) miss_robust = true;
        }
    }
    v.line = miss_robust ? -1 : hit_robust ? 1 : 0;
    v.ray  = (far_negative || v.line < 0) ? -1 : v.line; // a far face behind the origin (sign of a quotient is exact)
    return v;
}

template <class T>
const char*
stress_keyclass (const SVerdict<T>& v, bool for_line)
{
    if (for_line && v.partial) return "partial_overflow";
    if (v.empty) return "empty_box";
    if (v.huge) return "dir_huge";
    if (v.denormal) return "dir_denormal";
    if (v.tiny) return "dir_tiny";
    if (v.negzero) return "dir_negzero";
    if (v.zero) return "dir_zero";
    return "dir_regular";
}

// error ratio of a reported point against clamp(pos + t*dir): inf if outside the box / not on the surface (when required) / NaN
template <class T>
double
stress_point_ratio (const Vec3<T>& g, const SCase<T>& k, typename HPof<T>::type t, bool need_surface)
{
    typedef typename HPof<T>::type H;
    const double INF = std::numeric_limits<double>::infinity ();
    bool   surf = false;
    double r    = 0;
    for (int j = 0; j < 3; ++j)
    {
        if (!(g[j] >= k.lo[j] && g[j] <= k.hi[j])) return INF;
        if (g[j] == k.lo[j] || g[j] == k.hi[j]) surf = true;
        H td = t * (H) k.d[j], P = (H) k.p[j] + td;
        if (P < (H) k.lo[j]) P = (H) k.lo[j];
        if (P > (H) k.hi[j]) P = (H) k.hi[j];
        H err = habs ((H) g[j] - P);
        // results of denormal magnitude carry an absolute rounding error of up to half a denormal quantum per operation
        // (the product t*dir_j may even underflow to 0): allow 4 quanta before the relative formula applies
        err -= (H) 4 * (H) std::numeric_limits<T>::denorm_min ();
        if (err <= 0) continue;
        H scale = habs ((H) k.p[j]) + habs (td);
        if (scale == 0) return INF;
        r = std::max (r, to_d (err / ((H) eps_of<T>::value * scale)));
    }
    if (need_surface && !surf) return INF;
    return r;
}

template <class T>
void
sub_stress (Ctx& c, uint64_t b, uint64_t e)
{
    uint64_t    n[S_N] = {};
    uint64_t    evals = 0;
    std::string ty = tname<T> ();
    static const char* const wn_f[3] = {"stress.intersects3.float.ip_err/(eps*(|pos|+|t*dir|))", "stress.findEntryAndExitPoints.float.entry_err/(eps*(|pos|+|t*dir|))",
                                        "stress.findEntryAndExitPoints.float.exit_err/(eps*(|pos|+|t*dir|))"};
    static const char* const wn_d[3] = {"stress.intersects3.double.ip_err/(eps*(|pos|+|t*dir|))", "stress.findEntryAndExitPoints.double.entry_err/(eps*(|pos|+|t*dir|))",
                                        "stress.findEntryAndExitPoints.double.exit_err/(eps*(|pos|+|t*dir|))"};
    const char* const* wn = sizeof (T) == 4 ? wn_f : wn_d;
    double   wr[3] = {-1, -1, -1};
    uint64_t wi[3] = {0, 0, 0};
    SCase<T> wk[3];
    for (uint64_t idx = b; idx < e; ++idx)
    {
        Rng      r = c.rng (idx);
        SCase<T> k;
        if (!gen_stress (r, idx, k)) { ++n[S_SKIP_DOMAIN]; continue; }
        SVerdict<T> v = stress_oracle (k);
        if (v.skip) { ++n[v.skipwhy]; continue; }

        Box<Vec3<T>> box (Vec3<T> (k.lo[0], k.lo[1], k.lo[2]), Vec3<T> (k.hi[0], k.hi[1], k.hi[2]));
        Line3<T>     ln;
        ln.pos = Vec3<T> (k.p[0], k.p[1], k.p[2]);
        ln.dir = Vec3<T> (k.d[0], k.d[1], k.d[2]);
        Got<T> g = run_lib (box, ln);
        ++evals;

        auto det = [&] (const char* what) {
            return Obj ().kv ("what", what).raw ("case", scase_json (k)).raw ("got", got_json (g))
                .kv ("want_ray_hit(+1/-1, 0=not judged)", v.ray).kv ("want_line_hit(+1/-1, 0=not judged)", v.line).kv ("origin_inside", v.inside)
                .kv ("t_enter", to_d (v.te)).kv ("t_exit", to_d (v.tx)).str ();
        };
        if (c.verbose) std::fprintf (stderr, "[replay] %s\n", det ("replay").c_str ());
        const char *clr = stress_keyclass (v, false), *cll = stress_keyclass (v, true);

        // ---- ray
        if (v.ray == 0) ++n[S_SKIP_TIE];
        else
        {
            bool want = v.ray > 0;
            ++n[want ? S_RAY_HIT : S_RAY_MISS];
            if (g.r3 != want) c.fail ("intersects3." + ty + ":truth." + clr, idx, [&] { return det ("intersects(box,ray,ip) truth value"); });
            if (g.r2 != want) c.fail ("intersects2." + ty + ":truth." + clr, idx, [&] { return det ("intersects(box,ray) truth value"); });
            if (want && g.r3)
            {
                if (v.inside)
                {
                    if (!(g.ip == ln.pos)) c.fail ("intersects3." + ty + ":ip." + clr, idx, [&] { return det ("ip must be the ray origin (origin inside the box)"); });
                }
                else
                {
                    double rr = stress_point_ratio (g.ip, k, v.te, true);
                    if (std::isfinite (rr) && rr > wr[0]) { wr[0] = rr; wi[0] = idx; wk[0] = k; }
                    if (!(rr <= PT_TOL_S)) c.fail ("intersects3." + ty + ":ip." + clr, idx, [&] { return det ("ip must be clamp(pos + t_enter*dir), in the box, on its surface"); });
                }
            }
        }
        // ---- full line
        if (v.line == 0) ++n[S_SKIP_TIE];
        else
        {
            bool want = v.line > 0;
            ++n[want ? S_LINE_HIT : S_LINE_MISS];
            if (want && v.ray < 0) ++n[S_BEHIND];
            if (want && v.te_axis >= 0 && std::fabs (k.d[v.te_axis]) < T (1e-20)) ++n[S_BINDING_TINY_AXIS];
            if (g.rl != want) c.fail ("findEntryAndExitPoints." + ty + ":truth." + cll, idx, [&] { return det ("findEntryAndExitPoints truth value"); });
            if (want && g.rl)
            {
                double r1 = stress_point_ratio (g.en, k, v.te, true), r2 = stress_point_ratio (g.ex, k, v.tx, true);
                if (!v.partial)
                {
                    if (std::isfinite (r1) && r1 > wr[1]) { wr[1] = r1; wi[1] = idx; wk[1] = k; }
                    if (std::isfinite (r2) && r2 > wr[2]) { wr[2] = r2; wi[2] = idx; wk[2] = k; }
                }
                if (!(r1 <= PT_TOL_S)) c.fail ("findEntryAndExitPoints." + ty + ":entry." + cll, idx, [&] { return det ("entry must be clamp(pos + t_enter*dir), in the box, on its surface"); });
                if (!(r2 <= PT_TOL_S)) c.fail ("findEntryAndExitPoints." + ty + ":exit." + cll, idx, [&] { return det ("exit must be clamp(pos + t_exit*dir), in the box, on its surface"); });
            }
        }
        // ---- classes
        n[S_EMPTY] += v.empty; n[S_FLAT] += v.flat; n[S_INSIDE] += v.inside; n[S_ON_FACE_PLANE] += v.on_face;
        n[S_DIR_ZERO] += v.zero; n[S_DIR_NEGZERO] += v.negzero; n[S_DIR_DENORMAL] += v.denormal; n[S_DIR_TINY] += v.tiny; n[S_DIR_HUGE] += v.huge;
        n[S_DIR_REGULAR] += !(v.zero | v.negzero | v.denormal | v.tiny | v.huge);
        n[S_CTOR] += k.via_ctor; n[S_CTOR_DENORMAL] += (k.via_ctor && v.denormal); n[S_PARTIAL] += v.partial; n[S_OVERFLOWING_QUOTIENT] += v.overflowing;
        if ((v.line != 0 || v.ray != 0) && (idx & 3) == 0)
        {
            uint64_t h = 0;
            for (int j = 0; j < 3; ++j)
                h = hash_combine (hash_combine (h, d2u ((double) k.lo[j]) ^ (d2u ((double) k.hi[j]) << 1)), d2u ((double) k.p[j]) ^ (d2u ((double) k.d[j]) << 1));
            c.nontrivial (h);
        }
        if (idx % 65536 < 40)
            c.sample (v.partial ? "partial_overflow" : clr, [&] { return Obj ().raw ("case", scase_json (k)).kv ("ray", v.ray).kv ("line", v.line).str (); });
    }
    c.eval (evals);
    for (int i = 0; i < S_N; ++i)
        if (n[i]) c.cls (S_NAME[i], n[i]);
    for (int i = 0; i < 3; ++i)
        if (wr[i] >= 0) c.worst (wn[i], wr[i], wi[i], [&] { return scase_json (wk[i]); });
}

#define C14_REQ_S {"dir_zero", "dir_negzero", "dir_denormal", "dir_tiny", "dir_huge", "dir_regular", "dir_from_Line3_ctor", "denormal_dir_from_Line3_ctor", "overflowing_quotient", "partial_overflow", \
                   "hit_bound_by_tiny_axis", "origin_inside", "origin_on_face_plane", "flat_box", "empty_box", "box_behind_origin", "ray_hit", "ray_miss", "line_hit", "line_miss"}

MON_SUB (sub_stress<float>, "stress_float", 20000000ull, 400000000ull)
    .req (C14_REQ_S).chunked (16384)
    .over ("Box3f with moderate real coordinates (integer / real / face at 0 / tiny box; flat, empty), unit Line3f directions with components +0, -0, denormal, FLT_MIN, 1e-30, 2^-k, "
           "partly produced by Line3's constructor, and un-normalised directions scaled by 2^20..2^125; 10 generators (idx%10); long double oracle; verdict only if every deciding "
           "comparison has relative margin > 1e-4 (near ties / underflowing quotients / quotients at the overflow threshold skipped and counted); distinct = hash of the 12 input "
           "values (every 4th judged case recorded, capped: a lower bound)");
MON_SUB (sub_stress<double>, "stress_double", 20000000ull, 400000000ull)
    .req (C14_REQ_S).chunked (16384)
    .over ("Box3d/Line3d: same generators as stress_float with double limits (denormals below 2.2e-308, scale up to 2^1021); __float128 oracle");
} // namespace
