// C16 (part 2) - planes(p), planes(p, M), FrustumTest.
//
// Truth: the open region { all six true signed distances < 0 }, the true planes being
// written from (left,right,top,bottom,near,far) in camera space (c16_common.h) and
// carried to world space with the exact inverse of the (rounded) camera matrix.  A
// verdict of the library is judged only when the truth is robust: the largest
// dist_k/err_k over the six planes is beyond +-C_SIGN, where err_k is the conditioning
// unit of c16_common.h (eps, magnitudes of the point and of the plane's defining
// triangle, triangle shape).  Everything closer to a boundary is counted, not judged.
#include "c16_common.h"

using namespace c16;

namespace
{
// calibrated (worst observed ratio on the pristine tree in brackets, see lib/props.d/c16.py)
// (thorough run: 4e6 frusta x 24 corners / 24 probes, 3e6 frusta x 18 points for FrustumTest, per type)
const LD C_UNIT   = 16; // | |n| - 1 | / eps                                            [1.40]
const LD C_ONPL_M = 12; // planes(p,M), FrustumTest: |distance of a face corner| / err      [1.16]
const LD C_SIGN_M = 8;  // ... error of an evaluated distance / err (decides a sign)        [0.83]
const LD C_ONPL_0 = 2;  // planes(p): the same two, the model is ~5x more pessimistic there [0.19]
const LD C_SIGN_0 = 3;  //                                                                  [0.33]
const LD C_SIGN   = C_SIGN_M;

template <class T>
std::string
key (const char* fn, const std::string& slot)
{
    return std::string (fn) + "." + TN<T>::n () + ":" + slot;
}

template <class T>
LD
lib_dist (const Plane3<T>& p, V3 q)
{
    return (LD) p.normal.x * q.x + (LD) p.normal.y * q.y + (LD) p.normal.z * q.z - (LD) p.distance;
}

template <class T>
double
base_len (const FC<T>& fc)
{
    double w = (double) std::max (fc.R - fc.L, fc.Tp - fc.B);
    return fc.ortho ? w : std::max (w, (double) fc.N);
}

// a camera-space probe point: generic (around the frustum) or displaced from face k by +-len*10^-j
template <class T>
V3
probe_point (Rng& r, const FC<T>& fc, int k, int j, bool generic, LD* delta = nullptr)
{
    if (generic)
    {
        LD sx = r.uniform (-1.6, 1.6), sy = r.uniform (-1.6, 1.6), d;
        if (fc.ortho) d = fc.N + (fc.F - fc.N) * r.uniform (-0.5, 1.5);
        else d = r.coin () ? (fc.N / 3) * powl (9 * fc.F / fc.N, r.uniform ()) : depth_of_zndc (fc, (LD) r.uniform (-1, 1));
        if (!fc.ortho && r.one_in (16)) d = -d; // behind the camera
        return from_screen (fc, sx, sy, d);
    }
    V3 nc[6];
    LD oc[6];
    cam_planes (fc, nc, oc);
    V3 fp = face_point (fc, k, (LD) r.uniform (-0.8, 0.8), (LD) r.uniform (-0.8, 0.8));
    LD len = fc.ortho ? std::max (fc.R - fc.L, fc.Tp - fc.B) : norm (fp);
    LD dl = len * powl (10, -(LD) j) * (LD) r.uniform (0.5, 1) * (r.coin () ? 1 : -1);
    if (delta) *delta = dl;
    return fp + nc[k] * dl;
}

// ------------------------------------------------------------------ planes(p) and planes(p, M)
template <class T, bool WITH_M>
void
sub_planes (Ctx& c, uint64_t idx)
{
    Rng   r = c.rng (idx);
    FC<T> fc;
    if (!gen_frustum (r, idx, fc)) { c.cls ("skipped_degenerate"); return; }
    count_classes (c, fc);
    Frustum<T> fr = fc.fr ();
    MC<T>      mc;
    Plane3<T>  pl[6];
    WP         wp;
    const char* fn = WITH_M ? "planes(p,M)" : "planes(p)";
    const LD    C_ONPL = WITH_M ? C_ONPL_M : C_ONPL_0, C_SIGN = WITH_M ? C_SIGN_M : C_SIGN_0;
    if (WITH_M)
    {
        gen_matrix (r, (int) ((idx >> 6) & 3), base_len (fc), mc);
        c.cls (MKIND[mc.kind]);
        fr.planes (pl, mc.M);
        world_planes (fc, &mc, wp);
    }
    else
    {
        gen_matrix (r, 0, 1.0, mc);
        fr.planes (pl);
        world_planes<T> (fc, nullptr, wp);
    }
    c.nontrivial (hash_combine (fc.hash (), hash_combine (d2u ((double) mc.M[0][1]), d2u ((double) mc.M[3][2]))));
    auto ctxjs = [&] { return WITH_M ? Obj ().raw ("frustum", fc.js ()).raw ("matrix", mc.js ()).str () : Obj ().raw ("frustum", fc.js ()).str (); };
    LD   eps = eps_of<T>::value;
    V3   centroid = {0, 0, 0};
    for (int ci = 0; ci < 8; ++ci) centroid = centroid + mc.map (corner (fc, ci & 1, (ci >> 1) & 1, (ci >> 2) & 1)) * 0.125L;
    for (int k = 0; k < 6; ++k)
    {
        if (!wp.ok (k)) { c.cls ("skipped_illconditioned_plane"); continue; }
        c.cls (std::string ("plane_judged_") + PLANE_NAME[k]);
        // unit normal
        LD nl = norm (toV3 (pl[k].normal)), ru = fabsl (nl - 1) / eps;
        c.eval ();
        c.worst ("normal_length.ratio", (double) ru, idx, ctxjs);
        if (!(ru <= C_UNIT))
            c.fail (key<T> (fn, std::string ("normal_not_unit_") + PLANE_NAME[k]), idx, [&] { return Obj ().raw ("case", ctxjs ()).kv ("length", nl).str (); });
        // the four corners of face k lie on plane k
        V3 fcn[4];
        face_corners (fc, k, fcn);
        for (int q = 0; q < 4; ++q)
        {
            V3 qw = mc.map (fcn[q]);
            LD d = lib_dist (pl[k], qw), e = wp.err (k, qw, 0), ra = fabsl (d) / e;
            c.eval ();
            c.worst (k < 4 ? "face_corner_distance.side_planes.ratio" : k == 4 ? "face_corner_distance.near_plane.ratio" : "face_corner_distance.far_plane.ratio", (double) ra, idx, ctxjs);
            if (!(ra <= C_ONPL))
                c.fail (key<T> (fn, std::string ("corners_of_face_not_on_plane_") + PLANE_NAME[k]), idx, [&] {
                    return Obj ().raw ("case", ctxjs ()).kv ("slot", k).kv ("corner_x", qw.x).kv ("corner_y", qw.y).kv ("corner_z", qw.z).kv ("distance", d).kv ("tol", C_ONPL * e)
                        .kv ("nx", (double) pl[k].normal.x).kv ("ny", (double) pl[k].normal.y).kv ("nz", (double) pl[k].normal.z).kv ("offset", (double) pl[k].distance).str ();
                });
        }
        // outward: the centroid of the frustum is on the negative side
        LD dc = lib_dist (pl[k], centroid);
        c.eval ();
        if (!(wp.dist (k, centroid) < -C_SIGN * wp.err (k, centroid, 0))) c.cls ("skipped_centroid_too_close_to_plane");
        else if (!(dc < 0))
            c.fail (key<T> (fn, std::string ("normal_points_inward_") + PLANE_NAME[k]), idx, [&] { return Obj ().raw ("case", ctxjs ()).kv ("slot", k).kv ("distance_of_centroid", dc).str (); });
    }
    // "all six distances < 0" == membership
    if (!wp.all_ok ()) { c.cls ("skipped_membership_illconditioned_planes"); return; }
    c.cls ("membership_judged_frusta");
    for (int q = 0; q < 24; ++q)
    {
        bool generic = q >= 18;
        int  k = q % 6, j = 1 + (int) ((idx / 64 + q / 6) % 9);
        V3   pc = probe_point (r, fc, k, j, generic);
        Vec3<T> qT = toT<T> (mc.map (pc));
        V3   qw = toV3 (qT);
        int  which = 0;
        LD   m = wp.margin (qw, 0, &which);
        bool truth = m < 0, lib = true;
        int  libk = -1;
        for (int kk = 0; kk < 6; ++kk)
            if (!(pl[kk].distanceTo (qT) < 0)) { lib = false; if (libk < 0) libk = kk; }
        c.eval ();
        {
            // dense calibration of the sign tolerance: error of the evaluated distance to the decisive plane
            LD de = fabsl ((LD) pl[which].distanceTo (qT) - wp.dist (which, qw)) / wp.err (which, qw, 0);
            c.worst ("evaluated_distance_error.ratio", (double) de, idx, ctxjs);
        }
        if (!generic) c.cls (std::string ("probe_near_plane_") + PLANE_NAME[k]);
        if (fabsl (m) > C_SIGN)
        {
            // robust verdicts must coincide with the coordinate-inequality definition of the frustum
            if (inside_def (fc, mc.unmap (qw)) != truth) { c.cls ("skipped_model_disagrees_with_definition"); continue; }
            c.cls (truth ? "judged_inside" : "judged_outside");
        }
        else c.cls ("undecided_near_boundary");
        if (lib != truth)
        {
            c.worst ("membership_disagreement.margin", (double) fabsl (m), idx, ctxjs);
            if (fabsl (m) > C_SIGN)
                c.fail (key<T> (fn, std::string (truth ? "inside_point_reported_outside_" : "outside_point_reported_inside_") + PLANE_NAME[truth ? (libk < 0 ? 0 : libk) : which]), idx, [&] {
                    return Obj ().raw ("case", ctxjs ()).kv ("px", (double) qT.x).kv ("py", (double) qT.y).kv ("pz", (double) qT.z).kv ("all_six_negative", lib).kv ("truly_inside", truth)
                        .kv ("margin_in_err_units", m).kv ("nearest_true_plane", PLANE_NAME[which]).str ();
                });
        }
    }
    if (idx % 64 < 2) c.sample (fc.ortho ? "orthographic" : "perspective", ctxjs);
}

// ------------------------------------------------------------------ FrustumTest on random frusta and cameras
template <class T>
void
sub_culling (Ctx& c, uint64_t idx)
{
    Rng   r = c.rng (idx);
    FC<T> fc;
    if (!gen_frustum (r, idx, fc)) { c.cls ("skipped_degenerate"); return; }
    count_classes (c, fc);
    Frustum<T> fr = fc.fr ();
    MC<T>      mc;
    gen_matrix (r, (int) ((idx >> 6) & 3), base_len (fc), mc);
    c.cls (MKIND[mc.kind]);
    WP wp;
    world_planes (fc, &mc, wp);
    if (!wp.all_ok ()) { c.cls ("skipped_illconditioned_planes"); return; }
    c.cls ("judged_frusta");
    FrustumTest<T> ft (fr, mc.M);
    Plane3<T>      pl[6]; // only for the calibration record "evaluated_distance_error"
    fr.planes (pl, mc.M);
    c.nontrivial (hash_combine (fc.hash (), hash_combine (d2u ((double) mc.M[0][1]), d2u ((double) mc.M[3][2]))));
    auto ctxjs = [&] { return Obj ().raw ("frustum", fc.js ()).raw ("matrix", mc.js ()).str (); };
    V3 nc[6];
    LD oc[6];
    cam_planes (fc, nc, oc);

    for (int k = 0; k < 6; ++k)
    {
        int j = 1 + (int) ((idx / 64 + k) % 8);
        // ---- points
        for (int q = 0; q < 3; ++q)
        {
            V3      pc = probe_point (r, fc, k, j, q == 2);
            Vec3<T> qT = toT<T> (mc.map (pc));
            int     which = 0;
            LD      m = wp.margin (toV3 (qT), 0, &which);
            bool    truth = m < 0, lib = ft.isVisible (qT);
            c.eval ();
            {
                LD de = fabsl ((LD) pl[which].distanceTo (qT) - wp.dist (which, toV3 (qT))) / wp.err (which, toV3 (qT), 0);
                c.worst ("evaluated_distance_error.ratio", (double) de, idx, ctxjs);
            }
            c.cls (fabsl (m) > C_SIGN ? (truth ? "point_judged_inside" : "point_judged_outside") : "point_undecided_near_boundary");
            if (lib != truth)
            {
                c.worst ("isVisible(point).disagreement.margin", (double) fabsl (m), idx, ctxjs);
                if (fabsl (m) > C_SIGN)
                    c.fail (key<T> ("isVisible.point", std::string (truth ? "inside_point_invisible_near_" : "outside_point_visible_beyond_") + PLANE_NAME[which]), idx, [&] {
                        return Obj ().raw ("case", ctxjs ()).kv ("px", (double) qT.x).kv ("py", (double) qT.y).kv ("pz", (double) qT.z).kv ("isVisible", lib).kv ("truly_inside", truth)
                            .kv ("margin_in_err_units", m).kv ("nearest_true_plane", PLANE_NAME[which]).str ();
                    });
            }
        }
        // ---- objects straddling plane k: centre at signed distance +-rho(1 +- 10^-j) from the plane
        V3 fpw = mc.map (face_point (fc, k, (LD) r.uniform (-0.8, 0.8), (LD) r.uniform (-0.8, 0.8)));
        V3 nw  = wp.n[k];
        LD lenw = norm (mc.map (face_point (fc, k, 0.3L, 0.3L)) - mc.map (face_point (fc, k, -0.3L, -0.3L))); // a length typical of the face, in world units
        LD g = powl (10, -(LD) j);
        for (int v = 0; v < 4; ++v)
        {
            LD sgn = (v & 1) ? -1 : 1, fac = (v & 2) ? 1 + g : 1 - g;
            // sphere
            {
                LD rho = lenw * powl (10, r.uniform (-3, 0.5));
                V3 cw  = fpw + nw * (sgn * rho * fac);
                Sphere3<T> S (toT<T> (cw), (T) rho);
                V3 cT = toV3 (S.center);
                LD rT = S.radius, extra = rT + norm (cT);
                bool vis = ft.isVisible (S), con = ft.completelyContains (S);
                c.eval (2);
                c.cls (std::string ("sphere_straddles_") + PLANE_NAME[k]);
                LD th = g / 2, mmin = HUGE_VALL, mmax = -HUGE_VALL;
                for (int cand = 0; cand < 13; ++cand)
                {
                    V3 w = cand == 0 ? cT : cT + wp.n[(cand - 1) % 6] * ((cand <= 6 ? -1 : 1) * rT * (1 - th));
                    LD m = wp.margin (w, extra);
                    mmin = std::min (mmin, m);
                    mmax = std::max (mmax, m);
                }
                if (mmin < -C_SIGN) c.cls ("sphere_has_point_strictly_inside");
                if (mmax > C_SIGN) c.cls ("sphere_has_point_strictly_outside");
                if (!vis && mmin < 0) c.worst ("isVisible(sphere).false_with_inner_point.margin", (double) -mmin, idx, ctxjs);
                if (con && mmax > 0) c.worst ("completelyContains(sphere).true_with_outer_point.margin", (double) mmax, idx, ctxjs);
                auto desc = [&] {
                    return Obj ().raw ("case", ctxjs ()).kv ("cx", (double) S.center.x).kv ("cy", (double) S.center.y).kv ("cz", (double) S.center.z).kv ("radius", (double) S.radius)
                        .kv ("straddled_plane", PLANE_NAME[k]).kv ("centre_side", sgn > 0 ? "outside" : "inside").kv ("centre_distance_over_radius", (double) fac)
                        .kv ("isVisible", vis).kv ("completelyContains", con).kv ("most_inner_margin", mmin).kv ("most_outer_margin", mmax).str ();
                };
                if (!vis && mmin < -C_SIGN) c.fail (key<T> ("isVisible.sphere", std::string ("false_for_sphere_reaching_inside_at_") + PLANE_NAME[k]), idx, desc);
                if (con && mmax > C_SIGN) c.fail (key<T> ("completelyContains.sphere", std::string ("true_for_sphere_reaching_outside_at_") + PLANE_NAME[k]), idx, desc);
            }
            // box
            {
                LD sz = lenw * powl (10, r.uniform (-3, 0.5));
                V3 h  = {sz * (LD) r.uniform (0.1, 1), sz * (LD) r.uniform (0.1, 1), sz * (LD) r.uniform (0.1, 1)};
                if (r.one_in (8)) h.at ((int) r.range (0, 2)) = 0; // flat box
                LD rho = fabsl (nw.x) * h.x + fabsl (nw.y) * h.y + fabsl (nw.z) * h.z;
                if (!(rho > 0)) { c.cls ("skipped_flat_box_in_plane"); continue; }
                V3 cw = fpw + nw * (sgn * rho * fac);
                Box<Vec3<T>> Bx (toT<T> (cw - h), toT<T> (cw + h));
                if (Bx.isEmpty ()) { c.cls ("skipped_empty_box"); continue; }
                LD extra = norm (toV3 (Bx.min)) + norm (toV3 (Bx.max));
                bool vis = ft.isVisible (Bx), con = ft.completelyContains (Bx);
                c.eval (2);
                c.cls (std::string ("box_straddles_") + PLANE_NAME[k]);
                LD mmin = HUGE_VALL, mmax = -HUGE_VALL;
                for (int cand = 0; cand < 9; ++cand)
                {
                    V3 lo = toV3 (Bx.min), hi = toV3 (Bx.max);
                    V3 w = cand == 8 ? (lo + hi) * 0.5L : V3{(cand & 1) ? hi.x : lo.x, (cand & 2) ? hi.y : lo.y, (cand & 4) ? hi.z : lo.z};
                    LD m = wp.margin (w, extra);
                    mmin = std::min (mmin, m);
                    mmax = std::max (mmax, m);
                }
                if (mmin < -C_SIGN) c.cls ("box_has_point_strictly_inside");
                if (mmax > C_SIGN) c.cls ("box_has_point_strictly_outside");
                if (!vis && mmin < 0) c.worst ("isVisible(box).false_with_inner_point.margin", (double) -mmin, idx, ctxjs);
                if (con && mmax > 0) c.worst ("completelyContains(box).true_with_outer_point.margin", (double) mmax, idx, ctxjs);
                auto desc = [&] {
                    return Obj ().raw ("case", ctxjs ()).kv ("min_x", (double) Bx.min.x).kv ("min_y", (double) Bx.min.y).kv ("min_z", (double) Bx.min.z)
                        .kv ("max_x", (double) Bx.max.x).kv ("max_y", (double) Bx.max.y).kv ("max_z", (double) Bx.max.z)
                        .kv ("straddled_plane", PLANE_NAME[k]).kv ("centre_side", sgn > 0 ? "outside" : "inside").kv ("centre_distance_over_support_radius", (double) fac)
                        .kv ("isVisible", vis).kv ("completelyContains", con).kv ("most_inner_margin", mmin).kv ("most_outer_margin", mmax).str ();
                };
                if (!vis && mmin < -C_SIGN) c.fail (key<T> ("isVisible.box", std::string ("false_for_box_reaching_inside_at_") + PLANE_NAME[k]), idx, desc);
                if (con && mmax > C_SIGN) c.fail (key<T> ("completelyContains.box", std::string ("true_for_box_reaching_outside_at_") + PLANE_NAME[k]), idx, desc);
            }
        }
    }
    if (idx % 64 < 2) c.sample (fc.ortho ? "orthographic" : "perspective", ctxjs);
}

// ------------------------------------------------------------------ FrustumTest on an exact integer lattice
// Orthographic boxes with integer bounds and 45-degree perspective frusta, camera = one of the 24 axis
// rotations (+ integer translation for the orthographic ones): every plane coefficient and every
// evaluated distance is exact, so a point ON a face must be invisible (the region is open), the
// lattice neighbour inside visible, the neighbour outside invisible.  No tolerance.
template <class T>
void
sub_lattice (Ctx& c, uint64_t idx)
{
    Rng  r = c.rng (idx);
    int  rot = (int) (idx % 24), k = (int) ((idx / 24) % 6);
    bool persp = (idx / 144) & 1;
    // the rot-th proper signed permutation
    static const int perms[6][3] = {{0, 1, 2}, {1, 2, 0}, {2, 0, 1}, {0, 2, 1}, {2, 1, 0}, {1, 0, 2}};
    int pi = rot / 4, sb = rot % 4;
    int sg[3] = {(sb & 1) ? -1 : 1, (sb & 2) ? -1 : 1, 1};
    int psign = pi < 3 ? 1 : -1;
    sg[2] = psign * sg[0] * sg[1]; // determinant +1
    Matrix44<T> M;
    M.makeIdentity ();
    for (int i = 0; i < 3; ++i)
        for (int j = 0; j < 3; ++j) M[i][j] = (T) (perms[pi][i] == j ? sg[i] : 0);
    int tr[3] = {0, 0, 0};
    long l, rr, b, t, n, f;
    if (persp)
    {
        n = r.range (2, 6); f = n * r.range (2, 5);
        l = -n; rr = n; b = -n; t = n;
    }
    else
    {
        l = -r.range (1, 6); rr = r.range (1, 6); b = -r.range (1, 6); t = r.range (1, 6);
        n = r.range (1, 6); f = n + r.range (2, 7);
        for (int& v: tr) v = (int) r.range (-8, 8);
        for (int j = 0; j < 3; ++j) M[3][j] = (T) tr[j];
    }
    Frustum<T>     fr ((T) n, (T) f, (T) l, (T) rr, (T) t, (T) b, !persp);
    FrustumTest<T> ft (fr, M);
    // a lattice point in the relative interior of face k, and the inward lattice step
    long d = persp ? n + 1 : n + 1; // n < d < f
    long on[3], in[3];
    if (persp)
    {
        long P[6][3] = {{0, d, -d}, {d, 0, -d}, {0, -d, -d}, {-d, 0, -d}, {0, 0, -n}, {0, 0, -f}};
        long I[6][3] = {{0, -1, 0}, {-1, 0, 0}, {0, 1, 0}, {1, 0, 0}, {0, 0, -1}, {0, 0, 1}};
        for (int i = 0; i < 3; ++i) { on[i] = P[k][i]; in[i] = I[k][i]; }
    }
    else
    {
        long P[6][3] = {{0, t, -d}, {rr, 0, -d}, {0, b, -d}, {l, 0, -d}, {0, 0, -n}, {0, 0, -f}};
        long I[6][3] = {{0, -1, 0}, {-1, 0, 0}, {0, 1, 0}, {1, 0, 0}, {0, 0, -1}, {0, 0, 1}};
        for (int i = 0; i < 3; ++i) { on[i] = P[k][i]; in[i] = I[k][i]; }
    }
    c.cls (persp ? "perspective" : "orthographic");
    c.cls (std::string ("lattice_point_on_") + PLANE_NAME[k]);
    c.nontrivial (hash_combine (idx, hash_combine ((uint64_t) (n * 64 + f), (uint64_t) (l * 4096 + rr * 512 + b * 64 + t + 100000))));
    for (int step = -1; step <= 1; ++step) // -1 one step outside, 0 on the face, +1 one step inside
    {
        long pc[3], pw[3];
        for (int i = 0; i < 3; ++i) pc[i] = on[i] + step * in[i];
        for (int j = 0; j < 3; ++j)
        {
            pw[j] = tr[j];
            for (int i = 0; i < 3; ++i) pw[j] += pc[i] * (perms[pi][i] == j ? sg[i] : 0);
        }
        // exact membership in integers
        bool inside;
        long dd = -pc[2];
        if (persp) inside = dd > n && dd < f && pc[0] * n > l * dd && pc[0] * n < rr * dd && pc[1] * n > b * dd && pc[1] * n < t * dd;
        else inside = dd > n && dd < f && pc[0] > l && pc[0] < rr && pc[1] > b && pc[1] < t;
        Vec3<T> q ((T) pw[0], (T) pw[1], (T) pw[2]);
        bool    vis = ft.isVisible (q);
        c.eval ();
        if ((step == 1) != inside) { c.cls ("lattice_step_not_as_intended"); continue; }
        if (vis != inside)
            c.fail (key<T> ("isVisible.point", std::string (step == 0 ? "point_exactly_on_plane_visible_" : step == 1 ? "lattice_inside_point_invisible_" : "lattice_outside_point_visible_") + PLANE_NAME[k]), idx, [&] {
                double m[16];
                for (int i = 0; i < 4; ++i)
                    for (int j = 0; j < 4; ++j) m[i * 4 + j] = (double) M[i][j];
                return Obj ().kv ("near", n).kv ("far", f).kv ("left", l).kv ("right", rr).kv ("top", t).kv ("bottom", b).kv ("ortho", !persp).arr ("M_rows", m, 16)
                    .kv ("px", pw[0]).kv ("py", pw[1]).kv ("pz", pw[2]).kv ("position", step == 0 ? "on the face" : step == 1 ? "one lattice step inside" : "one lattice step outside")
                    .kv ("isVisible", vis).kv ("want", inside).str ();
            });
        // a unit sphere / box around the inside neighbour reaches the face but contains that strictly interior point
        if (step == 1)
        {
            Sphere3<T> S (q, (T) 1);
            Box<Vec3<T>> Bx (Vec3<T> ((T) (pw[0] - 1), (T) (pw[1] - 1), (T) (pw[2] - 1)), Vec3<T> ((T) (pw[0] + 1), (T) (pw[1] + 1), (T) (pw[2] + 1)));
            c.eval (2);
            if (!ft.isVisible (S)) c.fail (key<T> ("isVisible.sphere", std::string ("lattice_sphere_around_inside_point_invisible_") + PLANE_NAME[k]), idx, [&] { return Obj ().kv ("px", pw[0]).kv ("py", pw[1]).kv ("pz", pw[2]).str (); });
            if (!ft.isVisible (Bx)) c.fail (key<T> ("isVisible.box", std::string ("lattice_box_around_inside_point_invisible_") + PLANE_NAME[k]), idx, [&] { return Obj ().kv ("px", pw[0]).kv ("py", pw[1]).kv ("pz", pw[2]).str (); });
        }
        // around the outside neighbour: contains a point strictly outside
        if (step == -1)
        {
            Sphere3<T> S (q, (T) 3);
            Box<Vec3<T>> Bx (Vec3<T> ((T) (pw[0] - 3), (T) (pw[1] - 3), (T) (pw[2] - 3)), Vec3<T> ((T) (pw[0] + 3), (T) (pw[1] + 3), (T) (pw[2] + 3)));
            c.eval (2);
            if (ft.completelyContains (S)) c.fail (key<T> ("completelyContains.sphere", std::string ("lattice_sphere_around_outside_point_contained_") + PLANE_NAME[k]), idx, [&] { return Obj ().kv ("px", pw[0]).kv ("py", pw[1]).kv ("pz", pw[2]).str (); });
            if (ft.completelyContains (Bx)) c.fail (key<T> ("completelyContains.box", std::string ("lattice_box_around_outside_point_contained_") + PLANE_NAME[k]), idx, [&] { return Obj ().kv ("px", pw[0]).kv ("py", pw[1]).kv ("pz", pw[2]).str (); });
        }
    }
}

#define REQ_PL C16_FRUSTUM_CLASSES, "probe_near_plane_top", "probe_near_plane_right", "probe_near_plane_bottom", "probe_near_plane_left", "probe_near_plane_near", "probe_near_plane_far", "judged_inside", "judged_outside"
#define REQ_M "matrix_identity", "matrix_rigid", "matrix_uniform_scale", "matrix_nonuniform_scale"
#define REQ_CULL C16_FRUSTUM_CLASSES, REQ_M, "sphere_straddles_top", "sphere_straddles_right", "sphere_straddles_bottom", "sphere_straddles_left", "sphere_straddles_near", "sphere_straddles_far", \
    "box_straddles_top", "box_straddles_right", "box_straddles_bottom", "box_straddles_left", "box_straddles_near", "box_straddles_far", \
    "sphere_has_point_strictly_inside", "sphere_has_point_strictly_outside", "box_has_point_strictly_inside", "box_has_point_strictly_outside", "point_judged_inside", "point_judged_outside"
#define REQ_LAT "perspective", "orthographic", "lattice_point_on_top", "lattice_point_on_right", "lattice_point_on_bottom", "lattice_point_on_left", "lattice_point_on_near", "lattice_point_on_far"
} // namespace

MON_SUB_IDX ((sub_planes<float, false>), "planes_float", 100000, 4000000).req ({REQ_PL}).over ("random frusta: unit normals, 4 corners of face k on plane k (order top,right,bottom,left,near,far), centroid negative, 24 probe points (18 displaced from the six faces by len*10^-j, j=1..9): all-six-negative == analytic membership");
MON_SUB_IDX ((sub_planes<double, false>), "planes_double", 100000, 4000000).req ({REQ_PL}).over ("as planes_float, double");
MON_SUB_IDX ((sub_planes<float, true>), "planes_matrix_float", 100000, 4000000).req ({REQ_PL, REQ_M}).over ("as planes_float for planes(p, M), M = identity / rigid / uniformly scaled / non-uniformly positively scaled camera matrix; corners and probes mapped by M");
MON_SUB_IDX ((sub_planes<double, true>), "planes_matrix_double", 100000, 4000000).req ({REQ_PL, REQ_M}).over ("as planes_matrix_float, double");
MON_SUB_IDX (sub_culling<float>, "culling_float", 60000, 3000000).req ({REQ_CULL}).over ("random frusta x camera matrices; per plane: 3 points, 4 spheres and 4 boxes with centre at signed distance +-rho(1+-10^-j), j=1..8, from the plane; isVisible(point) == membership; isVisible(object) true if a witness point of it is strictly inside; completelyContains false if a witness point is strictly outside");
MON_SUB_IDX (sub_culling<double>, "culling_double", 60000, 3000000).req ({REQ_CULL}).over ("as culling_float, double");
MON_SUB_IDX (sub_lattice<float>, "culling_lattice_float", 24 * 6 * 2 * 16, 24 * 6 * 2 * 512).req ({REQ_LAT}).noscale ().over ("integer orthographic boxes and 45-degree perspective frusta x 24 axis rotations (+ integer translation) x 6 faces: lattice points on the face / one step inside / one step outside, exact arithmetic, no tolerance");
MON_SUB_IDX (sub_lattice<double>, "culling_lattice_double", 24 * 6 * 2 * 16, 24 * 6 * 2 * 512).req ({REQ_LAT}).noscale ().over ("as culling_lattice_float, double");

MON_MAIN ("c16_frustum")
