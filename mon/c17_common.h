// C17 - helpers shared by the three translation units of the c17_utils monitor.
#pragma once
#include "mon.h"
#include <cfloat>
#include <climits>
#include <limits>
#include <quadmath.h>

namespace c17
{
// The sanitizer build is recognised at compile time (gcc defines
// __SANITIZE_ADDRESS__ under -fsanitize=address).  It is used for ONE purpose:
// not to drive Imath::floor<double> into the one-unit sliver
// (-2^31, -2^31+1), where the library's *intermediate* int(-x)+1 wraps although
// the result -2^31 is representable.  The value is checked in the ref build
// (it is right); UBSan would abort on the library's signed overflow, which is
// not a C17 value violation (DESIGN.md section 6, item 16).
#if defined(__SANITIZE_ADDRESS__)
static const bool kSanitizerBuild = true;
#else
static const bool kSanitizerBuild = false;
#endif

template <class T> struct FT;
template <> struct FT<float>
{
    typedef long double hp;
    static const char*  name () { return "float"; }
    static double       eps () { return 1.1920928955078125e-07; }
};
template <> struct FT<double>
{
    typedef __float128 hp;
    static const char* name () { return "double"; }
    static double      eps () { return 2.220446049250313e-16; }
};

template <class H> inline H habs (H x) { return x < 0 ? -x : x; }
template <class H> inline H hmax (H a, H b) { return a > b ? a : b; }
template <class H> inline H hmin (H a, H b) { return a < b ? a : b; }

inline uint64_t hmix (uint64_t a, uint64_t b) { return mon::hash_combine (a, b); }
inline uint64_t hbits (float f) { return mon::f2u (f); }
inline uint64_t hbits (double f) { return mon::d2u (f); }
inline uint64_t hbits (int v) { return (uint64_t) (uint32_t) v; }
} // namespace c17
