// C07 - matrix-decomposition functions of ImathMatrixAlgo.h with an `exc` flag:
// exc = true (checked, throws std::domain_error) vs exc = false (unchecked, reports
// failure by returning false / the input matrix), 3-D (Matrix44) and 2-D (Matrix33)
// versions, and checkForZeroScaleInRow itself.
//
// Oracle: the pair of outcomes on the same matrix; the documented failure report of
// the unchecked call ("returns false, m is unchanged" / "returns m"); for
// checkForZeroScaleInRow the exact quotient row[i]/scl in __float128; for the composite
// functions an exact Gram-Schmidt in __float128 that says whether the matrix is
// well-conditioned (then nothing may throw).
#include "c07_common.h"
#include <ImathEuler.h>
#include <ImathMatrix.h>
#include <ImathMatrixAlgo.h>

using namespace c07;
using namespace IMATH_NAMESPACE;

template <class T> struct Out
{
    ExcKind k   = EX_NONE;
    bool    ret = true;
    int     n   = 0;
    T       v[36];
    void put (T x) { v[n++] = x; }
    void put (const Vec2<T>& a) { put (a.x); put (a.y); }
    void put (const Vec3<T>& a) { put (a.x); put (a.y); put (a.z); }
    void put (const Matrix33<T>& m) { for (int i = 0; i < 3; ++i) for (int j = 0; j < 3; ++j) put (m[i][j]); }
    void put (const Matrix44<T>& m) { for (int i = 0; i < 4; ++i) for (int j = 0; j < 4; ++j) put (m[i][j]); }
};

enum Kind
{
    K_BOOL,         // returns bool; outputs are meaningful on success only
    K_BOOL_INPLACE, // returns bool; the matrix argument is modified on success, "unchanged" on failure (first 9/16 outputs)
    K_SANS,         // returns a matrix; on failure the input matrix
};

// ------------------------------------------------------------------ 3-D family
static const int NF3 = 11;
static const char* const FN3[NF3] = {"extractScaling44", "sansScaling44", "removeScaling44", "extractScalingAndShear44", "sansScalingAndShear44", "sansScalingAndShear44(result,mat)",
                                     "removeScalingAndShear44", "extractAndRemoveScalingAndShear44", "extractSHRT44", "extractSHRT44(rOrder)", "extractSHRT44(Euler)"};
static const Kind        FK3[NF3] = {K_BOOL, K_SANS, K_BOOL_INPLACE, K_BOOL, K_SANS, K_SANS, K_BOOL_INPLACE, K_BOOL_INPLACE, K_BOOL, K_BOOL, K_BOOL};

template <class T>
static void
call3 (int fi, const Matrix44<T>& m, bool exc, typename Euler<T>::Order order, Out<T>& o)
{
    Vec3<T> s (T (0)), h (T (0)), r (T (0)), t (T (0));
    switch (fi)
    {
        case 0: o.ret = extractScaling (m, s, exc); o.put (s); break;
        case 1: o.put (sansScaling (m, exc)); break;
        case 2: { Matrix44<T> mm (m); o.ret = removeScaling (mm, exc); o.put (mm); break; }
        case 3: o.ret = extractScalingAndShear (m, s, h, exc); o.put (s); o.put (h); break;
        case 4: o.put (sansScalingAndShear (m, exc)); break;
        case 5: { Matrix44<T> res (m); sansScalingAndShear (res, m, exc); o.put (res); break; } // works on `result` as passed in
        case 6: { Matrix44<T> mm (m); o.ret = removeScalingAndShear (mm, exc); o.put (mm); break; }
        case 7: { Matrix44<T> mm (m); o.ret = extractAndRemoveScalingAndShear (mm, s, h, exc); o.put (mm); o.put (s); o.put (h); break; }
        case 8: o.ret = extractSHRT (m, s, h, r, t, exc); o.put (s); o.put (h); o.put (r); o.put (t); break;
        case 9: o.ret = extractSHRT (m, s, h, r, t, exc, order); o.put (s); o.put (h); o.put (r); o.put (t); break;
        default: {
            Euler<T> e (T (0), T (0), T (0), order);
            o.ret = extractSHRT (m, s, h, e, t, exc);
            o.put (s); o.put (h); o.put (e.x); o.put (e.y); o.put (e.z); o.put ((T) (int) e.order ()); o.put (t);
            break;
        }
    }
}

// ------------------------------------------------------------------ 2-D family
static const int NF2 = 8;
static const char* const FN2[NF2] = {"extractScaling33", "sansScaling33", "removeScaling33", "extractScalingAndShear33", "sansScalingAndShear33", "removeScalingAndShear33",
                                     "extractAndRemoveScalingAndShear33", "extractSHRT33"};
static const Kind        FK2[NF2] = {K_BOOL, K_SANS, K_BOOL_INPLACE, K_BOOL, K_SANS, K_BOOL_INPLACE, K_BOOL_INPLACE, K_BOOL};

template <class T>
static void
call2 (int fi, const Matrix33<T>& m, bool exc, int, Out<T>& o)
{
    Vec2<T> s (T (0)), t (T (0));
    T       h = 0, r = 0;
    switch (fi)
    {
        case 0: o.ret = extractScaling (m, s, exc); o.put (s); break;
        case 1: o.put (sansScaling (m, exc)); break;
        case 2: { Matrix33<T> mm (m); o.ret = removeScaling (mm, exc); o.put (mm); break; }
        case 3: o.ret = extractScalingAndShear (m, s, h, exc); o.put (s); o.put (h); break;
        case 4: o.put (sansScalingAndShear (m, exc)); break;
        case 5: { Matrix33<T> mm (m); o.ret = removeScalingAndShear (mm, exc); o.put (mm); break; }
        case 6: { Matrix33<T> mm (m); o.ret = extractAndRemoveScalingAndShear (mm, s, h, exc); o.put (mm); o.put (s); o.put (h); break; }
        default: o.ret = extractSHRT (m, s, h, r, t, exc); o.put (s); o.put (h); o.put (r); o.put (t); break;
    }
}

// ------------------------------------------------------------------ matrices
enum
{
    DC_BENIGN = 0,
    DC_SHRT,
    DC_ZERO_ROW,
    DC_ZERO_BLOCK,
    DC_PARALLEL_AXIS,
    DC_PARALLEL_POW2,
    DC_NEAR_DEGENERATE,
    DC_TINY,
    DC_HUGE,
    DC_MIXED_RANGE,
    DC_SINGLE_ENTRY,
    DC_ANY,
    DC_N
};
static const char* const DCN[DC_N] = {"benign_random", "scale*shear*rotation", "zero_row", "zero_block", "parallel_axis_aligned_rows", "parallel_rows_pow2_multiple", "near_degenerate",
                                      "tiny_subnormal_entries", "huge_entries", "mixed_dynamic_range", "single_nonzero_entry", "any_exponent"};

// B = K x K block (rows are the basis vectors), tr = translation row
template <class T, int K>
static void
gen_block (Rng& r, int cls, T B[3][3], T tr[3])
{
    for (int i = 0; i < 3; ++i) { tr[i] = r.one_in (4) ? T (0) : (T) r.sym (100.0); for (int j = 0; j < 3; ++j) B[i][j] = T (0); }
    auto rnd = [&] { for (int i = 0; i < K; ++i) for (int j = 0; j < K; ++j) B[i][j] = (T) r.sym (1.0); };
    switch (cls)
    {
        case DC_BENIGN: {
            rnd ();
            int sc = (int) r.range (-6, 6);
            for (int i = 0; i < K; ++i) for (int j = 0; j < K; ++j) B[i][j] = (T) std::ldexp ((double) B[i][j], sc);
            break;
        }
        case DC_SHRT: {
            // rows of an orthonormal frame (Gram-Schmidt of a random matrix in double), sheared, scaled (possibly negative)
            double q[3][3];
            for (int i = 0; i < K; ++i) for (int j = 0; j < K; ++j) q[i][j] = r.gauss ();
            for (int i = 0; i < K; ++i)
            {
                for (int p = 0; p < i; ++p) { double d = 0; for (int j = 0; j < K; ++j) d += q[i][j] * q[p][j]; for (int j = 0; j < K; ++j) q[i][j] -= d * q[p][j]; }
                double n = 0; for (int j = 0; j < K; ++j) n += q[i][j] * q[i][j];
                n = std::sqrt (n > 1e-300 ? n : 1); for (int j = 0; j < K; ++j) q[i][j] /= n;
            }
            double out[3][3];
            for (int i = 0; i < K; ++i) for (int j = 0; j < K; ++j) out[i][j] = q[i][j];
            for (int i = 1; i < K; ++i) for (int p = 0; p < i; ++p) { double sh = r.one_in (3) ? 0.0 : r.sym (1.0); for (int j = 0; j < K; ++j) out[i][j] += sh * q[p][j]; }
            for (int i = 0; i < K; ++i) { double s = std::ldexp (r.uniform (0.5, 1.0), (int) r.range (-8, 8)) * (r.one_in (4) ? -1 : 1); for (int j = 0; j < K; ++j) B[i][j] = (T) (s * out[i][j]); }
            break;
        }
        case DC_ZERO_ROW: {
            rnd ();
            int a = (int) r.range (0, K - 1);
            for (int j = 0; j < K; ++j) B[a][j] = signed_zero<T> (r);
            break;
        }
        case DC_ZERO_BLOCK:
            for (int i = 0; i < K; ++i) for (int j = 0; j < K; ++j) B[i][j] = signed_zero<T> (r);
            break;
        case DC_PARALLEL_AXIS: {
            rnd ();
            int a = (int) r.range (0, K - 1), b = (int) ((a + 1 + r.range (0, K - 2)) % K), ax = (int) r.range (0, K - 1);
            for (int j = 0; j < K; ++j) { B[a][j] = T (0); B[b][j] = T (0); }
            B[a][ax] = r.coin () ? anyfinite<T> (r) : benign<T> (r);
            B[b][ax] = r.coin () ? anyfinite<T> (r) : benign<T> (r);
            if (r.one_in (4)) for (int i = 0; i < K; ++i) for (int j = 0; j < K; ++j) if (i != a && i != b) B[i][j] = (j == (ax + 1) % K) ? benign<T> (r) : T (0);
            break;
        }
        case DC_PARALLEL_POW2: {
            rnd ();
            int a = (int) r.range (0, K - 1), b = (int) ((a + 1 + r.range (0, K - 2)) % K);
            if (r.coin ()) for (int j = 0; j < K; ++j) B[a][j] = (T) r.range (-4, 4);
            T f = (T) std::ldexp (r.coin () ? 1.0 : -1.0, (int) r.range (-4, 4));
            for (int j = 0; j < K; ++j) B[b][j] = f * B[a][j];
            break;
        }
        case DC_NEAR_DEGENERATE: {
            rnd ();
            int a = (int) r.range (0, K - 1), b = (int) ((a + 1 + r.range (0, K - 2)) % K);
            T   f = (T) r.sym (2.0);
            int p = (int) r.range (4, FT<T>::MANT + 8);
            for (int j = 0; j < K; ++j) B[b][j] = f * B[a][j] + (T) std::ldexp (r.sym (1.0), -p);
            break;
        }
        case DC_TINY:
            for (int i = 0; i < K; ++i) for (int j = 0; j < K; ++j) B[i][j] = r.one_in (3) ? subnormal<T> (r, r.coin ()) : (r.one_in (4) ? T (0) : lscale<T> (r, FT<T>::EMIN + FT<T>::MANT, FT<T>::EMIN + FT<T>::MANT + 30));
            break;
        case DC_HUGE:
            for (int i = 0; i < K; ++i) for (int j = 0; j < K; ++j) B[i][j] = r.one_in (4) ? benign<T> (r) : (r.one_in (6) ? (r.coin () ? tmax<T> () : -tmax<T> ()) : lscale<T> (r, FT<T>::EMAX - 20, FT<T>::EMAX - 1));
            break;
        case DC_MIXED_RANGE:
            for (int i = 0; i < K; ++i) { int e = (int) r.range (FT<T>::EMIN + 10, FT<T>::EMAX - 10); for (int j = 0; j < K; ++j) B[i][j] = (T) std::ldexp (r.sym (1.0), e); }
            break;
        case DC_SINGLE_ENTRY:
            B[(int) r.range (0, K - 1)][(int) r.range (0, K - 1)] = r.coin () ? subnormal<T> (r, true) : anyfinite<T> (r);
            break;
        default:
            for (int i = 0; i < K; ++i) for (int j = 0; j < K; ++j) B[i][j] = r.one_in (6) ? T (0) : anyfinite<T> (r);
            break;
    }
}

// exact Gram-Schmidt of the rows: well-conditioned iff no row is short against the largest entry and no
// residual (row minus its projection on the previous ones) is short against its row
template <class T, int K>
static bool
well_conditioned (const T B[3][3])
{
    f128 row[3][3], maxv = 0;
    for (int i = 0; i < K; ++i) for (int j = 0; j < K; ++j) { row[i][j] = B[i][j]; if (abs128 (row[i][j]) > maxv) maxv = abs128 (row[i][j]); }
    if (maxv == 0) return false;
    if (maxv > (f128) tmax<T> () / 1048576 || maxv < (f128) tmin<T> () * 1048576) return false; // scale*maxVal or row/maxVal near the range limits
    for (int i = 0; i < K; ++i)
    {
        f128 n0 = 0;
        for (int j = 0; j < K; ++j) { row[i][j] /= maxv; n0 += row[i][j] * row[i][j]; }
        n0 = sqrtq (n0);
        if (n0 < (f128) 1 / 1024) return false;
        for (int p = 0; p < i; ++p)
        {
            f128 d = 0;
            for (int j = 0; j < K; ++j) d += row[i][j] * row[p][j];
            for (int j = 0; j < K; ++j) row[i][j] -= d * row[p][j];
        }
        f128 n1 = 0;
        for (int j = 0; j < K; ++j) n1 += row[i][j] * row[i][j];
        n1 = sqrtq (n1);
        if (n1 < n0 / 1024) return false;
        for (int j = 0; j < K; ++j) row[i][j] /= n1;
    }
    return true;
}

template <class T, int K, class M, class CALL>
static void
sub_decomp (Ctx& c, uint64_t idx, const char* const* FN, const Kind* FK, int NF, CALL call, int failure_probe_fn)
{
    const int         N   = K + 1;
    const std::string tag = FT<T>::tag ();
    Rng               r   = c.rng (idx);
    int               cls = (int) (idx % DC_N);
    T                 B[3][3], tr[3];
    gen_block<T, K> (r, cls, B, tr);
    M m; // identity
    for (int i = 0; i < K; ++i) for (int j = 0; j < K; ++j) m[i][j] = B[i][j];
    for (int j = 0; j < K; ++j) m[K][j] = tr[j];
    typename Euler<T>::Order order = Euler<T>::XYZ;
    {
        static const typename Euler<T>::Order ORD[6] = {Euler<T>::XYZ, Euler<T>::XZY, Euler<T>::YZX, Euler<T>::ZYX, Euler<T>::XYX, Euler<T>::ZXZ};
        order = ORD[r.range (0, 5)];
    }
    c.eval (NF);
    c.cls (DCN[cls]);
    uint64_t h = 0;
    for (int i = 0; i < N; ++i) for (int j = 0; j < N; ++j) h = hbits (h, m[i][j]);
    c.nontrivial (h);

    Out<T> min; // the input, flattened
    min.put (m);
    // the failure indicator all functions share (documented: "returns false" of the common worker)
    Out<T> probe;
    probe.k = guarded ([&] { call (failure_probe_fn, m, false, order, probe); });
    const bool family_fails = probe.k == EX_NONE && !probe.ret;
    bool       any_threw = false;

    for (int fi = 0; fi < NF; ++fi)
    {
        Out<T> u, g;
        u.k = guarded ([&] { call (fi, m, false, order, u); });
        g.k = guarded ([&] { call (fi, m, true, order, g); });
        auto d = [&] {
            return Obj ().raw ("m", jarr_hex (&m[0][0], N * N)).raw ("m_value", jarr (&m[0][0], N * N)).kv ("class", DCN[cls]).kv ("exception", exc_name (g.k)).kv ("ret_exc_true", g.ret).kv ("ret_exc_false", u.ret)
                .raw ("out_exc_true", jarr_hex (g.v, g.n)).raw ("out_exc_false", jarr_hex (u.v, u.n)).str ();
        };
        if (u.k != EX_NONE) { c.fail (key (FN[fi], tag, "exc_false_threw"), idx, d); continue; }
        const bool u_fails = (FK[fi] == K_SANS) ? family_fails : !u.ret;
        if (u_fails != family_fails) c.fail (key (FN[fi], tag, "failure_report_differs_from_sibling"), idx, d);
        if (u_fails)
        {
            // documented shape of the failure report
            if (FK[fi] == K_SANS && !same_n (u.v, min.v, N * N)) c.fail (key (FN[fi], tag, "failure_result_is_not_the_input"), idx, d);
            if (FK[fi] == K_BOOL_INPLACE && !same_n (u.v, min.v, N * N)) c.fail (key (FN[fi], tag, "failure_modified_the_matrix"), idx, d);
        }
        if (g.k == EX_NONE)
        {
            c.cls ("exc_true_returned");
            if (u_fails) c.fail (key (FN[fi], tag, "no_throw_but_exc_false_reports_failure"), idx, d);
            else if (g.ret != u.ret || g.n != u.n || !same_n (g.v, u.v, g.n)) c.fail (key (FN[fi], tag, "exc_true_differs_from_exc_false"), idx, d);
        }
        else
        {
            c.cls ("exc_true_threw");
            any_threw = true;
            if (g.k != EX_DOMAIN) c.fail (key (FN[fi], tag, "wrong_exception_type"), idx, d);
            if (!u_fails) c.fail (key (FN[fi], tag, "threw_but_exc_false_reports_no_failure"), idx, d);
        }
        if (fi == 1 && idx < (uint64_t) DC_N) c.sample (DCN[cls], d);
    }
    bool wc = well_conditioned<T, K> (B);
    if (wc) c.cls ("well_conditioned");
    if (any_threw || family_fails)
    {
        c.cls ("failure_cases");
        if (wc)
            c.fail (key (FN[failure_probe_fn], tag, "failed_on_well_conditioned"), idx, [&] { return Obj ().raw ("m", jarr_hex (&m[0][0], N * N)).raw ("m_value", jarr (&m[0][0], N * N)).kv ("class", DCN[cls]).str (); });
    }
    else if (wc) c.cls ("well_conditioned_no_throw");
}

template <class T> static void dec3 (Ctx& c, uint64_t i)
{
    sub_decomp<T, 3, Matrix44<T>> (c, i, FN3, FK3, NF3, [] (int fi, const Matrix44<T>& m, bool e, typename Euler<T>::Order o, Out<T>& out) { call3<T> (fi, m, e, o, out); }, 7);
}
template <class T> static void dec2 (Ctx& c, uint64_t i)
{
    sub_decomp<T, 2, Matrix33<T>> (c, i, FN2, FK2, NF2, [] (int fi, const Matrix33<T>& m, bool e, typename Euler<T>::Order, Out<T>& out) { call2<T> (fi, m, e, 0, out); }, 6);
}

// ===================================================================== checkForZeroScaleInRow
enum { SCL_ZERO = 0, SCL_DENORM, SCL_LT1, SCL_NEAR1, SCL_GE1, SCL_N };
enum { ROW_AROUND = 0, ROW_BENIGN, ROW_ZERO, ROW_HUGE, ROW_ANY, ROW_N };
static const char* const SCLN[SCL_N] = {"scl_zero", "scl_subnormal", "scl_lt1", "scl_near1", "scl_ge1"};
static const char* const ROWN[ROW_N] = {"row_around_max_times_scl", "row_benign", "row_zero", "row_huge", "row_any"};

template <class T, class V>
static void
sub_checkzero (Ctx& c, uint64_t idx, const char* fn)
{
    const int         N   = (int) V::dimensions ();
    const std::string tag = FT<T>::tag ();
    Rng               r   = c.rng (idx);
    int               cls = (int) (idx % (SCL_N * ROW_N)), sc = cls % SCL_N, rc = cls / SCL_N;
    T                 scl = 0;
    switch (sc)
    {
        case SCL_ZERO: scl = signed_zero<T> (r); break;
        case SCL_DENORM: scl = subnormal<T> (r, r.one_in (3)); break;
        case SCL_LT1: scl = r.coin () ? lscale<T> (r, FT<T>::EMIN + FT<T>::MANT, -1) : (T) r.sym (1.0); break;
        case SCL_NEAR1: scl = step (T (1), (int) r.range (-3, 3)); if (r.coin ()) scl = -scl; break;
        default: scl = lscale<T> (r, 0, r.coin () ? 40 : FT<T>::EMAX - 1); break;
    }
    T as = scl < 0 ? -scl : scl;
    T m  = tmax<T> () * as;
    if (!std::isfinite (m)) m = tmax<T> ();
    V row;
    for (int i = 0; i < N; ++i)
    {
        switch (rc)
        {
            case ROW_AROUND: row[i] = (T) (r.sym (1.0) * (double) (m < T (1e30) ? m : T (1e30))); break;
            case ROW_BENIGN: row[i] = benign<T> (r); break;
            case ROW_ZERO: row[i] = signed_zero<T> (r); break;
            case ROW_HUGE: row[i] = r.coin () ? lscale<T> (r, FT<T>::EMAX - 3, FT<T>::EMAX - 1) : (r.coin () ? tmax<T> () : -tmax<T> ()); break;
            default: row[i] = anyfinite<T> (r); break;
        }
    }
    if (rc == ROW_AROUND)
    {
        T b = step (m, (int) r.range (-2, 2));
        row[(int) r.range (0, N - 1)] = r.coin () ? b : -b;
    }
    c.eval ();
    c.cls (SCLN[sc]);
    c.cls (ROWN[rc]);
    uint64_t h = hbits (0, scl);
    for (int i = 0; i < N; ++i) h = hbits (h, row[i]);
    c.nontrivial (h);

    bool    ru = true, rg = true;
    ExcKind ku = guarded ([&] { ru = checkForZeroScaleInRow (scl, row, false); });
    ExcKind kc = guarded ([&] { rg = checkForZeroScaleInRow (scl, row, true); });
    f128    qmax = 0;
    if (scl != T (0)) for (int i = 0; i < N; ++i) { f128 q = abs128 ((f128) row[i] / (f128) scl); if (q > qmax) qmax = q; }
    const f128 lim = (f128) tmax<T> () / 4;
    auto d = [&] { return Obj ().kv ("scl", FT<T>::hex (scl)).kv ("scl_value", (double) scl).raw ("row", jarr_hex (&row[0], N)).raw ("row_value", jarr (&row[0], N)).kv ("exception", exc_name (kc)).kv ("ret_exc_true", rg).kv ("ret_exc_false", ru).kv ("exact_max_quotient_over_max", scl == T (0) ? INFINITY : to_d (qmax / (f128) tmax<T> ())).str (); };
    if (ku != EX_NONE) { c.fail (key (fn, tag, "exc_false_threw"), idx, d); return; }
    if (kc == EX_NONE)
    {
        c.cls ("exc_true_returned");
        if (!ru) c.fail (key (fn, tag, "no_throw_but_exc_false_reports_failure"), idx, d);
        else if (!rg) c.fail (key (fn, tag, "exc_true_returned_false"), idx, d);
        if (scl != T (0) && qmax < lim / 4) c.cls ("well_conditioned_no_throw");
    }
    else
    {
        c.cls ("exc_true_threw");
        if (kc != EX_DOMAIN) c.fail (key (fn, tag, "wrong_exception_type"), idx, d);
        if (ru) c.fail (key (fn, tag, "threw_but_exc_false_reports_no_failure"), idx, d);
    }
    if (!ru || kc != EX_NONE)
    {
        // guard tightness: zero scale, or an exact quotient within a factor four of max
        if (scl == T (0)) c.cls ("failed_scl_zero");
        else if (qmax >= lim) { c.cls ("failed_overflow_guard"); c.worst ((std::string (fn) + "." + tag + ".(max/4)/exact_quotient_when_fired").c_str (), (double) (lim / qmax), idx); }
        else c.fail (key (fn, tag, "guard_fired_early"), idx, d);
    }
    if (idx < (uint64_t) (SCL_N * ROW_N)) c.sample ((std::string (SCLN[sc]) + "/" + ROWN[rc]).c_str (), d);
}

static void dec3f (Ctx& c, uint64_t i) { dec3<float> (c, i); }
static void dec3d (Ctx& c, uint64_t i) { dec3<double> (c, i); }
static void dec2f (Ctx& c, uint64_t i) { dec2<float> (c, i); }
static void dec2d (Ctx& c, uint64_t i) { dec2<double> (c, i); }
static void cz3f (Ctx& c, uint64_t i) { sub_checkzero<float, Vec3<float>> (c, i, "checkForZeroScaleInRow3"); }
static void cz3d (Ctx& c, uint64_t i) { sub_checkzero<double, Vec3<double>> (c, i, "checkForZeroScaleInRow3"); }
static void cz2f (Ctx& c, uint64_t i) { sub_checkzero<float, Vec2<float>> (c, i, "checkForZeroScaleInRow2"); }
static void cz2d (Ctx& c, uint64_t i) { sub_checkzero<double, Vec2<double>> (c, i, "checkForZeroScaleInRow2"); }

#define C07_DEC .req ({"benign_random", "scale*shear*rotation", "zero_row", "zero_block", "parallel_axis_aligned_rows", "near_degenerate", "tiny_subnormal_entries", "huge_entries", "exc_true_threw", "exc_true_returned", "well_conditioned", "well_conditioned_no_throw", "failure_cases"})
#define C07_DEC_SPACE "matrices whose linear block is (idx mod 12): random, scale*shear*rotation (incl. reflections), has a zero row, is zero, has two axis-aligned parallel rows, a row that is a 2^k multiple of another, nearly parallel rows, tiny/subnormal entries, huge entries, rows of very different magnitude, a single non-zero entry, arbitrary exponents"
MON_SUB_IDX (dec3f, "decomp_M44f", 360000, 14400000) C07_DEC.over ("11 Matrix44<float> decomposition entry points (extractScaling, sansScaling, removeScaling, ...AndShear, extractAndRemoveScalingAndShear, 3 extractSHRT overloads), exc=true vs exc=false: " C07_DEC_SPACE);
MON_SUB_IDX (dec3d, "decomp_M44d", 360000, 14400000) C07_DEC.over ("11 Matrix44<double> decomposition entry points, exc=true vs exc=false: " C07_DEC_SPACE);
MON_SUB_IDX (dec2f, "decomp_M33f", 480000, 19200000) C07_DEC.over ("8 Matrix33<float> (2-D) decomposition entry points, exc=true vs exc=false: " C07_DEC_SPACE);
MON_SUB_IDX (dec2d, "decomp_M33d", 480000, 19200000) C07_DEC.over ("8 Matrix33<double> (2-D) decomposition entry points, exc=true vs exc=false: " C07_DEC_SPACE);
#define C07_CZ .req ({"scl_zero", "scl_subnormal", "scl_lt1", "scl_near1", "scl_ge1", "row_around_max_times_scl", "row_benign", "row_huge", "exc_true_threw", "exc_true_returned", "failed_scl_zero", "failed_overflow_guard", "well_conditioned_no_throw"}) \
    .over ("checkForZeroScaleInRow(scl,row,exc): scl in {+-0, subnormal, <1, 1+-3ulp, >=1} x row {max*|scl| +-2 ulp, benign, zero, huge, any} (idx mod 25)")
MON_SUB_IDX (cz3f, "checkzero_V3f", 1000000, 40000000) C07_CZ;
MON_SUB_IDX (cz3d, "checkzero_V3d", 1000000, 40000000) C07_CZ;
MON_SUB_IDX (cz2f, "checkzero_V2f", 1000000, 40000000) C07_CZ;
MON_SUB_IDX (cz2d, "checkzero_V2d", 1000000, 40000000) C07_CZ;
