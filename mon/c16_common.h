// C16 - shared generators and the independent camera-space model of a frustum.
//
// Everything in here is computed in long double from the six numbers
// (left,right,top,bottom,near,far) and the kind (perspective / orthographic)
// with textbook geometry; no Frustum<T> member is used to build an expected value.
#pragma once
#include "mon.h"
#include <ImathBox.h>
#include <ImathFrustum.h>
#include <ImathFrustumTest.h>
#include <ImathLine.h>
#include <ImathMatrix.h>
#include <ImathPlane.h>
#include <ImathSphere.h>
#include <ImathVec.h>

namespace c16
{
using namespace mon;
using namespace IMATH_NAMESPACE;
typedef long double LD;

template <class T> struct TN;
template <> struct TN<float> { static const char* n () { return "float"; } };
template <> struct TN<double> { static const char* n () { return "double"; } };

struct V3
{
    LD x, y, z;
    LD  operator[] (int i) const { return i == 0 ? x : i == 1 ? y : z; }
    LD& at (int i) { return i == 0 ? x : i == 1 ? y : z; }
};
inline V3 operator+ (V3 a, V3 b) { return {a.x + b.x, a.y + b.y, a.z + b.z}; }
inline V3 operator- (V3 a, V3 b) { return {a.x - b.x, a.y - b.y, a.z - b.z}; }
inline V3 operator* (V3 a, LD s) { return {a.x * s, a.y * s, a.z * s}; }
inline LD dot (V3 a, V3 b) { return a.x * b.x + a.y * b.y + a.z * b.z; }
inline V3 cross (V3 a, V3 b) { return {a.y * b.z - a.z * b.y, a.z * b.x - a.x * b.z, a.x * b.y - a.y * b.x}; }
inline LD norm (V3 a) { return sqrtl (dot (a, a)); }
inline V3 unit (V3 a) { return a * (1 / norm (a)); }
template <class T> inline V3 toV3 (const Vec3<T>& v) { return {(LD) v.x, (LD) v.y, (LD) v.z}; }
template <class T> inline Vec3<T> toT (V3 v) { return Vec3<T> ((T) v.x, (T) v.y, (T) v.z); }

static const char* const PLANE_NAME[6] = {"top", "right", "bottom", "left", "near", "far"};

// ------------------------------------------------------------------ frustum case
template <class T> struct FC
{
    T    n, f, l, r, t, b;
    bool ortho, negnear;
    int  wkind, decade;
    LD   N, F, L, R, Tp, B;
    Frustum<T> fr () const { return Frustum<T> (n, f, l, r, t, b, ortho); }
    void sync () { N = n; F = f; L = l; R = r; Tp = t; B = b; }
    LD kx () const { return (fabsl (L) + fabsl (R)) / (R - L); }
    LD ky () const { return (fabsl (B) + fabsl (Tp)) / (Tp - B); }
    LD kz () const { return (fabsl (F) + fabsl (N)) / (F - N); }
    std::string js () const
    {
        return Obj ().kv ("near", (double) n).kv ("far", (double) f).kv ("left", (double) l).kv ("right", (double) r)
            .kv ("top", (double) t).kv ("bottom", (double) b).kv ("ortho", ortho).str ();
    }
    uint64_t hash () const
    {
        uint64_t h = ortho;
        for (double v: {(double) n, (double) f, (double) l, (double) r, (double) t, (double) b}) h = hash_combine (h, d2u (v));
        return h;
    }
};

// sel bits: 0 kind, 1-3 near/far decade, 4-5 window kind, 6-7 (ortho) near sign
// wkind: 0 symmetric, 1 asymmetric containing the axis, 2 axis outside the window, 3 one edge exactly on the axis
template <class T>
bool
gen_frustum (Rng& r, uint64_t sel, FC<T>& c)
{
    c.ortho   = sel & 1;
    c.decade  = (int) ((sel >> 1) & 7);
    c.wkind   = (int) ((sel >> 4) & 3);
    c.negnear = false;
    double u  = c.decade + r.uniform ();
    if (u < 0.02) u = 0.02;
    double ratio = std::pow (10.0, u);
    double n = std::pow (10.0, r.uniform (-3, 3)), f, w, h;
    if (c.ortho)
    {
        double D = n * (ratio - 1);
        if (((sel >> 6) & 3) == 3) { c.negnear = true; n = -n; }
        f           = n + D;
        double base = r.coin () ? D : std::fabs (n);
        w           = base * std::pow (10.0, r.uniform (-2, 1));
        h           = w * std::pow (10.0, r.uniform (-1, 1));
    }
    else
    {
        f = n * ratio;
        w = n * std::pow (10.0, r.uniform (-2, 1.3));
        h = w * std::pow (10.0, r.uniform (-1, 1));
        h = std::min (std::max (h, 0.01 * n), 20 * n);
    }
    double cx = 0, cy = 0;
    if (c.wkind == 1 || c.wkind == 3) { cx = r.uniform (-0.45, 0.45) * w; cy = r.uniform (-0.45, 0.45) * h; }
    if (c.wkind == 2)
    {
        int    mode = (int) r.range (0, 2); // axis outside in x, in y, in both
        double ox = r.uniform (0.6, 3) * (r.coin () ? 1 : -1), oy = r.uniform (0.6, 3) * (r.coin () ? 1 : -1);
        double ix = r.uniform (-0.45, 0.45), iy = r.uniform (-0.45, 0.45);
        cx = (mode == 1 ? ix : ox) * w;
        cy = (mode == 0 ? iy : oy) * h;
    }
    double l = cx - w / 2, rr = cx + w / 2, b = cy - h / 2, t = cy + h / 2;
    if (c.wkind == 3)
    {
        switch (r.range (0, 3))
        {
            case 0: l = 0; rr = w; break;
            case 1: rr = 0; l = -w; break;
            case 2: b = 0; t = h; break;
            default: t = 0; b = -h; break;
        }
    }
    c.n = (T) n; c.f = (T) f; c.l = (T) l; c.r = (T) rr; c.t = (T) t; c.b = (T) b;
    if (c.wkind == 0) { c.l = -c.r; c.b = -c.t; }
    c.sync ();
    if (!(c.l < c.r && c.b < c.t && c.n < c.f)) return false;
    if (!(std::isfinite ((double) c.f) && std::isfinite ((double) c.l) && std::isfinite ((double) c.r))) return false;
    if ((double) (c.f - c.n) < 0.02 * std::fabs ((double) c.n)) return false;
    return true;
}

template <class T>
void
count_classes (Ctx& c, const FC<T>& fc)
{
    c.cls (fc.ortho ? "orthographic" : "perspective");
    static const char* const dn[8] = {"ratio_decade_0", "ratio_decade_1", "ratio_decade_2", "ratio_decade_3",
                                      "ratio_decade_4", "ratio_decade_5", "ratio_decade_6", "ratio_decade_7"};
    c.cls (dn[fc.decade]);
    static const char* const wn[4] = {"symmetric_window", "asymmetric_window", "offaxis_window", "edge_on_axis_window"};
    c.cls (wn[fc.wkind]);
    if (fc.negnear) c.cls ("ortho_near_negative");
}
#define C16_FRUSTUM_CLASSES "perspective", "orthographic", "asymmetric_window", "offaxis_window", "symmetric_window", \
    "edge_on_axis_window", "ratio_decade_0", "ratio_decade_1", "ratio_decade_2", "ratio_decade_3", "ratio_decade_4", \
    "ratio_decade_5", "ratio_decade_6", "ratio_decade_7"

// ------------------------------------------------------------------ camera-space model
// corner ix (0 left, 1 right), iy (0 bottom, 1 top), iz (0 near, 1 far)
template <class T>
V3
corner (const FC<T>& c, int ix, int iy, int iz)
{
    LD x = ix ? c.R : c.L, y = iy ? c.Tp : c.B;
    if (!iz) return {x, y, -c.N};
    if (c.ortho) return {x, y, -c.F};
    LD s = c.F / c.N;
    return {x * s, y * s, -c.F};
}

// the camera-space point with screen position (sx,sy) at distance d in front of the camera
template <class T>
V3
from_screen (const FC<T>& c, LD sx, LD sy, LD d)
{
    LD xl = c.L + (c.R - c.L) * (1 + sx) / 2, yl = c.B + (c.Tp - c.B) * (1 + sy) / 2;
    if (c.ortho) return {xl, yl, -d};
    return {xl * d / c.N, yl * d / c.N, -d};
}

// analytic normalised device coordinates of a camera-space point (perspective: needs z != 0)
template <class T>
V3
ndc_of (const FC<T>& c, V3 p)
{
    LD d = -p.z;
    if (c.ortho)
        return {(2 * p.x - (c.R + c.L)) / (c.R - c.L), (2 * p.y - (c.Tp + c.B)) / (c.Tp - c.B), (2 * d - (c.F + c.N)) / (c.F - c.N)};
    return {(2 * c.N * p.x / d - (c.R + c.L)) / (c.R - c.L), (2 * c.N * p.y / d - (c.Tp + c.B)) / (c.Tp - c.B),
            ((c.F + c.N) - 2 * c.F * c.N / d) / (c.F - c.N)};
}

template <class T>
LD
depth_of_zndc (const FC<T>& c, LD zn)
{
    if (c.ortho) return (zn * (c.F - c.N) + (c.F + c.N)) / 2;
    return 2 * c.F * c.N / ((c.F + c.N) - zn * (c.F - c.N));
}

// six outward unit normals and offsets (n.p = off on the plane), order top,right,bottom,left,near,far
template <class T>
void
cam_planes (const FC<T>& c, V3 nrm[6], LD off[6])
{
    if (c.ortho)
    {
        nrm[0] = {0, 1, 0};  off[0] = c.Tp;
        nrm[1] = {1, 0, 0};  off[1] = c.R;
        nrm[2] = {0, -1, 0}; off[2] = -c.B;
        nrm[3] = {-1, 0, 0}; off[3] = -c.L;
    }
    else
    {
        nrm[0] = unit ({0, c.N, c.Tp});   off[0] = 0;
        nrm[1] = unit ({c.N, 0, c.R});    off[1] = 0;
        nrm[2] = unit ({0, -c.N, -c.B});  off[2] = 0;
        nrm[3] = unit ({-c.N, 0, -c.L});  off[3] = 0;
    }
    nrm[4] = {0, 0, 1};  off[4] = -c.N;
    nrm[5] = {0, 0, -1}; off[5] = c.F;
}

// definition of the open frustum region by inequalities on the coordinates
template <class T>
bool
inside_def (const FC<T>& c, V3 p)
{
    LD d = -p.z;
    if (!(d > c.N && d < c.F)) return false;
    if (c.ortho) return p.x > c.L && p.x < c.R && p.y > c.B && p.y < c.Tp;
    return p.x * c.N > c.L * d && p.x * c.N < c.R * d && p.y * c.N > c.B * d && p.y * c.N < c.Tp * d;
}

// the four corners of face k
template <class T>
void
face_corners (const FC<T>& c, int k, V3 out[4])
{
    int m = 0;
    for (int ix = 0; ix < 2; ++ix)
        for (int iy = 0; iy < 2; ++iy)
            for (int iz = 0; iz < 2; ++iz)
            {
                bool on = (k == 0 && iy == 1) || (k == 1 && ix == 1) || (k == 2 && iy == 0) || (k == 3 && ix == 0) ||
                          (k == 4 && iz == 0) || (k == 5 && iz == 1);
                if (on) out[m++] = corner (c, ix, iy, iz);
            }
}

// a point in the relative interior of face k: the two free screen/depth coordinates from (u,v) in (-1,1)
template <class T>
V3
face_point (const FC<T>& c, int k, LD u, LD v)
{
    LD sx = u, sy = v, zn = v;
    switch (k)
    {
        case 0: sy = 1; sx = u; zn = v; break;
        case 1: sx = 1; sy = u; zn = v; break;
        case 2: sy = -1; sx = u; zn = v; break;
        case 3: sx = -1; sy = u; zn = v; break;
        case 4: zn = -1; sx = u; sy = v; break;
        default: zn = 1; sx = u; sy = v; break;
    }
    LD d = k == 4 ? c.N : k == 5 ? c.F : depth_of_zndc (c, zn);
    return from_screen (c, sx, sy, d);
}

// ------------------------------------------------------------------ camera matrices
template <class T> struct MC
{
    Matrix44<T> M;
    int         kind; // 0 identity, 1 rigid, 2 uniformly scaled, 3 non-uniformly (positively) scaled
    LD          A[3][3], tau[3], Ai[3][3];
    V3 map (V3 p) const
    {
        V3 o;
        for (int j = 0; j < 3; ++j) o.at (j) = p.x * A[0][j] + p.y * A[1][j] + p.z * A[2][j] + tau[j];
        return o;
    }
    V3 unmap (V3 q) const
    {
        V3 o, d = {q.x - tau[0], q.y - tau[1], q.z - tau[2]};
        for (int j = 0; j < 3; ++j) o.at (j) = d.x * Ai[0][j] + d.y * Ai[1][j] + d.z * Ai[2][j];
        return o;
    }
    // world normal of the image of the camera-space plane with normal nc (unnormalised): Ai * nc
    V3 normal_w (V3 nc) const
    {
        V3 o;
        for (int i = 0; i < 3; ++i) o.at (i) = Ai[i][0] * nc.x + Ai[i][1] * nc.y + Ai[i][2] * nc.z;
        return unit (o);
    }
    void finish ()
    {
        for (int i = 0; i < 3; ++i)
        {
            for (int j = 0; j < 3; ++j) A[i][j] = M[i][j];
            tau[i] = M[3][i];
        }
        LD det = 0;
        LD co[3][3];
        for (int i = 0; i < 3; ++i)
            for (int j = 0; j < 3; ++j)
            {
                int i1 = (i + 1) % 3, i2 = (i + 2) % 3, j1 = (j + 1) % 3, j2 = (j + 2) % 3;
                co[i][j] = A[i1][j1] * A[i2][j2] - A[i1][j2] * A[i2][j1];
            }
        for (int j = 0; j < 3; ++j) det += A[0][j] * co[0][j];
        for (int i = 0; i < 3; ++i)
            for (int j = 0; j < 3; ++j) Ai[i][j] = co[j][i] / det;
    }
    std::string js () const
    {
        double m[16];
        for (int i = 0; i < 4; ++i)
            for (int j = 0; j < 4; ++j) m[i * 4 + j] = (double) M[i][j];
        return Obj ().kv ("kind", kind).arr ("M_rows", m, 16).str ();
    }
};

static const char* const MKIND[4] = {"matrix_identity", "matrix_rigid", "matrix_uniform_scale", "matrix_nonuniform_scale"};

// base: a length typical of the frustum (used to size the translation)
template <class T>
void
gen_matrix (Rng& r, int kind, double base, MC<T>& m)
{
    m.kind = kind;
    m.M.makeIdentity ();
    if (kind != 0)
    {
        double q[4], qn = 0;
        for (double& v: q) { v = r.gauss (); qn += v * v; }
        qn = std::sqrt (qn);
        if (qn < 1e-6) { q[0] = 1; q[1] = q[2] = q[3] = 0; qn = 1; }
        for (double& v: q) v /= qn;
        double w = q[0], x = q[1], y = q[2], z = q[3];
        double R[3][3] = {{1 - 2 * (y * y + z * z), 2 * (x * y + w * z), 2 * (x * z - w * y)},
                          {2 * (x * y - w * z), 1 - 2 * (x * x + z * z), 2 * (y * z + w * x)},
                          {2 * (x * z + w * y), 2 * (y * z - w * x), 1 - 2 * (x * x + y * y)}};
        double s[3] = {1, 1, 1};
        if (kind == 2) s[0] = s[1] = s[2] = std::pow (10.0, r.uniform (-2, 2));
        if (kind == 3) for (double& v: s) v = std::pow (10.0, r.uniform (-0.7, 0.7));
        double smean = std::cbrt (s[0] * s[1] * s[2]);
        for (int i = 0; i < 3; ++i)
            for (int j = 0; j < 3; ++j) m.M[i][j] = (T) (s[i] * R[i][j]);
        if (!r.one_in (4))
        {
            double tm = smean * base * std::pow (10.0, r.uniform (-1, 1));
            double d[3] = {r.gauss (), r.gauss (), r.gauss ()};
            double dn = std::sqrt (d[0] * d[0] + d[1] * d[1] + d[2] * d[2]) + 1e-300;
            for (int j = 0; j < 3; ++j) m.M[3][j] = (T) (tm * d[j] / dn);
        }
    }
    m.finish ();
}

// ------------------------------------------------------------------ true planes in world space + conditioning model
//
// Any implementation that derives a plane from three points P1,P2,P3 given in
// floating point inherits  (direction error) ~ eps * kappa,
//     kappa = Pmax (|u|+|v|) / |u x v|  +  |u||v| / |u x v|,   u = P2-P1, v = P3-P1,
// and evaluating  n.q - off  costs  eps (|q| + |P1|).  err(k,q) below is that unit; the
// sub-checks multiply it by a calibrated constant.  The model is used only to
// decide which inputs are too close to a boundary to be judged and how far an
// "on the plane" distance may be from 0 - never to compute an expected value.
struct WP
{
    V3 n[6];
    LD off[6];
    V3 P1[6];
    LD kappa[6];
    LD eps;
    LD uv[6];     // |u||v| of the defining triangle (float range guard)
    LD cr[6];     // |u x v|
    // a plane whose direction error eps*kappa is not small, or whose cross product leaves the
    // comfortable range of T, is not judged at all
    bool ok (int k) const
    {
        LD hi = eps > 1e-10L ? 1e17L : 1e150L, lo = eps > 1e-10L ? 1e-15L : 1e-140L;
        return eps * kappa[k] < 1e-3L && uv[k] < hi && cr[k] > lo;
    }
    bool all_ok () const { for (int k = 0; k < 6; ++k) if (!ok (k)) return false; return true; }
    LD dist (int k, V3 q) const { return dot (n[k], q) - off[k]; }
    LD E1[6];     // rounding-error magnitude (in units of eps) of the world-space anchor P1
    LD err (int k, V3 q, LD extra) const { return eps * (norm (q) + extra + E1[k] + kappa[k] * norm (q - P1[k])); }
    // max over planes of dist/err: < 0 iff inside; |.| is the robustness of that verdict
    LD margin (V3 q, LD extra, int* which = nullptr) const
    {
        LD m = -HUGE_VALL;
        for (int k = 0; k < 6; ++k)
        {
            LD v = dist (k, q) / err (k, q, extra);
            if (v > m) { m = v; if (which) *which = k; }
        }
        return m;
    }
};

inline LD
tri_kappa (V3 p1, V3 p2, V3 p3, LD pm, LD* uv = nullptr, LD* cr = nullptr)
{
    // pm: bound (in units of eps) on the rounding error of the three points; an edge carries two of them
    V3 u = p2 - p1, v = p3 - p1;
    LD a = norm (cross (u, v));
    if (uv) *uv = norm (u) * norm (v);
    if (cr) *cr = a;
    return 2 * pm * (norm (u) + norm (v)) / a + norm (u) * norm (v) / a;
}

// m == nullptr: planes(p) in camera space; else planes(p, M) in world space
template <class T>
void
world_planes (const FC<T>& c, const MC<T>* m, WP& w)
{
    V3 nc[6];
    LD oc[6];
    cam_planes (c, nc, oc);
    w.eps = eps_of<T>::value;
    V3 a = corner (c, 0, 0, 0), b = corner (c, 0, 1, 0), cc = corner (c, 1, 1, 0), d = corner (c, 1, 0, 0);
    V3 e = corner (c, 0, 0, 1), f = corner (c, 0, 1, 1), g = corner (c, 1, 1, 1), h = corner (c, 1, 0, 1), o = {0, 0, 0};
    V3 tri[6][3];
    if (!c.ortho)
    {
        V3 t[6][3] = {{o, cc, b}, {o, d, cc}, {o, a, d}, {o, b, a}, {a, d, cc}, {e, f, g}};
        std::memcpy (tri, t, sizeof t);
    }
    else
    {
        V3 t[6][3] = {{cc, g, f}, {d, h, g}, {a, e, h}, {b, f, e}, {a, d, cc}, {e, f, g}};
        std::memcpy (tri, t, sizeof t);
    }
    for (int k = 0; k < 6; ++k)
    {
        if (m)
        {
            V3 p1 = m->map (tri[k][0]), p2 = m->map (tri[k][1]), p3 = m->map (tri[k][2]);
            // a point p*M is a sum of three products and the translation: error <= eps * sum of |terms|
            LD rn[3], tn = sqrtl (m->tau[0] * m->tau[0] + m->tau[1] * m->tau[1] + m->tau[2] * m->tau[2]), em = 0, e1 = 0;
            for (int i = 0; i < 3; ++i) rn[i] = sqrtl (m->A[i][0] * m->A[i][0] + m->A[i][1] * m->A[i][1] + m->A[i][2] * m->A[i][2]);
            for (int t = 0; t < 3; ++t)
            {
                LD e = fabsl (tri[k][t].x) * rn[0] + fabsl (tri[k][t].y) * rn[1] + fabsl (tri[k][t].z) * rn[2] + tn;
                if (t == 0) e1 = e;
                em = std::max (em, e);
            }
            w.n[k]     = m->normal_w (nc[k]);
            w.P1[k]    = p1;
            w.E1[k]    = e1;
            w.off[k]   = dot (w.n[k], p1);
            w.kappa[k] = tri_kappa (p1, p2, p3, em, &w.uv[k], &w.cr[k]);
        }
        else
        {
            w.n[k]   = nc[k];
            w.off[k] = oc[k];
            if (!c.ortho && k < 4)
            {
                LD pm = std::max (norm (tri[k][1]), norm (tri[k][2])) / 2; // exact inputs: only the products of the cross product round
                w.P1[k] = o; w.E1[k] = 0;
                w.kappa[k] = tri_kappa (tri[k][0], tri[k][1], tri[k][2], pm, &w.uv[k], &w.cr[k]);
            }
            else { w.P1[k] = nc[k] * oc[k]; w.E1[k] = fabsl (oc[k]); w.kappa[k] = 1; w.uv[k] = 1; w.cr[k] = 1; }
        }
    }
}

} // namespace c16
