// C13 - ImathBoxAlgo.h: closestPointOnBox, transform (2 overloads), affineTransform (2 overloads).
//
// closest_on_box_lattice   : all lattice boxes {-2..2}^3 (inverted included) x all points {-3..3}^3,
//                            6 element types; oracle = brute force over the lattice points of the
//                            surface with exact squared distances (any minimiser accepted).
// closest_on_box_float     : random float/double boxes; exact distances to the six faces.
// transform_lattice_affine : lattice boxes x integer affine matrices, all four overloads, result
//                            must EQUAL the bounding box of the 8 exactly transformed corners.
// transform_lattice_projective : integer projective matrices whose w keeps one sign on the box,
//                            transform() both overloads, exact rational extremes.
// transform_float_affine / transform_float_projective : random float/double boxes and matrices,
//                            every face within C*eps*sum|terms| of the exact extreme over the 8
//                            corners (__float128), 32 interior points contained.
// transform_empty_infinite : empty -> empty, infinite -> infinite for each overload; out-parameter
//                            forms started from a default, an emptied and a pre-filled result.
#include "c13_common.h"
#include <array>

using namespace c13;
typedef __float128 f128;

static inline f128 fabs128 (f128 x) { return x < 0 ? -x : x; }
static inline long double fabs128 (long double x) { return x < 0 ? -x : x; }
// wide arithmetic of the transform oracles: products and short sums of float data are exact in the
// 64-bit significand of long double; double data needs __float128 (113 bits)
template <class S> struct Wide { typedef f128 type; };
template <> struct Wide<float> { typedef long double type; };

// ================================================================== closest_on_box_lattice
enum { CP_EMPTY, CP_INT_UNIQUE, CP_INT_TIE, CP_SURFACE, CP_OUTSIDE, CP_N };
static const char* const cp_name[CP_N] = {"empty_box", "interior_unique", "interior_tie", "on_surface", "outside"};

template <class T> static void
cpob_one (Ctx& c, uint64_t gidx, const LBox& lb, bool inv, const int* p, int dmin, int cls)
{
    Vec3<T>      P (from_i<T> (p[0]), from_i<T> (p[1]), from_i<T> (p[2]));
    Box<Vec3<T>> b (Vec3<T> (from_i<T> (lb.lo[0]), from_i<T> (lb.lo[1]), from_i<T> (lb.lo[2])), Vec3<T> (from_i<T> (lb.hi[0]), from_i<T> (lb.hi[1]), from_i<T> (lb.hi[2])));
    Vec3<T>      q = closestPointOnBox (P, b);
    double       qd[3] = {to_d (q.x), to_d (q.y), to_d (q.z)};
    bool         ok;
    if (inv) ok = qd[0] == p[0] && qd[1] == p[1] && qd[2] == p[2];
    else
    {
        bool   inbox = true, onsurf = false;
        double d2 = 0;
        for (int a = 0; a < 3; ++a)
        {
            if (qd[a] < lb.lo[a] || qd[a] > lb.hi[a]) inbox = false;
            if (qd[a] == lb.lo[a] || qd[a] == lb.hi[a]) onsurf = true;
            d2 += (qd[a] - p[a]) * (qd[a] - p[a]);
        }
        ok = inbox && onsurf && d2 == (double) dmin;
    }
    if (!ok)
        c.fail (std::string ("closestPointOnBox.V3") + TN<T>::s () + ":" + cp_name[cls], gidx, [&] { return Obj ().kv ("box", lbox_str (lb, 3)).kv ("point", ipt_str (p, 3)).arr ("got", qd, 3).kv ("min_squared_distance_to_surface", dmin).str (); });
}
static void
sub_cpob_lattice (Ctx& c, uint64_t b, uint64_t e)
{
    for (uint64_t code = b; code < e; ++code)
    {
        LBox lb;
        decode_box (code, 3, 2, lb);
        const bool inv = m_empty (lb, 3);
        std::vector<std::array<int, 3>> surf;
        if (!inv)
            for (int x = lb.lo[0]; x <= lb.hi[0]; ++x)
                for (int y = lb.lo[1]; y <= lb.hi[1]; ++y)
                    for (int z = lb.lo[2]; z <= lb.hi[2]; ++z)
                        if (x == lb.lo[0] || x == lb.hi[0] || y == lb.lo[1] || y == lb.hi[1] || z == lb.lo[2] || z == lb.hi[2]) surf.push_back ({x, y, z});
        uint64_t cnt[CP_N] = {0};
        for (uint64_t pc = 0; pc < 343; ++pc)
        {
            int p[4];
            decode_pt (pc, 3, 3, p);
            int dmin = 1 << 30, nmin = 0, cls = CP_EMPTY;
            if (!inv)
            {
                for (auto& s: surf)
                {
                    int d = (s[0] - p[0]) * (s[0] - p[0]) + (s[1] - p[1]) * (s[1] - p[1]) + (s[2] - p[2]) * (s[2] - p[2]);
                    if (d < dmin) { dmin = d; nmin = 1; }
                    else if (d == dmin) ++nmin;
                }
                bool in = m_contains (lb, 3, p);
                cls     = !in ? CP_OUTSIDE : dmin == 0 ? CP_SURFACE : nmin > 1 ? CP_INT_TIE : CP_INT_UNIQUE;
            }
            ++cnt[cls];
#define X(T) cpob_one<T> (c, code, lb, inv, p, dmin, cls);
            C13_TYPES (X)
#undef X
        }
        c.eval (343 * 6);
        for (int k = 0; k < CP_N; ++k) if (cnt[k]) c.cls (cp_name[k], cnt[k]);
        c.nontrivial_enum (343);
        if (code % 997 == 3) c.sample (inv ? "empty_box" : "box", [&] { return Obj ().kv ("box", lbox_str (lb, 3)).kv ("surface_lattice_points", (unsigned long long) surf.size ()).str (); });
    }
}
MON_SUB (sub_cpob_lattice, "closest_on_box_lattice", 15625, 15625)
    .req ({"empty_box", "interior_unique", "interior_tie", "on_surface", "outside"})
    .exh ()
    .chunked (32)
    .over ("closestPointOnBox: every lattice box min,max in {-2..2}^3 (inverted: result must be p) x every point in {-3..3}^3, V3s/V3i/V3i64/V3f/V3d/V3h; result must lie on the surface at the minimal exact squared distance found by brute force over the surface's lattice points (ties: any minimiser)");

// ================================================================== closest_on_box_float
template <class T> static void
cpob_float (Ctx& c, uint64_t gidx, unsigned cls)
{
    Rng r = c.rng (gidx);
    T   mn[3], mx[3], p[3];
    static const char* const names[8] = {"interior", "interior_exact_tie", "on_face", "outside_one_axis", "outside_corner", "flat_box", "point_box", "empty_box"};
    // moderate magnitudes: all wide-precision differences below are exact
    const int  e  = (int) r.range (-8, 8);
    const T    s  = (T) std::ldexp (1.0, e);
    for (int a = 0; a < 3; ++a)
    {
        if (cls == 1)
        {
            // integers times a power of two: ties between faces are exact
            int i0 = (int) r.range (-20, 20), n = (int) r.range (2, 6);
            mn[a] = (T) i0 * s;
            mx[a] = (T) (i0 + 2 * n) * s;
        }
        else
        {
            T u = (T) (r.sym (4.0) * std::ldexp (1.0, e)), v = (T) (r.sym (4.0) * std::ldexp (1.0, e));
            if (u == v) v = u + s;
            mn[a] = std::min (u, v);
            mx[a] = std::max (u, v);
        }
    }
    auto inside_pt = [&] (int a) {
        T t = (T) (mn[a] + (mx[a] - mn[a]) * (T) r.uniform (0.02, 0.98));
        return t;
    };
    switch (cls)
    {
        case 0:
            for (int a = 0; a < 3; ++a) p[a] = inside_pt (a);
            break;
        case 1: {
            int t = 1; // same exact distance t*s from the lower faces of two (or three) axes
            unsigned which = (unsigned) (r.u64 () % 4);
            for (int a = 0; a < 3; ++a)
            {
                bool tied = which == 3 || (int) which != a;
                bool upper = r.coin ();
                p[a] = tied ? (upper ? mx[a] - (T) t * s : mn[a] + (T) t * s) : (T) ((mn[a] + mx[a]) / 2);
            }
            if (r.coin ())
            {
                // near tie: one of the tied coordinates moved by a few units in the last place
                int a = (int) (r.u64 () % 3);
                for (int k = (int) r.range (1, 3); k > 0; --k) p[a] = std::nextafter (p[a], r.coin () ? mx[a] : mn[a]);
            }
            break;
        }
        case 2: {
            for (int a = 0; a < 3; ++a) p[a] = inside_pt (a);
            int a = (int) (r.u64 () % 3);
            p[a]  = r.coin () ? mn[a] : mx[a];
            break;
        }
        case 3: {
            for (int a = 0; a < 3; ++a) p[a] = inside_pt (a);
            int a = (int) (r.u64 () % 3);
            p[a]  = r.coin () ? mn[a] - (T) r.uniform (0.001, 3.0) * s : mx[a] + (T) r.uniform (0.001, 3.0) * s;
            break;
        }
        case 4:
            for (int a = 0; a < 3; ++a) p[a] = r.coin () ? mn[a] - (T) r.uniform (0.001, 3.0) * s : mx[a] + (T) r.uniform (0.001, 3.0) * s;
            break;
        case 5: {
            int a = (int) (r.u64 () % 3);
            mx[a] = mn[a];
            for (int k = 0; k < 3; ++k) p[k] = inside_pt (k);
            if (r.coin ()) p[a] = mn[a] + (T) r.sym (2.0) * s;
            break;
        }
        case 6:
            for (int a = 0; a < 3; ++a) { mx[a] = mn[a]; p[a] = r.one_in (3) ? mn[a] : mn[a] + (T) r.sym (2.0) * s; }
            break;
        default: {
            for (int a = 0; a < 3; ++a) p[a] = r.coin () ? inside_pt (a) : (T) r.sym (100.0);
            if (r.coin ())
            {
                int a = (int) (r.u64 () % 3);
                std::swap (mn[a], mx[a]); // inverted in one axis (mn != mx there by construction)
            }
            else
                for (int a = 0; a < 3; ++a) { mn[a] = std::numeric_limits<T>::max (); mx[a] = std::numeric_limits<T>::lowest (); }
            break;
        }
    }
    Box<Vec3<T>> box (Vec3<T> (mn[0], mn[1], mn[2]), Vec3<T> (mx[0], mx[1], mx[2]));
    Vec3<T>      P (p[0], p[1], p[2]);
    Vec3<T>      q = closestPointOnBox (P, box);
    c.eval ();
    c.cls (names[cls]);
    c.nontrivial (hash_combine (hash_combine (d2u ((double) p[0]) ^ (d2u ((double) p[1]) << 1), d2u ((double) mn[2]) ^ d2u ((double) mx[0])), d2u ((double) p[2]) + sizeof (T)));
    std::string key = std::string ("closestPointOnBox.V3") + TN<T>::s () + ":float_" + names[cls];
    auto desc = [&] (const char* why) { return Obj ().kv ("box_min", pt_str<VKind<Vec3<T>>> (box.min)).kv ("box_max", pt_str<VKind<Vec3<T>>> (box.max)).kv ("point", pt_str<VKind<Vec3<T>>> (P)).kv ("got", pt_str<VKind<Vec3<T>>> (q)).kv ("why", why).str (); };
    bool empty = false, strictly_inside = true;
    for (int a = 0; a < 3; ++a)
    {
        if (mx[a] < mn[a]) empty = true;
        if (!(mn[a] < p[a] && p[a] < mx[a])) strictly_inside = false;
    }
    if (empty)
    {
        if (!(q == P)) c.fail (key, gidx, [&] { return desc ("empty box: the point itself expected"); });
        return;
    }
    if (!strictly_inside)
    {
        // p is outside or on the boundary: the nearest surface point is the component-wise clamp (exact)
        for (int a = 0; a < 3; ++a)
        {
            T want = p[a] < mn[a] ? mn[a] : p[a] > mx[a] ? mx[a] : p[a];
            if (!(q[a] == want)) { c.fail (key, gidx, [&] { return desc ("clamped point expected"); }); return; }
        }
        return;
    }
    // strictly inside: exactly one coordinate moves onto its face; its exact distance is minimal
    f128 dmin = -1;
    for (int a = 0; a < 3; ++a)
    {
        f128 d1 = (f128) p[a] - (f128) mn[a], d2 = (f128) mx[a] - (f128) p[a];
        f128 d  = d1 < d2 ? d1 : d2;
        if (dmin < 0 || d < dmin) dmin = d;
    }
    int moved = 0, ax = -1;
    for (int a = 0; a < 3; ++a) if (!(q[a] == p[a])) { ++moved; ax = a; }
    if (moved != 1 || !(q[ax] == mn[ax] || q[ax] == mx[ax])) { c.fail (key, gidx, [&] { return desc ("exactly one coordinate must move onto a face"); }); return; }
    f128   dist  = fabs128 ((f128) q[ax] - (f128) p[ax]);
    double ratio = (double) ((dist / dmin - 1) / (f128) eps_of<T>::value);
    c.worst (std::is_same<T, float>::value ? "closestPointOnBox.float.excess_over_min_distance_in_eps" : "closestPointOnBox.double.excess_over_min_distance_in_eps", ratio, gidx, [&] { return desc ("worst"); });
    // the library compares the ROUNDED differences p-min, max-p (relative error eps/2 each), so a face whose exact
    // distance exceeds the minimum by a relative ~eps may be chosen.  Bound: 16 eps (worst observed over 2e8 cases
    // incl. 1.25e7 near ties per type: 0.5 eps)
    if (ratio > 16.0) c.fail (key, gidx, [&] { return desc ("a nearer face exists"); });
}
static void
sub_cpob_float (Ctx& c, uint64_t idx)
{
    unsigned cls = (unsigned) ((idx / 2) % 8);
    if (idx % 2) cpob_float<double> (c, idx, cls);
    else cpob_float<float> (c, idx, cls);
}
MON_SUB_IDX (sub_cpob_float, "closest_on_box_float", 4000000, 200000000)
    .req ({"interior", "interior_exact_tie", "on_face", "outside_one_axis", "outside_corner", "flat_box", "point_box", "empty_box"})
    .over ("closestPointOnBox on random V3f/V3d boxes (magnitudes 2^-8..2^10) with the point strictly inside, exactly equidistant from two or three faces, on a face, outside next to a face / corner, flat and point boxes, empty (inverted / canonical) boxes; oracle: clamp for points not strictly inside, otherwise exactly one coordinate moved to a face whose exact (__float128) distance is within 16 eps of the minimum; distinct = hash of box and point");

// ================================================================== transform: helpers
template <class S, class T> static std::string
combo_name ()
{
    return std::string ("Box3") + TN<S>::s () + "/M44" + TN<T>::s ();
}
static const char* const ov_name[4]    = {"transform.return", "transform.outparam", "affineTransform.return", "affineTransform.outparam"};
static const char* const state_name[3] = {"default_result", "emptied_result", "prefilled_result"};

template <class S> static void
prefill (Box<Vec3<S>>& r, int state)
{
    if (state == 0) r = Box<Vec3<S>> ();
    else if (state == 1) { r = Box<Vec3<S>> (Vec3<S> (from_i<S> (-7)), Vec3<S> (from_i<S> (9))); r.makeEmpty (); }
    else r = Box<Vec3<S>> (Vec3<S> (from_i<S> (-100)), Vec3<S> (from_i<S> (100)));
}
// run overload `ov` (0..3); out-parameter forms start from `state`
template <class S, class T> static Box<Vec3<S>>
call_overload (int ov, const Box<Vec3<S>>& b, const Matrix44<T>& m, int state)
{
    Box<Vec3<S>> r;
    switch (ov)
    {
        case 0: r = transform (b, m); break;
        case 1: prefill (r, state); transform (b, m, r); break;
        case 2: r = affineTransform (b, m); break;
        default: prefill (r, state); affineTransform (b, m, r); break;
    }
    return r;
}

// ================================================================== transform_lattice_affine
static const char* const mat_cls[8] = {"translation_only", "signed_permutation", "diagonal_scale_incl_zero_negative", "random_small_int", "singular", "shear", "zero_linear_part", "random_small_int_b"};
static void
gen_int_affine (Rng& r, unsigned cls, int M[4][4])
{
    for (int i = 0; i < 4; ++i) for (int j = 0; j < 4; ++j) M[i][j] = i == j;
    switch (cls)
    {
        case 0: break;
        case 1: {
            int perm[3] = {0, 1, 2};
            for (int k = 2; k > 0; --k) std::swap (perm[k], perm[r.u64 () % (k + 1)]);
            for (int i = 0; i < 3; ++i) for (int j = 0; j < 3; ++j) M[i][j] = perm[i] == j ? (r.coin () ? 1 : -1) : 0;
            break;
        }
        case 2:
            for (int i = 0; i < 3; ++i) M[i][i] = (int) r.range (-2, 2);
            break;
        case 4: {
            for (int i = 0; i < 3; ++i) for (int j = 0; j < 3; ++j) M[i][j] = (int) r.range (-2, 2);
            int a = (int) (r.u64 () % 3), b = (a + 1 + (int) (r.u64 () % 2)) % 3;
            for (int j = 0; j < 3; ++j) M[b][j] = r.coin () ? M[a][j] : -M[a][j];
            break;
        }
        case 5:
            for (int i = 0; i < 3; ++i) for (int j = i + 1; j < 3; ++j) M[i][j] = (int) r.range (-2, 2);
            break;
        case 6:
            for (int i = 0; i < 3; ++i) M[i][i] = 0;
            break;
        default:
            for (int i = 0; i < 3; ++i) for (int j = 0; j < 3; ++j) M[i][j] = (int) r.range (-2, 2);
            break;
    }
    for (int j = 0; j < 3; ++j) M[3][j] = (int) r.range (-3, 3);
}
static const std::vector<LBox>&
nonempty_lattice_boxes ()
{
    static const std::vector<LBox> v = [] {
        std::vector<LBox> o;
        for (uint64_t k = 0; k < n_boxes (3, 2); ++k)
        {
            LBox b;
            decode_box (k, 3, 2, b);
            if (!m_empty (b, 3)) o.push_back (b);
        }
        return o;
    }();
    return v;
}
struct IBounds
{
    int lo[3], hi[3];
};
template <class S, class T> static void
tla_combo (Ctx& c, uint64_t gidx, const int M[4][4], const std::vector<LBox>& boxes, const std::vector<IBounds>& want, const char* mcls)
{
    Matrix44<T> m;
    for (int i = 0; i < 4; ++i) for (int j = 0; j < 4; ++j) m[i][j] = (T) M[i][j];
    for (size_t k = 0; k < boxes.size (); ++k)
    {
        const LBox&  lb = boxes[k];
        Box<Vec3<S>> b (Vec3<S> (from_i<S> (lb.lo[0]), from_i<S> (lb.lo[1]), from_i<S> (lb.lo[2])), Vec3<S> (from_i<S> (lb.hi[0]), from_i<S> (lb.hi[1]), from_i<S> (lb.hi[2])));
        for (int ov = 0; ov < 4; ++ov)
        {
            const int    state = (int) ((k + ov + gidx) % 3);
            Box<Vec3<S>> r     = call_overload<S, T> (ov, b, m, state);
            bool         ok    = true;
            for (int i = 0; i < 3; ++i) ok = ok && to_d (r.min[i]) == (double) want[k].lo[i] && to_d (r.max[i]) == (double) want[k].hi[i];
            if (!ok)
                c.fail (std::string (ov_name[ov]) + "." + combo_name<S, T> () + ":affine_lattice" + ((ov & 1) ? std::string (":") + state_name[state] : std::string ()), gidx, [&] {
                    std::string ms;
                    for (int i = 0; i < 4; ++i) { ms += i ? " / " : ""; for (int j = 0; j < 4; ++j) ms += (j ? " " : "") + std::to_string (M[i][j]); }
                    return Obj ().kv ("matrix_rows", ms).kv ("matrix_class", mcls).kv ("box", lbox_str (lb, 3)).kv ("got", box_str<VKind<Vec3<S>>> (r)).kv ("want_min", ipt_str (want[k].lo, 3)).kv ("want_max", ipt_str (want[k].hi, 3)).str ();
                });
        }
    }
    c.eval (boxes.size () * 4);
}
static void
sub_tla (Ctx& c, uint64_t idx)
{
    Rng      r   = c.rng (idx);
    unsigned cls = (unsigned) (idx % 8);
    int      M[4][4];
    gen_int_affine (r, cls, M);
    const auto&          boxes = nonempty_lattice_boxes ();
    std::vector<IBounds> want (boxes.size ());
    for (size_t k = 0; k < boxes.size (); ++k)
    {
        IBounds& w = want[k];
        for (int i = 0; i < 3; ++i) { w.lo[i] = 1 << 30; w.hi[i] = -(1 << 30); }
        for (int corner = 0; corner < 8; ++corner)
        {
            int v[3];
            for (int j = 0; j < 3; ++j) v[j] = (corner >> j) & 1 ? boxes[k].hi[j] : boxes[k].lo[j];
            for (int i = 0; i < 3; ++i)
            {
                int x = M[3][i]; // row-vector convention: p' = p * M
                for (int j = 0; j < 3; ++j) x += v[j] * M[j][i];
                w.lo[i] = std::min (w.lo[i], x);
                w.hi[i] = std::max (w.hi[i], x);
            }
        }
    }
    c.cls (mat_cls[cls]);
    tla_combo<float, float> (c, idx, M, boxes, want, mat_cls[cls]);
    tla_combo<float, double> (c, idx, M, boxes, want, mat_cls[cls]);
    tla_combo<double, float> (c, idx, M, boxes, want, mat_cls[cls]);
    tla_combo<double, double> (c, idx, M, boxes, want, mat_cls[cls]);
    tla_combo<short, float> (c, idx, M, boxes, want, mat_cls[cls]);
    tla_combo<int, double> (c, idx, M, boxes, want, mat_cls[cls]);
    tla_combo<int64_t, double> (c, idx, M, boxes, want, mat_cls[cls]);
    uint64_t h = 0;
    for (int i = 0; i < 4; ++i) for (int j = 0; j < 3; ++j) h = h * 7 + (uint64_t) (M[i][j] + 3);
    c.nontrivial (h);
    if (idx < 8)
        c.sample (mat_cls[cls], [&] {
            std::string ms;
            for (int i = 0; i < 4; ++i) { ms += i ? " / " : ""; for (int j = 0; j < 4; ++j) ms += (j ? " " : "") + std::to_string (M[i][j]); }
            return Obj ().kv ("matrix_rows", ms).kv ("boxes", (unsigned long long) boxes.size ()).str ();
        });
}
MON_SUB_IDX (sub_tla, "transform_lattice_affine", 256, 8192)
    .req ({"translation_only", "signed_permutation", "diagonal_scale_incl_zero_negative", "random_small_int", "singular", "shear", "zero_linear_part"})
    .chunked (4)
    .over ("per index one integer affine matrix (3x3 part in {-2..2}, translation in {-3..3}; 8 structure classes) x all 3375 non-empty lattice boxes over {-2..2}^3 x {transform, transform(out), affineTransform, affineTransform(out)} x (box,matrix) element types (f,f),(f,d),(d,f),(d,d),(s,f),(i,d),(i64,d): result == exact integer bounding box of the 8 transformed corners; out-parameter forms start from a default / emptied / pre-filled result; distinct = hash of the matrix");

// ================================================================== transform_lattice_projective
template <class S, class T> static void
tlp_combo (Ctx& c, uint64_t gidx, const int M[4][4], const std::vector<LBox>& boxes)
{
    Matrix44<T> m;
    for (int i = 0; i < 4; ++i) for (int j = 0; j < 4; ++j) m[i][j] = (T) M[i][j];
    for (size_t k = 0; k < boxes.size (); ++k)
    {
        const LBox& lb = boxes[k];
        // exact images of the corners as rationals X_i / W; extremes by cross-multiplication (all W share one sign)
        int  nlo[3], dlo[3], nhi[3], dhi[3];
        bool first = true;
        // w must keep one sign over the box (true by construction except for the unit-w single-axis class, which is filtered here)
        {
            int wmin = 0, wmax = 0;
            for (int corner = 0; corner < 8; ++corner)
            {
                int W = M[3][3];
                for (int j = 0; j < 3; ++j) W += ((corner >> j) & 1 ? lb.hi[j] : lb.lo[j]) * M[j][3];
                if (corner == 0 || W < wmin) wmin = W;
                if (corner == 0 || W > wmax) wmax = W;
            }
            if (wmin <= 0 && wmax >= 0) { c.cls ("skipped_w_changes_sign_on_box"); continue; }
        }
        for (int corner = 0; corner < 8; ++corner)
        {
            int v[3];
            for (int j = 0; j < 3; ++j) v[j] = (corner >> j) & 1 ? lb.hi[j] : lb.lo[j];
            int W = M[3][3];
            for (int j = 0; j < 3; ++j) W += v[j] * M[j][3];
            for (int i = 0; i < 3; ++i)
            {
                int X = M[3][i];
                for (int j = 0; j < 3; ++j) X += v[j] * M[j][i];
                // X/W < nlo/dlo  <=>  X*dlo < nlo*W   (W*dlo > 0)
                if (first || (int64_t) X * dlo[i] < (int64_t) nlo[i] * W) { nlo[i] = X; dlo[i] = W; }
                if (first || (int64_t) X * dhi[i] > (int64_t) nhi[i] * W) { nhi[i] = X; dhi[i] = W; }
            }
            first = false;
        }
        Box<Vec3<S>> b (Vec3<S> ((S) lb.lo[0], (S) lb.lo[1], (S) lb.lo[2]), Vec3<S> ((S) lb.hi[0], (S) lb.hi[1], (S) lb.hi[2]));
        for (int ov = 0; ov < 2; ++ov)
        {
            const int    state = (int) ((k + ov + gidx) % 3);
            Box<Vec3<S>> r     = call_overload<S, T> (ov, b, m, state);
            bool         ok    = true;
            S            wl[3], wh[3];
            for (int i = 0; i < 3; ++i)
            {
                wl[i] = (S) nlo[i] / (S) dlo[i]; // one correctly rounded division; rounding is monotone
                wh[i] = (S) nhi[i] / (S) dhi[i];
                ok    = ok && r.min[i] == wl[i] && r.max[i] == wh[i];
            }
            if (!ok)
                c.fail (std::string (ov_name[ov]) + "." + combo_name<S, T> () + ":projective_lattice" + ((ov & 1) ? std::string (":") + state_name[state] : std::string ()), gidx, [&] {
                    std::string ms;
                    for (int i = 0; i < 4; ++i) { ms += i ? " / " : ""; for (int j = 0; j < 4; ++j) ms += (j ? " " : "") + std::to_string (M[i][j]); }
                    return Obj ().kv ("matrix_rows", ms).kv ("box", lbox_str (lb, 3)).kv ("got", box_str<VKind<Vec3<S>>> (r)).arr ("want_min", wl, 3).arr ("want_max", wh, 3).str ();
                });
        }
    }
    c.eval (boxes.size () * 2);
}
static void
sub_tlp (Ctx& c, uint64_t idx)
{
    Rng r = c.rng (idx);
    int M[4][4];
    gen_int_affine (r, (unsigned) (idx % 8), M);
    // last column: w = a x + b y + c z + d with |a x + b y + c z| <= 2(|a|+|b|+|c|) < |d| on the lattice boxes
    unsigned wcls = (unsigned) ((idx / 8) % 5);
    int      abc  = 0;
    for (int j = 0; j < 3; ++j) { M[j][3] = (wcls == 0 || wcls == 4) ? 0 : (int) r.range (-1, 1); abc += std::abs (M[j][3]); }
    if (wcls == 4)
    {
        // one-point perspective along a single axis with w = 1 + c*v[axis]: the last column looks affine in three of its four
        // entries (0,..,c,..,1); boxes on which w changes sign are skipped inside tlp_combo
        int axis = (int) ((idx / 40) % 3);
        M[axis][3] = r.coin () ? 1 : -1;
        M[3][3] = 1;
        c.cls (axis == 0 ? "single_axis_perspective_x_unit_w" : axis == 1 ? "single_axis_perspective_y_unit_w" : "single_axis_perspective_z_unit_w");
    }
    else if (abc == 0)
    {
        static const int ds[5] = {2, 3, 4, -1, -2};
        M[3][3] = ds[r.u64 () % 5];
        c.cls ("uniform_w");
    }
    else
    {
        int d   = 2 * abc + 1 + (int) r.range (0, 2);
        bool ng = wcls == 3 || (wcls == 2 && r.coin ());
        M[3][3] = ng ? -d : d;
        c.cls (ng ? "w_negative" : "w_positive");
    }
    const auto& boxes = nonempty_lattice_boxes ();
    tlp_combo<float, float> (c, idx, M, boxes);
    tlp_combo<float, double> (c, idx, M, boxes);
    tlp_combo<double, float> (c, idx, M, boxes);
    tlp_combo<double, double> (c, idx, M, boxes);
    uint64_t h = 0;
    for (int i = 0; i < 4; ++i) for (int j = 0; j < 4; ++j) h = h * 11 + (uint64_t) (M[i][j] + 9);
    c.nontrivial (h);
    if (idx < 32 && idx % 8 == 3)
        c.sample ("projective", [&] {
            std::string ms;
            for (int i = 0; i < 4; ++i) { ms += i ? " / " : ""; for (int j = 0; j < 4; ++j) ms += (j ? " " : "") + std::to_string (M[i][j]); }
            return Obj ().kv ("matrix_rows", ms).str ();
        });
}
MON_SUB_IDX (sub_tlp, "transform_lattice_projective", 160, 4096)
    .req ({"uniform_w", "w_positive", "w_negative", "single_axis_perspective_x_unit_w", "single_axis_perspective_y_unit_w", "single_axis_perspective_z_unit_w"})
    .chunked (4)
    .over ("per index one integer projective matrix (affine part as transform_lattice_affine, last column (a,b,c,d) with a,b,c in {-1,0,1} and |d| > 2(|a|+|b|+|c|) so that w keeps one sign, or (0,0,0,d) with d != 1, or a single +-1 in one of a,b,c with d = 1 - boxes on which that w changes sign are skipped) x all 3375 non-empty lattice boxes x {transform, transform(out)} x {float,double}^2: every face == the correctly rounded quotient of the exact rational extreme over the 8 corners; out-parameter form from default / emptied / pre-filled result");

// ================================================================== transform_float_*
static const char* const fl_cls[8] = {"moderate", "small_box_far_from_origin", "huge_1e15", "tiny_1e-12", "mixed_scales_per_axis", "rotation", "zeros_and_negative_scales", "degenerate_box"};
template <class S, class T> static void
gen_float_case (Rng& r, unsigned cls, Box<Vec3<S>>& b, Matrix44<T>& m)
{
    double bs[3] = {1, 1, 1}, off[3] = {0, 0, 0}, ms = 1, ts = 1;
    switch (cls)
    {
        case 1: for (int a = 0; a < 3; ++a) { bs[a] = 1e-3; off[a] = r.sym (1e3); } break;
        case 2: for (int a = 0; a < 3; ++a) bs[a] = 1e15; ms = 1e15; ts = 1e30; break;
        case 3: for (int a = 0; a < 3; ++a) bs[a] = 1e-12; ms = 1e-12; ts = 1e-24; break;
        case 4: for (int a = 0; a < 3; ++a) bs[a] = std::ldexp (1.0, (int) r.range (-30, 30)); ts = std::ldexp (1.0, (int) r.range (-30, 30)); break;
        default: break;
    }
    for (int a = 0; a < 3; ++a)
    {
        S u = (S) (off[a] + bs[a] * r.sym (1.0)), v = (S) (off[a] + bs[a] * r.sym (1.0));
        if (cls == 7 && r.coin ()) v = u;
        b.min[a] = std::min (u, v);
        b.max[a] = std::max (u, v);
    }
    for (int i = 0; i < 4; ++i) for (int j = 0; j < 4; ++j) m[i][j] = (T) (i == j);
    if (cls == 5)
    {
        // rotation about a random axis by a random angle (Rodrigues), entries rounded to T
        double ax[3] = {r.gauss (), r.gauss (), r.gauss ()}, n = std::sqrt (ax[0] * ax[0] + ax[1] * ax[1] + ax[2] * ax[2]);
        if (n < 1e-6) { ax[0] = 1; ax[1] = ax[2] = 0; n = 1; }
        for (double& x: ax) x /= n;
        double th = r.uniform (0, 6.283185307179586), cs = std::cos (th), sn = std::sin (th);
        double K[3][3] = {{0, -ax[2], ax[1]}, {ax[2], 0, -ax[0]}, {-ax[1], ax[0], 0}};
        for (int i = 0; i < 3; ++i)
            for (int j = 0; j < 3; ++j) m[i][j] = (T) ((i == j ? cs : 0) + sn * K[i][j] + (1 - cs) * ax[i] * ax[j]);
    }
    else
        for (int i = 0; i < 3; ++i)
            for (int j = 0; j < 3; ++j)
            {
                double v = ms * r.sym (2.0);
                if (cls == 6) { unsigned k = (unsigned) (r.u64 () % 4); v = k == 0 ? 0.0 : k == 1 ? -std::fabs (v) : v; }
                m[i][j] = (T) v;
            }
    for (int j = 0; j < 3; ++j) m[3][j] = (T) (ts * r.sym (3.0) + (cls == 1 ? r.sym (1e3) : 0.0));
    if (cls == 6 && r.coin ()) m[3][(int) (r.u64 () % 3)] = 0;
}
// Tolerance constant of the affine path.  Each face is translation + 3 products accumulated in S:
// |error| <= (3 roundings of the sum + 1 of each product + 1 of each (S)m cast) * eps/2 * sum|terms| < 3 eps sum|terms|.
// Calibrated on the pristine tree: worst observed |got-exact| / (eps*sum|terms|) over 4e7 cases (1e7 per
// element-type combination, 8 scale classes) = 2.07 (f,d), 1.81 (d,d), 1.81 (d,f), 1.80 (f,f); bound = 24 >= 8 x 2.07.
static const double TOL_AFFINE = 24.0;
template <class S, class T> static void
tfa_case (Ctx& c, uint64_t gidx, unsigned cls)
{
    typedef typename Wide<S>::type W;
    Rng          r = c.rng (gidx);
    Box<Vec3<S>> b;
    Matrix44<T>  m;
    gen_float_case<S, T> (r, cls, b, m);
    const double eps = eps_of<S>::value;
    W         lo[3], hi[3], tol[3];
    for (int i = 0; i < 3; ++i)
    {
        W sum = fabs128 ((W) m[3][i]);
        for (int j = 0; j < 3; ++j) sum += fabs128 ((W) m[j][i]) * std::max (fabs128 ((W) b.min[j]), fabs128 ((W) b.max[j]));
        tol[i] = sum * (W) eps;
        for (int corner = 0; corner < 8; ++corner)
        {
            W x = (W) m[3][i];
            for (int j = 0; j < 3; ++j) x += ((corner >> j) & 1 ? (W) b.max[j] : (W) b.min[j]) * (W) m[j][i];
            if (corner == 0 || x < lo[i]) lo[i] = x;
            if (corner == 0 || x > hi[i]) hi[i] = x;
        }
    }
    // images of 32 points of the box (exact)
    // (long double: its 2^-64 relative rounding is 1/4096 of eps(double), far inside the slack)
    long double img[32][3];
    for (int k = 0; k < 32; ++k)
    {
        long double p[3];
        for (int j = 0; j < 3; ++j)
        {
            unsigned    w = (unsigned) (r.u64 () % 8);
            long double u = w == 0 ? 0 : w == 1 ? 1 : (long double) r.uniform ();
            p[j]          = (long double) b.min[j] + u * ((long double) b.max[j] - (long double) b.min[j]);
            if (p[j] < (long double) b.min[j]) p[j] = (long double) b.min[j];
            if (p[j] > (long double) b.max[j]) p[j] = (long double) b.max[j];
        }
        for (int i = 0; i < 3; ++i)
        {
            img[k][i] = (long double) m[3][i];
            for (int j = 0; j < 3; ++j) img[k][i] += p[j] * (long double) m[j][i];
        }
    }
    const std::string wname = std::string ("transform.affine.") + TN<S>::s () + TN<T>::s () + ".face_error_over_eps_sum_terms";
    for (int ov = 0; ov < 4; ++ov)
    {
        const int    state = (int) ((gidx / 32 + ov) % 3);
        Box<Vec3<S>> res   = call_overload<S, T> (ov, b, m, state);
        std::string  key   = std::string (ov_name[ov]) + "." + combo_name<S, T> () + ":affine_float_" + fl_cls[cls] + ((ov & 1) ? std::string (":") + state_name[state] : std::string ());
        auto desc = [&] (const char* why, int axis, double ratio) {
            Obj o;
            o.kv ("why", why).kv ("axis", axis).kv ("ratio", ratio).kv ("box", box_str<VKind<Vec3<S>>> (b)).kv ("got", box_str<VKind<Vec3<S>>> (res));
            std::string ms;
            for (int i = 0; i < 4; ++i) { ms += i ? " / " : ""; for (int j = 0; j < 4; ++j) ms += (j ? " " : "") + jnum ((double) m[i][j]); }
            double e[6] = {(double) lo[0], (double) lo[1], (double) lo[2], (double) hi[0], (double) hi[1], (double) hi[2]};
            return o.kv ("matrix_rows", ms).arr ("exact_min_max", e, 6).str ();
        };
        for (int i = 0; i < 3; ++i)
        {
            W   el = fabs128 ((W) res.min[i] - lo[i]), eh = fabs128 ((W) res.max[i] - hi[i]);
            W   em = el > eh ? el : eh;
            double ratio;
            if (tol[i] == 0) ratio = em == 0 ? 0.0 : 1e300;
            else ratio = (double) (em / tol[i]);
            if (!(ratio == ratio)) ratio = 1e300; // NaN in the result
            c.worst (wname.c_str (), ratio, gidx, [&] { return desc ("worst", i, ratio); });
            if (ratio > TOL_AFFINE) c.fail (key, gidx, [&] { return desc ("face differs from the exact extreme of the 8 corner images", i, ratio); });
            for (int k = 0; k < 32; ++k)
            {
                long double slack = (long double) tol[i] * TOL_AFFINE;
                if (img[k][i] < (long double) res.min[i] - slack || img[k][i] > (long double) res.max[i] + slack)
                {
                    c.fail (key + ":interior_point_outside", gidx, [&] { return desc ("image of a point of the box lies outside the result", i, (double) img[k][i]); });
                    break;
                }
            }
        }
    }
    c.eval (4);
    c.cls (fl_cls[cls]);
    c.nontrivial (hash_combine (d2u ((double) b.min[0]) ^ (d2u ((double) b.max[1]) << 1), d2u ((double) m[0][0]) ^ (d2u ((double) m[2][1]) >> 1)));
    if (gidx < 32) c.sample ((std::string (fl_cls[cls]) + ":" + combo_name<S, T> ()).c_str (), [&] { return Obj ().kv ("box", box_str<VKind<Vec3<S>>> (b)).str (); });
}
static void
sub_tfa (Ctx& c, uint64_t idx)
{
    unsigned cls = (unsigned) ((idx / 4) % 8);
    switch (idx % 4)
    {
        case 0: tfa_case<float, float> (c, idx, cls); break;
        case 1: tfa_case<float, double> (c, idx, cls); break;
        case 2: tfa_case<double, float> (c, idx, cls); break;
        default: tfa_case<double, double> (c, idx, cls); break;
    }
}
MON_SUB_IDX (sub_tfa, "transform_float_affine", 1000000, 40000000)
    .req ({"moderate", "small_box_far_from_origin", "huge_1e15", "tiny_1e-12", "mixed_scales_per_axis", "rotation", "zeros_and_negative_scales", "degenerate_box"})
    .over ("random float/double boxes x float/double affine matrices (8 scale/structure classes), all four overloads: each face within 24 eps * (|translation| + sum |m_ji| max|box_j|) of the exact (__float128) extreme over the 8 corner images; images of 32 points of the box (incl. faces/corners) inside the result within the same slack; distinct = hash of box and matrix");

// Projective path: x = fl(sum of 4 terms), w = fl(sum of 4 terms), q = fl(x/w).
// |q - X/W| <= eps * C * ( sum|x terms| / |W| + |X| * sum|w terms| / W^2 ).  Calibrated on the pristine tree:
// worst observed ratio over 4e7 cases = 1.18 (d,f), 1.13 (d,d), 1.05 (f,f), 0.71 (f,d); bound = 16 >= 8 x 1.18.
static const double TOL_PROJ = 16.0;
template <class S, class T> static void
tfp_case (Ctx& c, uint64_t gidx, unsigned cls)
{
    typedef typename Wide<S>::type W_;
    Rng          r = c.rng (gidx);
    Box<Vec3<S>> b;
    Matrix44<T>  m;
    gen_float_case<S, T> (r, cls, b, m);
    // last column scaled to the box so that |a x + b y + c z| <= 0.45 < 0.5 <= |d|
    for (int j = 0; j < 3; ++j)
    {
        double mx = std::max (std::fabs ((double) b.min[j]), std::fabs ((double) b.max[j]));
        m[j][3]   = mx > 0 ? (T) (r.sym (0.15) / mx) : (T) r.sym (0.15);
    }
    const bool negw = (gidx / 32) % 2;
    m[3][3]         = (T) ((negw ? -1.0 : 1.0) * r.uniform (0.5, 2.0));
    if (m[0][3] == 0 && m[1][3] == 0 && m[2][3] == 0 && m[3][3] == 1) m[3][3] = (T) 1.5;
    const double eps = eps_of<S>::value;
    W_         lo[3], hi[3], tol[3] = {0, 0, 0};
    bool         illc = false;
    for (int corner = 0; corner < 8; ++corner)
    {
        W_ v[3], W = (W_) m[3][3], sw = fabs128 (W);
        for (int j = 0; j < 3; ++j)
        {
            v[j] = (corner >> j) & 1 ? (W_) b.max[j] : (W_) b.min[j];
            W += v[j] * (W_) m[j][3];
            sw += fabs128 (v[j] * (W_) m[j][3]);
        }
        if (fabs128 (W) < (W_) 0.02 * sw || (W < 0) != negw) illc = true;
        for (int i = 0; i < 3; ++i)
        {
            W_ X = (W_) m[3][i], sx = fabs128 (X);
            for (int j = 0; j < 3; ++j) { X += v[j] * (W_) m[j][i]; sx += fabs128 (v[j] * (W_) m[j][i]); }
            W_ q = X / W;
            W_ t = (W_) eps * (sx / fabs128 (W) + fabs128 (X) * sw / (W * W));
            if (t > tol[i]) tol[i] = t;
            if (corner == 0 || q < lo[i]) lo[i] = q;
            if (corner == 0 || q > hi[i]) hi[i] = q;
        }
    }
    if (illc) { c.cls ("skipped_illconditioned"); return; }
    const std::string wname = std::string ("transform.projective.") + TN<S>::s () + TN<T>::s () + ".face_error_over_eps_bound";
    for (int ov = 0; ov < 2; ++ov)
    {
        const int    state = (int) ((gidx / 64 + ov) % 3);
        Box<Vec3<S>> res   = call_overload<S, T> (ov, b, m, state);
        std::string  key   = std::string (ov_name[ov]) + "." + combo_name<S, T> () + ":projective_float_" + fl_cls[cls] + ((ov & 1) ? std::string (":") + state_name[state] : std::string ());
        for (int i = 0; i < 3; ++i)
        {
            W_   el = fabs128 ((W_) res.min[i] - lo[i]), eh = fabs128 ((W_) res.max[i] - hi[i]);
            W_   em = el > eh ? el : eh;
            double ratio;
            if (tol[i] == 0) ratio = em == 0 ? 0.0 : 1e300;
            else ratio = (double) (em / tol[i]);
            if (!(ratio == ratio)) ratio = 1e300;
            auto desc = [&] {
                std::string ms;
                for (int a = 0; a < 4; ++a) { ms += a ? " / " : ""; for (int j = 0; j < 4; ++j) ms += (j ? " " : "") + jnum ((double) m[a][j]); }
                double e[6] = {(double) lo[0], (double) lo[1], (double) lo[2], (double) hi[0], (double) hi[1], (double) hi[2]};
                return Obj ().kv ("axis", i).kv ("ratio", ratio).kv ("box", box_str<VKind<Vec3<S>>> (b)).kv ("got", box_str<VKind<Vec3<S>>> (res)).kv ("matrix_rows", ms).arr ("exact_min_max", e, 6).str ();
            };
            c.worst (wname.c_str (), ratio, gidx, desc);
            if (ratio > TOL_PROJ) c.fail (key, gidx, desc);
        }
    }
    c.eval (2);
    c.cls (fl_cls[cls]);
    c.cls (negw ? "w_negative" : "w_positive");
    c.nontrivial (hash_combine (d2u ((double) b.min[0]) ^ (d2u ((double) b.max[1]) << 1), d2u ((double) m[0][3]) ^ (d2u ((double) m[3][3]) >> 1)));
}
static void
sub_tfp (Ctx& c, uint64_t idx)
{
    unsigned cls = (unsigned) ((idx / 4) % 8);
    switch (idx % 4)
    {
        case 0: tfp_case<float, float> (c, idx, cls); break;
        case 1: tfp_case<float, double> (c, idx, cls); break;
        case 2: tfp_case<double, float> (c, idx, cls); break;
        default: tfp_case<double, double> (c, idx, cls); break;
    }
}
MON_SUB_IDX (sub_tfp, "transform_float_projective", 1000000, 40000000)
    .req ({"moderate", "small_box_far_from_origin", "huge_1e15", "tiny_1e-12", "mixed_scales_per_axis", "rotation", "zeros_and_negative_scales", "degenerate_box", "w_positive", "w_negative"})
    .over ("random float/double boxes x projective matrices (affine part as transform_float_affine; last column scaled so that w = a x + b y + c z + d keeps one sign, |w| >= 0.05, both signs), transform() both overloads: each face within 16 eps * max over corners (sum|x terms|/|w| + |x| sum|w terms|/w^2) of the exact (__float128) extreme of the 8 projected corners; out-parameter form from default / emptied / pre-filled result");

// ================================================================== transform_empty_infinite
static const char* const ei_box[6] = {"default_empty_box", "made_empty_box", "inverted_one_axis_box", "inverted_all_axes_box", "inverted_extreme_values_box", "infinite_box"};
static const char* const ei_mat[3] = {"identity", "affine", "projective"};
template <class S, class T> static void
tei_case (Ctx& c, uint64_t gidx, unsigned bk, unsigned mk, unsigned state)
{
    using L = std::numeric_limits<S>;
    Rng          r = c.rng (gidx);
    Box<Vec3<S>> b;
    switch (bk)
    {
        case 0: break;
        case 1: b = Box<Vec3<S>> (Vec3<S> ((S) -1), Vec3<S> ((S) 2)); b.makeEmpty (); break;
        case 2: {
            b      = Box<Vec3<S>> (Vec3<S> ((S) r.range (-5, -1), (S) r.range (-5, -1), (S) r.range (-5, -1)), Vec3<S> ((S) r.range (1, 5), (S) r.range (1, 5), (S) r.range (1, 5)));
            int a  = (int) (r.u64 () % 3);
            S   t  = b.min[a];
            b.min[a] = b.max[a];
            b.max[a] = t;
            break;
        }
        case 3: b = Box<Vec3<S>> (Vec3<S> ((S) r.range (1, 5), (S) r.range (1, 5), (S) r.range (1, 5)), Vec3<S> ((S) r.range (-5, -1), (S) r.range (-5, -1), (S) r.range (-5, -1))); break;
        case 4: {
            // extreme values, empty because one axis is inverted by a single step
            b.makeInfinite ();
            int a    = (int) (r.u64 () % 3);
            b.min[a] = L::max ();
            if constexpr (is_int_v<S>) b.max[a] = (S) (L::max () - 1);
            else b.max[a] = std::nextafter (L::max (), (S) 0);
            break;
        }
        default: b.makeInfinite (); break;
    }
    Matrix44<T> m;
    if (mk >= 1)
        for (int i = 0; i < 4; ++i) for (int j = 0; j < 3; ++j) m[i][j] = (T) (int) r.range (-2, 2);
    if (mk == 2)
    {
        for (int j = 0; j < 3; ++j) m[j][3] = (T) r.sym (0.01);
        m[3][3] = (T) (r.coin () ? 2.0 : 0.5);
    }
    const bool want_inf = bk == 5;
    for (int ov = 0; ov < 4; ++ov)
    {
        if (ov >= 2 && mk == 2) continue; // affineTransform requires the last column (0 0 0 1)
        Box<Vec3<S>> res = call_overload<S, T> (ov, b, m, (int) state);
        bool         ok  = want_inf ? res.isInfinite () : res.isEmpty ();
        c.eval ();
        if (!ok)
            c.fail (std::string (ov_name[ov]) + "." + combo_name<S, T> () + ":" + (want_inf ? "infinite_box" : "empty_box") + ":" + ei_mat[mk] + "_matrix" + ((ov & 1) ? std::string (":") + state_name[state] : std::string ()), gidx, [&] {
                return Obj ().kv ("box_kind", ei_box[bk]).kv ("box", box_str<VKind<Vec3<S>>> (b)).kv ("matrix_kind", ei_mat[mk]).kv ("result", box_str<VKind<Vec3<S>>> (res)).kv ("expected", want_inf ? "isInfinite()" : "isEmpty()").str ();
            });
    }
    c.cls (ei_box[bk]);
    c.cls (std::string (ei_mat[mk]) + "_matrix");
    c.cls (state_name[state]);
}
static void
sub_tei (Ctx& c, uint64_t idx)
{
    uint64_t x     = idx;
    unsigned combo = (unsigned) (x % 10); x /= 10;
    unsigned bk    = (unsigned) (x % 6); x /= 6;
    unsigned mk    = (unsigned) (x % 3); x /= 3;
    unsigned state = (unsigned) (x % 3);
    switch (combo)
    {
        case 0: tei_case<float, float> (c, idx, bk, mk, state); break;
        case 1: tei_case<float, double> (c, idx, bk, mk, state); break;
        case 2: tei_case<double, float> (c, idx, bk, mk, state); break;
        case 3: tei_case<double, double> (c, idx, bk, mk, state); break;
        case 4: tei_case<short, float> (c, idx, bk, mk, state); break;
        case 5: tei_case<short, double> (c, idx, bk, mk, state); break;
        case 6: tei_case<int, float> (c, idx, bk, mk, state); break;
        case 7: tei_case<int, double> (c, idx, bk, mk, state); break;
        case 8: tei_case<int64_t, float> (c, idx, bk, mk, state); break;
        default: tei_case<int64_t, double> (c, idx, bk, mk, state); break;
    }
    c.nontrivial_enum (1);
    if (idx % 541 == 0) c.sample (ei_box[bk], [&] { return Obj ().kv ("matrix", ei_mat[mk]).kv ("result_state", state_name[state]).str (); });
}
MON_SUB_IDX (sub_tei, "transform_empty_infinite", 540 * 8, 540 * 64)
    .req ({"default_empty_box", "made_empty_box", "inverted_one_axis_box", "inverted_all_axes_box", "inverted_extreme_values_box", "infinite_box", "identity_matrix", "affine_matrix", "projective_matrix", "default_result", "emptied_result", "prefilled_result"})
    .noscale ()
    .chunked (64)
    .over ("{6 kinds of empty / infinite Box3} x {identity, integer affine, projective matrix} x {result starts default, emptied, pre-filled [-100,100]^3} x box types {f,d,s,i,i64} x matrix types {f,d}, random repetitions: transform (2 overloads; affineTransform's 2 overloads for the non-projective matrices) must return an isEmpty() resp. isInfinite() box");
