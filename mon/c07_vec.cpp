// C07 - throwing and non-throwing variants of every operation agree.
// This TU: Vec2/3/4 normalize / normalizeExc / normalizeNonNull / normalized*,
// and Vec3(Vec4) vs Vec3(Vec4, INF_EXCEPTION).  (Other TUs: c07_matrix.cpp,
// c07_frustum.cpp, c07_decomp.cpp.)
//
// Oracle: the *pair* itself - the outcome (value bits or dynamic exception type) of
// the checked form against the outcome of the unchecked form on the same input - plus
// facts about the input that do not depend on the library: "is the zero vector"
// (the documented failure of normalisation) and the exact quotient v_i/w in
// __float128 (tightness of the overflow guard of the Vec4->Vec3 conversion).
#include "c07_common.h"
#include <ImathVec.h>

using namespace c07;
using namespace IMATH_NAMESPACE;

// ===================================================================== normalisation
enum
{
    VC_ZERO = 0,
    VC_ONE_DENORM,
    VC_ALL_DENORM,
    VC_THRESH,
    VC_TINY,
    VC_HUGE,
    VC_MAX,
    VC_MIXED,
    VC_BENIGN,
    VC_LATTICE,
    VC_ANY,
    VC_N
};
static const char* const VCN[VC_N] = {"zero",     "one_denormal", "all_denormal", "tiny_threshold_2min", "tiny_squares_underflow", "huge_squares_overflow",
                                      "max_comp", "mixed_huge_tiny", "benign",     "lattice",             "any_exponent"};

template <class V>
static void
gen_vec (Rng& r, int cls, V& v)
{
    typedef typename V::BaseType T;
    const int                    N = (int) V::dimensions ();
    for (int i = 0; i < N; ++i) v[i] = T (0);
    switch (cls)
    {
        case VC_ZERO:
            for (int i = 0; i < N; ++i) v[i] = signed_zero<T> (r);
            break;
        case VC_ONE_DENORM:
            for (int i = 0; i < N; ++i) v[i] = signed_zero<T> (r);
            v[(int) r.range (0, N - 1)] = subnormal<T> (r, r.coin ());
            break;
        case VC_ALL_DENORM:
            for (int i = 0; i < N; ++i) v[i] = subnormal<T> (r, r.one_in (4));
            break;
        case VC_THRESH: {
            // |v|^2 close to 2*min (both sides): the switch between sqrt(dot) and lengthTiny()
            double s = std::sqrt (2.0 * (double) tmin<T> ()) * std::exp2 (r.sym (0.02));
            double u[4], n2 = 0;
            for (int i = 0; i < N; ++i) { u[i] = r.gauss (); n2 += u[i] * u[i]; }
            n2 = std::sqrt (n2 > 0 ? n2 : 1);
            for (int i = 0; i < N; ++i) v[i] = (T) (s * u[i] / n2);
            break;
        }
        case VC_TINY:
            for (int i = 0; i < N; ++i) v[i] = r.one_in (5) ? T (0) : lscale<T> (r, FT<T>::EMIN + FT<T>::MANT, -(FT<T>::EMAX / 2) - 2);
            break;
        case VC_HUGE:
            for (int i = 0; i < N; ++i) v[i] = r.one_in (5) ? benign<T> (r) : lscale<T> (r, FT<T>::EMAX / 2 + 1, FT<T>::EMAX - 1);
            v[(int) r.range (0, N - 1)] = lscale<T> (r, FT<T>::EMAX / 2 + 1, FT<T>::EMAX - 1);
            break;
        case VC_MAX:
            for (int i = 0; i < N; ++i) v[i] = r.coin () ? (r.coin () ? tmax<T> () : -tmax<T> ()) : (r.coin () ? T (0) : step (tmax<T> (), -(int) r.range (1, 3)));
            v[(int) r.range (0, N - 1)] = r.coin () ? tmax<T> () : -tmax<T> ();
            break;
        case VC_MIXED:
            for (int i = 0; i < N; ++i) v[i] = r.coin () ? anyfinite<T> (r) : (r.coin () ? subnormal<T> (r) : lscale<T> (r, FT<T>::EMAX - 4, FT<T>::EMAX - 1));
            break;
        case VC_BENIGN:
            for (int i = 0; i < N; ++i) v[i] = benign<T> (r);
            break;
        case VC_LATTICE:
            for (int i = 0; i < N; ++i) v[i] = (T) r.range (-4, 4);
            break;
        default:
            for (int i = 0; i < N; ++i) v[i] = anyfinite<T> (r);
            break;
    }
}

template <class V> struct VName;
template <class T> struct VName<Vec2<T>> { static std::string tag () { return std::string ("V2") + FT<T>::tag (); } };
template <class T> struct VName<Vec3<T>> { static std::string tag () { return std::string ("V3") + FT<T>::tag (); } };
template <class T> struct VName<Vec4<T>> { static std::string tag () { return std::string ("V4") + FT<T>::tag (); } };

template <class V>
static void
sub_norm (Ctx& c, uint64_t idx)
{
    typedef typename V::BaseType T;
    const int                    N   = (int) V::dimensions ();
    const std::string            tag = VName<V>::tag ();
    Rng                          r   = c.rng (idx);
    int                          cls = (int) (idx % VC_N);
    V                            v;
    gen_vec (r, cls, v);
    c.eval ();
    c.cls (VCN[cls]);
    uint64_t h = 0;
    bool     zero = true;
    for (int i = 0; i < N; ++i) { h = hbits (h, v[i]); if (v[i] != T (0)) zero = false; }
    c.nontrivial (h);

    auto describe = [&] (const V& got, const V& want, ExcKind k) {
        return Obj ().raw ("v", jarr_hex (&v[0], N)).raw ("v_value", jarr (&v[0], N)).raw ("checked", jarr_hex (&got[0], N)).raw ("unchecked", jarr_hex (&want[0], N)).kv ("exception", exc_name (k)).kv ("class", VCN[cls]).str ();
    };

    // ---- unchecked forms (documented not to throw; guarded all the same)
    V       u_in = v, u_ret, nn_in = v, nn_ret;
    ExcKind ku1 = guarded ([&] { u_in.normalize (); });
    ExcKind ku2 = guarded ([&] { u_ret = v.normalized (); });
    if (ku1 != EX_NONE) c.fail (key ("normalize", tag, "unchecked_threw"), idx, [&] { return describe (u_in, u_in, ku1); });
    if (ku2 != EX_NONE) c.fail (key ("normalized", tag, "unchecked_threw"), idx, [&] { return describe (u_ret, u_ret, ku2); });
    if (!zero)
    {
        // precondition of the NonNull forms: non-null vector
        ExcKind kn1 = guarded ([&] { nn_in.normalizeNonNull (); });
        ExcKind kn2 = guarded ([&] { nn_ret = v.normalizedNonNull (); });
        if (kn1 != EX_NONE) c.fail (key ("normalizeNonNull", tag, "unchecked_threw"), idx, [&] { return describe (nn_in, nn_in, kn1); });
        if (kn2 != EX_NONE) c.fail (key ("normalizedNonNull", tag, "unchecked_threw"), idx, [&] { return describe (nn_ret, nn_ret, kn2); });
    }
    // the unchecked form's failure report: the null vector, handed back unchanged / as V(0)
    bool u1_null = true, u2_null = true;
    for (int i = 0; i < N; ++i) { if (u_in[i] != T (0)) u1_null = false; if (u_ret[i] != T (0)) u2_null = false; }
    bool u1_reports = zero && u1_null, u2_reports = zero && u2_null;
    if (!zero && u2_null) c.cls ("nonzero_input_normalized_to_zero(length_overflow,not_a_failure_report)");

    // ---- checked forms
    V       c_in = v, c_ret;
    for (int i = 0; i < N; ++i) c_ret[i] = T (0);
    ExcKind kc1 = guarded ([&] { c_in.normalizeExc (); });
    ExcKind kc2 = guarded ([&] { c_ret = v.normalizedExc (); });

    struct Pair { const char* fn; ExcKind k; const V* got; const V* unchecked; const V* nonnull; bool reports; const char* ufn; const char* nfn; };
    Pair pairs[2] = {{"normalizeExc", kc1, &c_in, &u_in, &nn_in, u1_reports, "differs_from_normalize", "differs_from_normalizeNonNull"},
                     {"normalizedExc", kc2, &c_ret, &u_ret, &nn_ret, u2_reports, "differs_from_normalized", "differs_from_normalizedNonNull"}};
    for (const Pair& p: pairs)
    {
        if (p.k == EX_NONE)
        {
            c.cls ("checked_returned");
            if (!same_n (&(*p.got)[0], &(*p.unchecked)[0], N)) c.fail (key (p.fn, tag, p.ufn), idx, [&] { return describe (*p.got, *p.unchecked, p.k); });
            if (!zero && !same_n (&(*p.got)[0], &(*p.nonnull)[0], N)) c.fail (key (p.fn, tag, p.nfn), idx, [&] { return describe (*p.got, *p.nonnull, p.k); });
            if (zero || p.reports) c.fail (key (p.fn, tag, "no_throw_on_null_vector"), idx, [&] { return describe (*p.got, *p.unchecked, p.k); });
            if (cls == VC_BENIGN) c.cls ("well_conditioned_no_throw");
        }
        else
        {
            c.cls ("checked_threw");
            if (p.k != EX_DOMAIN) c.fail (key (p.fn, tag, "wrong_exception_type"), idx, [&] { return describe (*p.got, *p.unchecked, p.k); });
            if (!zero) c.fail (key (p.fn, tag, "threw_on_nonnull_vector"), idx, [&] { return describe (*p.got, *p.unchecked, p.k); });
            else if (!p.reports) c.fail (key (p.fn, tag, "threw_but_unchecked_reports_no_failure"), idx, [&] { return describe (*p.got, *p.unchecked, p.k); });
        }
    }
    if (idx < (uint64_t) VC_N) c.sample (VCN[cls], [&] { return describe (c_ret, u_ret, kc2); });
}

#define C07_NORM_SUB(V, NAME)                                                                                                    \
    static void MON_CAT (norm_fn_, __LINE__) (Ctx& c, uint64_t i) { sub_norm<V> (c, i); }                                          \
    MON_SUB_IDX (MON_CAT (norm_fn_, __LINE__), NAME, 1100000, 44000000)                                                           \
        .req ({"zero", "one_denormal", "all_denormal", "tiny_threshold_2min", "tiny_squares_underflow", "huge_squares_overflow", \
               "benign", "checked_threw", "checked_returned", "well_conditioned_no_throw"})                                      \
        .over ("normalizeExc/normalizedExc vs normalize/normalized/normalizeNonNull/normalizedNonNull on 11 vector classes "      \
               "(idx mod 11): signed zeros, one/all subnormal, |v|^2 around 2*min, underflowing and overflowing squares, max, "   \
               "mixed, benign, lattice, any exponent")

C07_NORM_SUB (Vec2<float>, "normalize_V2f");
C07_NORM_SUB (Vec3<float>, "normalize_V3f");
C07_NORM_SUB (Vec4<float>, "normalize_V4f");
C07_NORM_SUB (Vec2<double>, "normalize_V2d");
C07_NORM_SUB (Vec3<double>, "normalize_V3d");
C07_NORM_SUB (Vec4<double>, "normalize_V4d");

// ===================================================================== Vec3 (Vec4 [, INF_EXCEPTION])
enum { WC_ZERO = 0, WC_DENORM, WC_LT1, WC_NEAR1, WC_GE1, WC_N };
enum { NC_AROUND = 0, NC_BENIGN, NC_ZERO, NC_HUGE, NC_DENORM, NC_ANY, NC_N };
static const char* const WCN[WC_N] = {"w_zero", "w_denormal", "w_lt1", "w_near1", "w_ge1"};
static const char* const NCN[NC_N] = {"num_around_max_times_w", "num_benign", "num_zero", "num_huge", "num_denormal", "num_any"};

template <class T>
static void
sub_v3v4 (Ctx& c, uint64_t idx)
{
    const std::string tag = FT<T>::tag ();
    Rng               r   = c.rng (idx);
    int               cls = (int) (idx % (WC_N * NC_N));
    int               wc = cls % WC_N, nc = cls / WC_N;
    T                 w = 0;
    switch (wc)
    {
        case WC_ZERO: w = signed_zero<T> (r); break;
        case WC_DENORM: w = subnormal<T> (r, r.one_in (3)); break;
        case WC_LT1: w = r.coin () ? lscale<T> (r, FT<T>::EMIN + FT<T>::MANT, -1) : (T) r.sym (1.0); break;
        case WC_NEAR1: w = step (T (1), (int) r.range (-3, 3)); if (r.coin ()) w = -w; break;
        default: w = r.coin () ? lscale<T> (r, 0, 40) : lscale<T> (r, 0, FT<T>::EMAX - 1); break;
    }
    T aw = w < 0 ? -w : w;
    T m  = tmax<T> () * aw; // may be inf (|w| > 1) or 0 (w == 0): then the neighbours below are max / denormals
    if (!std::isfinite (m)) m = tmax<T> ();
    T v[3];
    for (int i = 0; i < 3; ++i)
    {
        switch (nc)
        {
            case NC_AROUND: v[i] = (T) (r.sym (1.0) * (double) (m < T (1e30) ? m : T (1e30))); break; // safely inside
            case NC_BENIGN: v[i] = benign<T> (r); break;
            case NC_ZERO: v[i] = signed_zero<T> (r); break;
            case NC_HUGE: v[i] = r.coin () ? lscale<T> (r, FT<T>::EMAX - 3, FT<T>::EMAX - 1) : (r.coin () ? tmax<T> () : -tmax<T> ()); break;
            case NC_DENORM: v[i] = subnormal<T> (r, r.coin ()); break;
            default: v[i] = anyfinite<T> (r); break;
        }
    }
    if (nc == NC_AROUND)
    {
        // one or more components within a few representable values of the guard value max*|w|
        int n = (int) r.range (1, 3);
        for (int k = 0; k < n; ++k)
        {
            T b = step (m, (int) r.range (-2, 2));
            v[(int) r.range (0, 2)] = r.coin () ? b : -b;
        }
    }
    c.eval ();
    c.cls (WCN[wc]);
    c.cls (NCN[nc]);
    uint64_t h = hbits (0, w);
    for (int i = 0; i < 3; ++i) h = hbits (h, v[i]);
    c.nontrivial (h);

    Vec4<T> v4 (v[0], v[1], v[2], w);
    Vec3<T> u (T (0)), g (T (0));
    ExcKind ku = guarded ([&] { u = Vec3<T> (v4); });
    ExcKind kc = guarded ([&] { g = Vec3<T> (v4, INF_EXCEPTION); });

    // exact quotients
    f128 qmax = 0;
    bool undefined = (w == T (0));
    if (!undefined)
        for (int i = 0; i < 3; ++i)
        {
            f128 q = abs128 ((f128) v[i] / (f128) w);
            if (q > qmax) qmax = q;
        }
    const f128 lim = (f128) tmax<T> () / 4;
    auto describe = [&] {
        return Obj ().raw ("xyz", jarr_hex (v, 3)).kv ("w", FT<T>::hex (w)).raw ("xyz_value", jarr (v, 3)).kv ("w_value", (double) w).raw ("checked", jarr_hex (&g[0], 3)).raw ("unchecked", jarr_hex (&u[0], 3)).kv ("exception", exc_name (kc)).kv ("exact_max_quotient_over_max", undefined ? INFINITY : to_d (qmax / (f128) tmax<T> ())).str ();
    };
    if (ku != EX_NONE) c.fail (key ("Vec3fromVec4", tag, "unchecked_threw"), idx, describe);
    if (kc == EX_NONE)
    {
        c.cls ("checked_returned");
        int slot = 0;
        if (ku == EX_NONE && !same_n (&g[0], &u[0], 3, &slot)) c.fail (key ("Vec3fromVec4Exc", tag, "differs_from_unchecked"), idx, describe);
        // documented: "Throws an exception if w is zero or if division by w would overflow"
        if (!all_finite (&g[0], 3)) c.fail (key ("Vec3fromVec4Exc", tag, "returned_nonfinite"), idx, describe);
        if (!undefined && qmax < lim / 4) c.cls ("well_conditioned_no_throw");
        if (!undefined && qmax >= lim) c.cls ("returned_with_quotient_in_[max/4,max]");
    }
    else
    {
        c.cls ("checked_threw");
        if (kc != EX_DOMAIN) c.fail (key ("Vec3fromVec4Exc", tag, "wrong_exception_type"), idx, describe);
        // guard tightness: the exact quotient is within a factor four of max (or w == 0)
        if (!undefined && qmax < lim) c.fail (key ("Vec3fromVec4Exc", tag, "guard_fired_early"), idx, describe);
        // the unchecked form's "failure": a non-finite or huge component
        if (undefined) c.cls ("threw_w_zero");
        else { c.cls ("threw_overflow_guard"); c.worst ((std::string ("Vec3fromVec4Exc.") + tag + ".(max/4)/exact_quotient_when_fired").c_str (), (double) (lim / qmax), idx); }
    }
    if (idx < (uint64_t) (WC_N * NC_N)) c.sample ((std::string (WCN[wc]) + "/" + NCN[nc]).c_str (), describe);
}

static void v3v4_f (Ctx& c, uint64_t i) { sub_v3v4<float> (c, i); }
static void v3v4_d (Ctx& c, uint64_t i) { sub_v3v4<double> (c, i); }
#define C07_V3V4_REQ                                                                                                                      \
    .req ({"w_zero", "w_denormal", "w_lt1", "w_near1", "w_ge1", "num_around_max_times_w", "num_benign", "num_huge", "checked_threw",      \
           "checked_returned", "threw_w_zero", "threw_overflow_guard", "well_conditioned_no_throw", "returned_with_quotient_in_[max/4,max]"}) \
        .over ("Vec3(Vec4<T>) vs Vec3(Vec4<T>,INF_EXCEPTION): w in {+-0, subnormal, <1, 1+-3ulp, >=1} x numerators {max*|w| +-2 ulp, "    \
               "benign, zero, huge, subnormal, any exponent} (idx mod 30)")
MON_SUB_IDX (v3v4_f, "Vec3fromVec4_f", 1500000, 60000000) C07_V3V4_REQ;
MON_SUB_IDX (v3v4_d, "Vec3fromVec4_d", 1500000, 60000000) C07_V3V4_REQ;

MON_MAIN ("c07_variants")
