# C19: PyImath arrays vs Python sequence models, read-only protection, view lifetimes, buffer protocol.
# Quick tier: every workload under the ASan+UBSan build of PyImath.  Thorough: larger scopes under ASan plus the
# plain (-O2) build, where the value oracles run an order of magnitude more random sequences.
from common import *
import pyprops, pybuild

WORKLOADS = [
    # script, parts, required classes
    ("c19_index.py", 8, ["int_index_out_of_range", "int_index_negative", "slice_negative_step", "slice_empty", "setitem_vector_wrong_length",
                         "mask_mixed", "mask_wrong_length", "readonly_write_attempt", "readonly_elem_mutation", "conversion_pairs"]),
    ("c19_seq.py", 8, ["maskedref_created", "alias_created", "made_readonly", "write_on_readonly", "elemref_write_through", "released",
                       "inplace_masked", "inplace_on_readonly_masked", "inplace_on_readonly_direct", "length_mismatch"]),
    ("c19_nd.py", 8, ["2d_index_out_of_range", "2d_wrong_shape_source", "2d_malformed_index", "2d_malformed_index_array_source", "2d_mask",
                      "matrix_row_out_of_range", "matrix_wrong_shape_source", "varray_item_out_of_range", "varray_mask", "varray_readonly_write_attempt", "varray_row_source_strided", "varray_row_source_masked"]),
    ("c19_life.py", 8, ["release_orders"]),
    ("c19_buffer.py", 6, ["exported", "readonly_writable_request", "import_matching", "import_mismatching", "import_bytes", "strings_distinct", "strided_export"]),
]


def setup():
    pybuild.py_build("asan")


def run_property(pid, tier, seed, result):
    cfgs = ["asan"] if tier == "quick" else ["asan", "ref"]
    if os.environ.get("VERIF_CONFIGS"):
        cfgs = [c for c in os.environ["VERIF_CONFIGS"].split(",") if c in ("asan", "ref", "tsan")] or cfgs[:1]   # development override
    for cfg in cfgs:
        for script, parts, req in WORKLOADS:
            t = tier
            classes, extra = pyprops.run_workload(result, cfg, script, t, seed, parts=parts, timeout=7200 if tier == "thorough" else 2400)
            pyprops.require_classes(result, "%s[%s]" % (script, cfg), classes, req)
    result["extra"]["sanitizer_note"] = ("PyImath built with gcc -fsanitize=address,undefined (vptr check off, see lib/pybuild.py) and loaded into the stock "
                                         "CPython 3.11 with LD_PRELOAD=libasan.so+libstdc++.so, PYTHONMALLOC=malloc; a report aborts the child process and is "
                                         "attributed to the scenario announced last")


def replay(pid, rec):
    d = rec.get("detail") or {}
    scen = d.get("scenario")
    script = d.get("script")
    if not scen or not script:
        print("replay: record has no scenario/script")
        return 2
    return pyprops.replay_scenario(rec.get("config") or "asan", script, d.get("tier", rec.get("tier", "quick")), d.get("seed", rec.get("seed", 1)), scen)
