# Verdict / evidence logic shared by every property (DESIGN.md 2.3-2.5).
import json, os, re, sys, time, importlib
from common import *
import props


def run_monitor_binary(binp, tier, seed, out, scale=1.0, only=None, timeout=7200, threads=None, env=None):
    cmd = [binp, "--tier", tier, "--seed", str(seed), "--out", out, "--threads", str(threads or NCPU)]
    if scale != 1.0:
        cmd += ["--scale", repr(scale)]
    if only:
        cmd += ["--only", only]
    if os.path.exists(out):
        os.unlink(out)
    e = {"ASAN_OPTIONS": "detect_leaks=0:abort_on_error=0:exitcode=77:detect_stack_use_after_return=1",
         "UBSAN_OPTIONS": "print_stacktrace=1:halt_on_error=1:exitcode=77",
         "TSAN_OPTIONS": "halt_on_error=1:exitcode=77"}
    if env:
        e.update(env)
    rc, o, err, to = run(cmd, timeout=timeout, env=e)
    return rc, o, err, to, cmd


SAN_RE = re.compile(r"(runtime error: [^\n]*|ERROR: AddressSanitizer: [^\n]*|WARNING: ThreadSanitizer: [^\n]*|SUMMARY: [^\n]*)")


def sanitizer_kind(err):
    """short, input-independent classification of a sanitizer report"""
    m = re.search(r"ERROR: AddressSanitizer: ([\w-]+)", err)
    if m:
        return "asan-" + m.group(1)
    m = re.search(r"WARNING: ThreadSanitizer: ([\w -]+?) \(", err)
    if m:
        return "tsan-" + m.group(1).replace(" ", "-")
    m = re.search(r"([\w./-]+):(\d+):\d+: runtime error: ([^\n]*)", err)
    if m:
        what = m.group(3)
        what = re.sub(r"-?\d[\d.e+x-]*", "N", what)[:60].strip().replace(" ", "_")
        return "ubsan-%s:%s:%s" % (os.path.basename(m.group(1)), m.group(2), what)
    return None


def monitor_step(pid, mon, tier, seed, result):
    """Build and run one monitor program under each of its configurations; fold
    its JSON into `result` (dict with subs, violations, sanitizer, ...)."""
    outdir = os.path.join(BUILD, "out")
    os.makedirs(outdir, exist_ok=True)
    cfgs = mon.get("configs", ["ref", "asan"])
    if os.environ.get("VERIF_CONFIGS"):
        cfgs = [c for c in cfgs if c in os.environ["VERIF_CONFIGS"].split(",")]
    for cfg in cfgs:
        binp = compile_monitor(mon["name"], mon["srcs"], cfg, extra_link=mon.get("link", ()))
        scale = 1.0
        if cfg != "ref":
            scale = mon.get("san_scale_thorough" if tier == "thorough" else "san_scale", 0.05)
        out = os.path.join(outdir, "%s-%s-%s.json" % (mon["name"], cfg, tier))
        budget = mon.get("timeout_thorough" if tier == "thorough" else "timeout", 14400 if tier == "thorough" else 3600)
        for attempt in (1, 2):
            rc, o, err, to, cmd = run_monitor_binary(binp, tier, seed, out, scale=scale, timeout=budget, env=mon.get("env"))
            if not to:
                break
            log("  watchdog fired for %s [%s] (attempt %d)" % (mon["name"], cfg, attempt))
        if to:
            raise Inconclusive("watchdog fired twice for monitor %s [%s]" % (mon["name"], cfg))
        if rc != 0 or not os.path.exists(out):
            # crash or sanitizer report: attribute it to a sub-check by re-running each alone
            attributed = False
            rc2, lst, _, _ = run([binp, "--list"], timeout=60)
            subs = [l.split()[0] for l in lst.splitlines() if l.strip()]
            for sname in subs:
                so = out + "." + safe_name(sname)
                rcs, os_, errs, tos, cmds = run_monitor_binary(binp, tier, seed, so, scale=scale, only=sname, timeout=budget, env=mon.get("env"))
                if tos:
                    raise Inconclusive("watchdog fired while attributing a crash of %s [%s] sub %s" % (mon["name"], cfg, sname))
                if rcs != 0 or not os.path.exists(so):
                    kind = sanitizer_kind(errs) or ("exit%d" % rcs)
                    result["violations"].append(dict(
                        key="crash:%s:%s:%s" % (cfg, sname, kind), sub=sname, idx=-1, count=1, config=cfg, monitor=mon["name"],
                        detail=dict(stderr_tail=errs[-4000:], cmd=" ".join(cmds), rc=rcs)))
                    result["sanitizer"].setdefault(cfg, dict(cases=0, reports=0))["reports"] += 1
                    attributed = True
                else:
                    fold(json.load(open(so)), cfg, mon, result)
            if not attributed:
                kind = sanitizer_kind(err) or ("exit%d" % rc)
                result["violations"].append(dict(
                    key="crash:%s:%s:%s" % (cfg, mon["name"], kind), sub="*", idx=-1, count=1, config=cfg, monitor=mon["name"],
                    detail=dict(stderr_tail=err[-4000:], cmd=" ".join(cmd), rc=rc, note="crash not reproduced per sub-check")))
            continue
        fold(json.load(open(out)), cfg, mon, result)


def fold(doc, cfg, mon, result):
    if doc.get("inconclusive"):
        miss = [(s["name"], s["missing_classes"]) for s in doc["subs"] if s["missing_classes"] or s["evaluations"] == 0]
        result["inconclusive"].append("%s[%s]: declared input classes never observed: %s" % (mon["name"], cfg, miss))
    result["evaluations"] += doc["evaluations"]
    if cfg == "ref":
        result["distinct_nontrivial"] += doc["distinct_nontrivial"]
    else:
        s = result["sanitizer"].setdefault(cfg, dict(cases=0, reports=0))
        s["cases"] += doc["evaluations"]
    for s in doc["subs"]:
        s = dict(s)
        s["config"] = cfg
        s["monitor"] = mon["name"]
        result["subs"].append(s)
    for v in doc["violations"]:
        v = dict(v)
        v["config"] = cfg
        v["monitor"] = mon["name"]
        result["violations"].append(v)
    result["wall_by_run"]["%s[%s]" % (mon["name"], cfg)] = doc["wall_s"]


def new_result():
    return dict(evaluations=0, distinct_nontrivial=0, subs=[], violations=[], sanitizer={}, inconclusive=[],
                wall_by_run={}, extra={})


def write_evidence(pid, tier, seed, result, wall, nviol, known_hit):
    p = props.PROPS[pid]
    os.makedirs(EVID, exist_ok=True)
    samples = []
    classes = {}
    worst = {}
    exhaustive_subs = []
    sub_summ = []
    for s in result["subs"]:
        tag = s["name"] if s["config"] == "ref" else "%s[%s]" % (s["name"], s["config"])
        if s["config"] == "ref" or s.get("always_report"):
            for smp in s.get("samples", [])[:3]:
                if len(samples) < 40:
                    samples.append(dict(sub=s["name"], **smp))
            for k, v in s.get("classes", {}).items():
                classes[s["name"] + ":" + k] = v
            for k, v in s.get("worst", {}).items():
                worst[s["name"] + ":" + k] = v
            if s.get("exhaustive"):
                exhaustive_subs.append(dict(sub=s["name"], space=s.get("space", ""), cases=s["evaluations"]))
        sub_summ.append(dict(sub=tag, evaluations=s["evaluations"], distinct_nontrivial=s.get("distinct_nontrivial", 0),
                             exhaustive=bool(s.get("exhaustive")), wall_s=round(s.get("wall_s", 0), 2)))
    if not samples:
        samples = [dict(note="no sample recorded")]
    judged = [s for s in result["subs"] if s["config"] == "ref" or s.get("always_report")]
    all_exh = bool(judged) and all(s.get("exhaustive") for s in judged)
    cov = dict(
        evaluations=int(result["evaluations"]),
        distinct_nontrivial=int(result["distinct_nontrivial"]),
        rule=p["rule"],
        samples=samples,
        exhaustive=all_exh,
        exhaustive_subchecks=exhaustive_subs,
        subchecks=sub_summ,
        classes=classes,
        worst=worst,
        sanitizer=result["sanitizer"],
        known_findings_observed=known_hit,
        inconclusive=result["inconclusive"],
    )
    cov.update(result.get("extra", {}))
    ev = dict(property_id=pid, tier=tier, seed=int(seed), level="exploration", coverage=cov,
              assumptions=p.get("assumptions", []), wall_s=round(wall, 2), violations=int(nviol))
    path = os.path.join(EVID, pid + ".json")
    tmp = path + ".tmp"
    with open(tmp, "w") as f:
        json.dump(ev, f, indent=1, sort_keys=False)
        f.write("\n")
    os.replace(tmp, path)
    return path


def run_property(pid, tier, seed):
    """returns exit code"""
    t0 = time.time()
    p = props.PROPS[pid]
    result = new_result()
    try:
        for mon in p.get("monitors", []):
            monitor_step(pid, mon, tier, seed, result)
        if p.get("custom"):
            mod = importlib.import_module(p["custom"])
            mod.run_property(pid, tier, seed, result)
    except Inconclusive as ex:
        print("INCONCLUSIVE property=%s: %s" % (pid, ex))
        return 2

    known = load_known()
    os.makedirs(REPLAY, exist_ok=True)
    known_hit = []
    new = []
    seen_keys = set()
    for v in result["violations"]:
        key = v["key"]
        if key in seen_keys:
            continue
        seen_keys.add(key)
        k = match_known(pid, key, known)
        if k:
            known_hit.append(dict(key=key, what=k["what"], count=v.get("count", 1)))
            print("KNOWN-FINDING: property=%s %s [key=%s, %d case(s) this run]" % (pid, k["what"], key, v.get("count", 1)))
            continue
        rp = os.path.join(REPLAY, "%s-%s-%s.json" % (pid, safe_name(key), seed))
        with open(rp, "w") as f:
            json.dump(dict(property=pid, monitor=v.get("monitor"), config=v.get("config"), sub=v.get("sub"), idx=v.get("idx"),
                           seed=int(seed), tier=tier, key=key, count=v.get("count", 1), detail=v.get("detail")), f, indent=1)
        new.append((key, rp, v))
    wall = time.time() - t0
    try:
        write_evidence(pid, tier, seed, result, wall, len(new), known_hit)
    except Exception as ex:
        print("INCONCLUSIVE property=%s: evidence could not be written: %r" % (pid, ex))
        return 2
    for key, rp, v in new:
        print("VIOLATION property=%s replay=%s" % (pid, rp))
        print("  key=%s config=%s count=%s detail=%s" % (key, v.get("config"), v.get("count"), json.dumps(v.get("detail"))[:600]))
    if new:
        return 1
    if result["inconclusive"]:
        for m in result["inconclusive"]:
            print("INCONCLUSIVE property=%s: %s" % (pid, m))
        return 2
    print("HELD property=%s tier=%s seed=%s evaluations=%d distinct_nontrivial=%d known_findings=%d wall=%.1fs" % (
        pid, tier, seed, result["evaluations"], result["distinct_nontrivial"], len(known_hit), wall))
    return 0


def replay(pid, path):
    r = json.load(open(path))
    p = props.PROPS[pid]
    if r.get("idx", -1) is None or r.get("idx", -1) < 0 or not r.get("monitor"):
        print("replay: this witness is a crash / scenario record; command and output tail follow")
        print(json.dumps(r.get("detail"), indent=1))
        if p.get("custom"):
            mod = importlib.import_module(p["custom"])
            if hasattr(mod, "replay"):
                return mod.replay(pid, r)
        return 1
    mon = [m for m in p["monitors"] if m["name"] == r["monitor"]]
    if not mon:
        print("replay: unknown monitor", r["monitor"])
        return 2
    cfg = r.get("config") or "ref"
    binp = compile_monitor(mon[0]["name"], mon[0]["srcs"], cfg, extra_link=mon[0].get("link", ()))
    rc, o, e, to = run([binp, "--tier", r["tier"], "--seed", str(r["seed"]), "--replay", r["sub"], str(r["idx"])], timeout=600)
    sys.stdout.write(o)
    sys.stderr.write(e)
    return 1 if rc == 1 else (0 if rc == 0 else 2)
