# Shared helpers for the /verif driver: paths, subprocesses, builds of /repo.
import hashlib, json, os, shutil, subprocess, sys, time, glob, fnmatch

VERIF = os.path.dirname(os.path.dirname(os.path.abspath(__file__)))
REPO = os.environ.get("VERIF_REPO", "/repo")
# VERIF_BUILD / VERIF_EVID / VERIF_REPLAY / VERIF_REPO exist for the mutation self-test, which points the
# same machinery at a scratch copy of the repository without touching the registered evidence
BUILD = os.environ.get("VERIF_BUILD") or os.path.join(VERIF, "build")
EVID = os.environ.get("VERIF_EVID") or os.path.join(VERIF, "evidence")
REPLAY = os.environ.get("VERIF_REPLAY") or os.path.join(VERIF, "replay")
MON = os.path.join(VERIF, "mon")
GUARD = "IMATH_VERIF_HOOKS"
NCPU = os.cpu_count() or 4
PY = "/usr/bin/python3"

CXX = os.environ.get("VERIF_CXX", "g++")
CC = os.environ.get("VERIF_CC", "gcc")

# build configurations of the C++ core (DESIGN.md 2.2)
CONFIGS = {
    "ref": "-O2 -g1 -DNDEBUG",
    "asan": "-O1 -g1 -fno-omit-frame-pointer -fsanitize=address,undefined -fno-sanitize-recover=undefined",
    "tsan": "-O1 -g1 -fsanitize=thread",
}


class Inconclusive(Exception):
    """harness failure / nothing decided: exit 2"""


def log(*a):
    print(*a, file=sys.stderr, flush=True)


def run(cmd, timeout=None, env=None, cwd=None, capture=True):
    """run a command; returns (rc, stdout, stderr, timed_out)"""
    e = dict(os.environ)
    if env:
        e.update(env)
    try:
        p = subprocess.run(cmd, cwd=cwd, env=e, timeout=timeout,
                           stdout=subprocess.PIPE if capture else None,
                           stderr=subprocess.PIPE if capture else None)
        return p.returncode, (p.stdout or b"").decode("utf-8", "replace"), (p.stderr or b"").decode("utf-8", "replace"), False
    except subprocess.TimeoutExpired as ex:
        return -999, (ex.stdout or b"").decode("utf-8", "replace"), (ex.stderr or b"").decode("utf-8", "replace"), True


def sha_files(paths, extra=""):
    h = hashlib.sha256()
    h.update(extra.encode())
    for p in sorted(paths):
        h.update(p.encode())
        try:
            with open(p, "rb") as f:
                h.update(f.read())
        except OSError:
            h.update(b"<missing>")
    return h.hexdigest()


def repo_core_files():
    out = []
    for d in ("src/Imath", "config"):
        for root, _, files in os.walk(os.path.join(REPO, d)):
            for f in files:
                out.append(os.path.join(root, f))
    out.append(os.path.join(REPO, "CMakeLists.txt"))
    return out


def repo_py_files():
    out = []
    for root, _, files in os.walk(os.path.join(REPO, "src/python")):
        for f in files:
            out.append(os.path.join(root, f))
    return out


_core_done = {}


def core_build(cfg):
    """Configure+build libImath from /repo's working tree in build/core-<cfg>.
    Returns dict(dir, lib, incs).  Ninja makes this a no-op when nothing changed."""
    if cfg in _core_done:
        return _core_done[cfg]
    import fcntl
    os.makedirs(BUILD, exist_ok=True)
    with open(os.path.join(BUILD, ".core-%s.lock" % cfg), "w") as lf:
        fcntl.flock(lf, fcntl.LOCK_EX)      # several ./check processes may share one build tree
        try:
            return _core_build_locked(cfg)
        finally:
            fcntl.flock(lf, fcntl.LOCK_UN)


def _core_build_locked(cfg):
    flags = CONFIGS[cfg] + " -D" + GUARD
    d = os.path.join(BUILD, "core-" + cfg)
    os.makedirs(d, exist_ok=True)
    if not os.path.exists(os.path.join(d, "build.ninja")):
        rc, o, e, _ = run(["cmake", "-G", "Ninja", "-S", REPO, "-B", d,
                           "-DCMAKE_BUILD_TYPE=None", "-DBUILD_SHARED_LIBS=OFF", "-DBUILD_TESTING=OFF",
                           "-DCMAKE_CXX_FLAGS=" + flags, "-DCMAKE_C_FLAGS=" + flags,
                           "-DCMAKE_CXX_COMPILER=" + CXX, "-DCMAKE_C_COMPILER=" + CC], timeout=600)
        if rc != 0:
            shutil.rmtree(d, ignore_errors=True)
            raise Inconclusive("cmake configure failed for core-%s:\n%s\n%s" % (cfg, o[-3000:], e[-3000:]))
    rc, o, e, _ = run(["cmake", "--build", d, "--target", "Imath", "-j", str(NCPU)], timeout=1800)
    if rc != 0:
        raise Inconclusive("build of libImath failed for core-%s:\n%s\n%s" % (cfg, o[-4000:], e[-3000:]))
    libs = glob.glob(os.path.join(d, "src/Imath/libImath*.a"))
    if not libs:
        raise Inconclusive("libImath static library not found in " + d)
    res = dict(dir=d, lib=libs[0], incs=[os.path.join(REPO, "src/Imath"), os.path.join(d, "config")], flags=flags)
    _core_done[cfg] = res
    return res


def compile_monitor(name, srcs, cfg, extra_link=(), std="gnu++17"):
    """srcs: list of (path relative to mon/, extra flags string).  Returns path of binary.
    Recompiles iff the hash of (all repo core files, sources, common headers, flags) changed."""
    core = core_build(cfg)
    outdir = os.path.join(BUILD, "mon", cfg)
    os.makedirs(outdir, exist_ok=True)
    binp = os.path.join(outdir, name)
    common = glob.glob(os.path.join(MON, "common", "*"))
    srcpaths = [os.path.join(MON, s) for s, _ in srcs]
    # directory-local headers next to the sources
    # (only those sharing the monitor's cNN prefix, or living in the monitor's own sub-directory)
    local = []
    for sp in srcpaths:
        d = os.path.dirname(sp)
        pref = os.path.basename(sp)[:3] if d == MON else ""
        local += glob.glob(os.path.join(d, pref + "*.h")) + glob.glob(os.path.join(d, pref + "*.inc"))
    stamp = sha_files(repo_core_files() + common + srcpaths + local + [os.path.join(core["dir"], "config", "ImathConfig.h")],
                      extra=json.dumps([core["flags"], srcs, list(extra_link), std, CXX]))
    stampf = binp + ".stamp"
    if os.path.exists(binp) and os.path.exists(stampf) and open(stampf).read() == stamp:
        return binp
    t0 = time.time()
    incs = []
    for i in core["incs"] + [os.path.join(MON, "common")]:
        incs += ["-I", i]
    objs = []
    procs = []
    for k, ((s, xf), sp) in enumerate(zip(srcs, srcpaths)):
        o = os.path.join(outdir, "%s.%d.%s.o" % (name, k, os.path.basename(s)))
        objs.append(o)
        is_c = s.endswith(".c")
        tu_std = [] if (is_c or "-std=" in xf) else ["-std=" + std]
        cmd = [CC if is_c else CXX] + tu_std + core["flags"].split() + xf.split() + incs + ["-c", sp, "-o", o]
        procs.append((s, subprocess.Popen(cmd, stdout=subprocess.PIPE, stderr=subprocess.STDOUT)))
    for s, p in procs:
        out, _ = p.communicate()
        if p.returncode != 0:
            raise Inconclusive("compiling monitor %s (%s, %s) failed:\n%s" % (name, s, cfg, out.decode("utf-8", "replace")[-6000:]))
    cmd = [CXX] + core["flags"].split() + objs + [core["lib"]] + list(extra_link) + ["-lquadmath", "-lpthread", "-o", binp]
    rc, o, e, _ = run(cmd, timeout=1800)
    if rc != 0:
        raise Inconclusive("linking monitor %s (%s) failed:\n%s%s" % (name, cfg, o[-3000:], e[-3000:]))
    with open(stampf, "w") as f:
        f.write(stamp)
    log("  built %s [%s] in %.1fs" % (name, cfg, time.time() - t0))
    return binp


def load_known():
    p = os.path.join(VERIF, "known_findings.json")
    if not os.path.exists(p):
        return []
    with open(p) as f:
        return json.load(f)["findings"]


def match_known(prop, key, known):
    """return the matching *known* (not fixed) entry or None"""
    for k in known:
        if k.get("property") == prop and k.get("status") == "known" and fnmatch.fnmatchcase(key, k["key"]):
            return k
    return None


def safe_name(s):
    return "".join(c if c.isalnum() or c in "-_." else "_" for c in s)[:120]
