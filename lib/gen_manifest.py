#!/usr/bin/python3
# Regenerates MANIFEST.json from lib/props.py (run by hand after registering a property).
import json, os, sys
sys.path.insert(0, os.path.dirname(os.path.abspath(__file__)))
import props
from common import VERIF

ALL = ["C%02d" % i for i in range(1, 21)]
# lib/enabled.txt lists the properties whose checks are finished (validated on several seeds and by mutations);
# fragments of monitors still under construction are ignored here.
ENABLED = [l.strip() for l in open(os.path.join(VERIF, "lib", "enabled.txt")) if l.strip() and not l.startswith("#")]
checks = []
for pid in sorted(props.PROPS):
    if pid not in ENABLED:
        continue
    p = props.PROPS[pid]
    checks.append(dict(
        property_id=pid,
        quick_cmd="./check %s --tier quick" % pid,
        thorough_cmd="./check %s --tier thorough" % pid,
        evidence_file="evidence/%s.json" % pid,
        replay_cmd_template="./check %s --replay {path}" % pid,
        engine="imath-runtime-monitors",
        level_claimed=dict(category="exploration", text=p["level_text"], design_ref=p.get("design_ref", "DESIGN.md section 4, " + pid)),
        level_note=p["level_note"],
        technique=p["technique"],
    ))
na = [dict(property_id=i, reason=props.NOT_YET.get(i, "monitor not built yet in this revision of /verif (planned, see DESIGN.md section 4)"))
      for i in ALL if i not in ENABLED]
m = dict(
    version=1,
    setup_cmd="./check --setup",
    hooks=dict(guard="IMATH_VERIF_HOOKS",
               enable="checks pass -DIMATH_VERIF_HOOKS in CMAKE_C/CXX_FLAGS of their own build trees under /verif/build (no source hook is needed so far: every property is observed at the public API)",
               baseline_off_cmd="cmake -G Ninja -S /repo -B /repo/_build && cmake --build /repo/_build -j16 && ctest --test-dir /repo/_build -j8 --timeout 900",
               source_commits=props.HOOK_COMMITS, add_only=True),
    engines=[dict(name="imath-runtime-monitors", path="check",
                  serves_properties=sorted(ENABLED),
                  kind_free_text="runtime monitors: generated/exhaustive workloads executed on the real code built from /repo, each case judged by an independent oracle; gcc ASan+UBSan (and TSan for C20) builds of the same workloads; python driver turns monitor logs into verdicts, replay files and evidence")],
    checks=checks,
    notes="See DESIGN.md. known_findings.json lists genuine defects (known / fixed). Exit 2 = inconclusive (build failure, watchdog, declared input class never observed).",
    not_applicable=na,
)
with open(os.path.join(VERIF, "MANIFEST.json"), "w") as f:
    json.dump(m, f, indent=1)
    f.write("\n")
print("MANIFEST.json:", len(checks), "checks,", len(na), "not claimed")
