# C20: vectorised PyImath operations vs scalar bindings, independent of the task partition / order / threads.
from common import *
import pyprops, pybuild

REQ = ["entry_calls", "inplace_entry_calls", "masked_argument_calls", "o2_elements_compared", "o3_length_mismatch_calls", "entries_dispatched_through_pool",
       "pool_dispatches", "pool_empty_ranges", "pool_single_elem_ranges", "pool_one_range", "pool_elementwise", "pool_reversed", "pool_threaded_dispatches",
       "pool_concurrent_overlaps", "pool_installed_with_1_worker", "o3_unmasked_length_with_masked_argument", "o3_shorter"]


def cref_build():
    """py/c20_cref.cpp: the C++ side of the 'scalar bindings return what the C++ library returns' comparison (plain -O2 build)"""
    core = core_build("ref")
    outdir = os.path.join(BUILD, "out")
    os.makedirs(outdir, exist_ok=True)
    exe = os.path.join(outdir, "c20_cref")
    src = os.path.join(VERIF, "py", "c20_cref.cpp")
    stamp = sha_files(repo_core_files() + [src], extra=core["flags"])
    sf = exe + ".stamp"
    if os.path.exists(exe) and os.path.exists(sf) and open(sf).read() == stamp:
        return exe
    cmd = [CXX, "-std=gnu++17", "-O2", "-g1"] + sum((["-I", i] for i in core["incs"]), []) + [src, core["lib"], "-o", exe]
    rc, o, e, _ = run(cmd, timeout=900)
    if rc != 0:
        raise Inconclusive("building c20_cref failed:\n" + e[-3000:])
    open(sf, "w").write(stamp)
    return exe


def setup():
    pybuild.vpool_build("asan")
    cref_build()


def _tsan_filter(block):
    """a ThreadSanitizer report counts when at least one of its stacks is inside PyImath / Imath code run by a task"""
    return ("PyImath" in block or "Imath_3" in block) and "vpool.cpp" in block


def run_property(pid, tier, seed, result):
    cfgs = ["asan"] if tier == "quick" else ["asan", "ref", "tsan"]
    if os.environ.get("VERIF_CONFIGS"):
        cfgs = [c for c in os.environ["VERIF_CONFIGS"].split(",") if c in ("asan", "ref", "tsan")] or cfgs[:1]   # development override
    for cfg in cfgs:
        vp = pybuild.vpool_build(cfg)
        env = {"PYTHONPATH": vp}
        t = tier
        if cfg == "tsan":
            # real threads only; the quick-sized workload is enough to drive every dispatching entry point under TSan
            env["C20_MODES"] = "thr,thrd"
            t = "quick"
        classes, extra = pyprops.run_workload(result, cfg, "c20_vec.py", t, seed, parts=16 if t == "quick" else 48, timeout=10800 if tier == "thorough" else 3000, extra_env=env,
                                              tsan_filter=_tsan_filter)
        if cfg != "tsan":
            pyprops.require_classes(result, "c20_vec.py[%s]" % cfg, classes, REQ)
        else:
            pyprops.require_classes(result, "c20_vec.py[tsan]", classes, ["pool_threaded_dispatches", "pool_concurrent_overlaps"])
        if cfg != "tsan":
            cl2, _ = pyprops.run_workload(result, cfg, "c20_scalar.py", t, seed, parts=4, timeout=3000, extra_env={"C20_CREF": cref_build()})
            pyprops.require_classes(result, "c20_scalar.py[%s]" % cfg, cl2, ["scalar_binding_calls"])
        w = result["extra"].get("workloads", {}).get("c20_vec[%s]" % cfg, {})
        for k in ("partitions_distinct", "orders_distinct"):
            if k in w:
                result["extra"]["%s[%s]" % (k, cfg)] = w[k]
        if "n_entry_points" in w:
            result["extra"]["ops_covered[%s]" % cfg] = w["n_entry_points"]
            result["extra"]["ops_dispatched_through_pool[%s]" % cfg] = w.get("n_dispatched_entry_points", 0)
        if "entry_points" in w:
            w["entry_points"] = dict(list(sorted(w["entry_points"].items()))[:60])
        if "dispatched_entry_points" in w:
            w["dispatched_entry_points"] = w["dispatched_entry_points"][:80]
        if "pool" in w and isinstance(w["pool"], dict):
            result["extra"]["concurrent_overlaps_observed[%s]" % cfg] = w["pool"].get("concurrent_overlaps", 0)


def replay(pid, rec):
    d = rec.get("detail") or {}
    scen = d.get("scenario")
    if not scen:
        print("replay: record has no scenario")
        return 2
    cfg = rec.get("config") or "asan"
    vp = pybuild.vpool_build(cfg)
    os.environ["PYTHONPATH"] = vp + (":" + os.environ["PYTHONPATH"] if os.environ.get("PYTHONPATH") else "")
    b = pybuild.py_build(cfg)
    b["env"]["PYTHONPATH"] = vp + ":" + b["env"]["PYTHONPATH"]
    b["env"]["C20_CREF"] = cref_build()
    return pyprops.replay_scenario(cfg, d.get("script") or "c20_vec.py", d.get("tier", "quick"), d.get("seed", 1), scen)
