# Builds of PyImath (Boost.Python bindings) from /repo's working tree, one per sanitizer configuration.
import glob, os
from common import *

PYFLAGS = {
    # -fno-sanitize=vptr: gcc's vptr sanitizer clears the vptr at the end of every destructor, and
    # Boost.Python's instance_dealloc (uninstrumented libboost_python) reads the holder's vptr *after*
    # destroying it (dynamic_cast<void*>) -> SEGV at address -16 on every release of an element
    # reference.  That is Boost's problem, not PyImath's, so the vptr check is left out of this build.
    # -fno-sanitize=alignment: Boost.Python 1.83's make_constructor places the instance holder with
    # holder::allocate(self, offset, size) without an alignment argument, so `new (memory) holder_t` in
    # boost/python/make_constructor.hpp:69 (a header instantiated inside PyImath's translation units) runs on
    # 4-byte aligned storage for some classes: "constructor call on misaligned address ... for type 'struct holder'".
    # Again Boost's code, harmless on x86-64, and nothing the properties speak about.
    "asan": "-O1 -g1 -fno-omit-frame-pointer -fsanitize=address,undefined -fno-sanitize=vptr -fno-sanitize=alignment -fno-sanitize-recover=undefined",
    "tsan": "-O1 -g1 -fsanitize=thread",
    "ref": "-O2 -g1 -DNDEBUG",
}
_done = {}
import threading as _threading
_lock = _threading.Lock()


def gcc_file(name):
    rc, o, e, _ = run([CC, "-print-file-name=" + name])
    return o.strip()


def py_build(cfg):
    """returns dict(dir, moddir, env) with the environment needed to import the freshly built imath module
    into the stock /usr/bin/python3 (sanitizer runtimes preloaded)."""
    # workload threads AND separate processes (parallel parts, developer helpers) ask for the build concurrently:
    # build once - a second 16-job build of the same tree costs ~16 GB of compiler memory
    import fcntl
    os.makedirs(BUILD, exist_ok=True)
    with _lock, open(os.path.join(BUILD, ".py-%s.lock" % cfg), "w") as lf:
        fcntl.flock(lf, fcntl.LOCK_EX)
        try:
            return _py_build_locked(cfg)
        finally:
            fcntl.flock(lf, fcntl.LOCK_UN)


def _py_build_locked(cfg):
    if cfg in _done:
        return _done[cfg]
    d = os.path.join(BUILD, "py-" + cfg)
    flags = PYFLAGS[cfg] + " -D" + GUARD
    os.makedirs(d, exist_ok=True)
    fstamp = os.path.join(d, ".verif-flags")
    if not os.path.exists(os.path.join(d, "build.ninja")) or not os.path.exists(fstamp) or open(fstamp).read() != flags:
        rc, o, e, _ = run(["cmake", "-G", "Ninja", "-S", REPO, "-B", d, "-DPYTHON=ON", "-DBUILD_TESTING=OFF",
                           "-DCMAKE_BUILD_TYPE=None", "-DCMAKE_CXX_FLAGS=" + flags, "-DCMAKE_C_FLAGS=" + flags,
                           "-DCMAKE_CXX_COMPILER=" + CXX, "-DCMAKE_C_COMPILER=" + CC,
                           "-DPython3_EXECUTABLE=" + PY, "-DPython_EXECUTABLE=" + PY,
                           "-DPython3_ROOT_DIR=/usr", "-DPython_ROOT_DIR=/usr",
                           "-DPython3_FIND_STRATEGY=LOCATION", "-DPython_FIND_STRATEGY=LOCATION"], timeout=900)
        if rc != 0:
            import shutil
            shutil.rmtree(d, ignore_errors=True)
            raise Inconclusive("cmake configure of PyImath (%s) failed:\n%s\n%s" % (cfg, o[-3000:], e[-3000:]))
        with open(fstamp, "w") as f:
            f.write(flags)
    rc, o, e, to = run(["cmake", "--build", d, "-j", os.environ.get("VERIF_PYJOBS", str(NCPU))], timeout=7200)
    if rc != 0:
        raise Inconclusive("build of PyImath (%s) failed:\n%s\n%s" % (cfg, o[-6000:], e[-2000:]))
    mods = glob.glob(os.path.join(d, "python3*", "imath*.so"))
    if not mods:
        raise Inconclusive("imath extension module not found under " + d)
    moddir = os.path.dirname(mods[0])
    ld = [os.path.join(d, "src/Imath"), os.path.join(d, "src/python/PyImath")]
    env = {"LD_LIBRARY_PATH": ":".join(ld), "PYTHONPATH": moddir, "PYTHONDONTWRITEBYTECODE": "1", "PYTHONHASHSEED": "0"}
    if cfg == "asan":
        env["LD_PRELOAD"] = gcc_file("libasan.so") + " /usr/lib/x86_64-linux-gnu/libstdc++.so.6"
        env["ASAN_OPTIONS"] = "detect_leaks=0:abort_on_error=1:halt_on_error=1:detect_stack_use_after_return=0"
        env["UBSAN_OPTIONS"] = "print_stacktrace=1:halt_on_error=1"
        env["PYTHONMALLOC"] = "malloc"
    elif cfg == "tsan":
        env["LD_PRELOAD"] = gcc_file("libtsan.so")
        env["TSAN_OPTIONS"] = "halt_on_error=0:report_signal_unsafe=0:history_size=4"
    res = dict(dir=d, moddir=moddir, env=env, flags=flags, ld=ld,
               incs=[os.path.join(REPO, "src/Imath"), os.path.join(d, "config"), os.path.join(REPO, "src/python/PyImath"),
                     os.path.join(d, "src/python/PyImath")])
    _done[cfg] = res
    return res


def vpool_build(cfg):
    """compile py/vpool.cpp (test WorkerPool) against the PyImath library of configuration cfg; returns the directory to add to PYTHONPATH"""
    b = py_build(cfg)
    outd = os.path.join(b["dir"], "vpool")
    os.makedirs(outd, exist_ok=True)
    src = os.path.join(VERIF, "py", "vpool.cpp")
    so = os.path.join(outd, "vpool.so")
    libs = glob.glob(os.path.join(b["dir"], "src/python/PyImath", "libPyImath*.so"))
    if not libs:
        raise Inconclusive("libPyImath not found in " + b["dir"])
    lib = sorted(libs, key=len)[0]
    stamp = sha_files([src, os.path.join(REPO, "src/python/PyImath/PyImathTask.h")], extra=b["flags"] + lib + str(os.path.getmtime(lib)))
    sf = so + ".stamp"
    if os.path.exists(so) and os.path.exists(sf) and open(sf).read() == stamp:
        return outd
    cmd = [CXX, "-std=gnu++17", "-shared", "-fPIC"] + b["flags"].split() + ["-I/usr/include/python3.11", "-I" + os.path.join(REPO, "src/python/PyImath"),
           "-I" + os.path.join(b["dir"], "config"), "-I" + os.path.join(REPO, "src/Imath"), src, "-o", so, lib, "-Wl,-rpath," + os.path.dirname(lib), "-lpthread"]
    rc, o, e, _ = run(cmd, timeout=600)
    if rc != 0:
        raise Inconclusive("building vpool (%s) failed:\n%s\n%s" % (cfg, o[-2000:], e[-3000:]))
    with open(sf, "w") as f:
        f.write(stamp)
    return outd
