# ./check --setup : build everything the registered checks need, offline.
import time, concurrent.futures as cf
from common import *
import props


def main():
    t0 = time.time()
    os.makedirs(BUILD, exist_ok=True)
    for cfg in ("ref", "asan"):
        core_build(cfg)
        log("core-%s ready (%.0fs)" % (cfg, time.time() - t0))
    jobs = []
    for pid, p in sorted(props.PROPS.items()):
        for m in p.get("monitors", []):
            for cfg in m.get("configs", ["ref", "asan"]):
                jobs.append((m, cfg))
    failed = []
    with cf.ThreadPoolExecutor(max_workers=4) as ex:
        futs = {ex.submit(compile_monitor, m["name"], m["srcs"], cfg, m.get("link", ())): (m["name"], cfg) for m, cfg in jobs}
        for f in cf.as_completed(futs):
            try:
                f.result()
            except Inconclusive as e:
                failed.append((futs[f], str(e)))
    for pid, p in sorted(props.PROPS.items()):
        if p.get("custom"):
            import importlib
            mod = importlib.import_module(p["custom"])
            if hasattr(mod, "setup"):
                try:
                    mod.setup()
                except Inconclusive as e:
                    failed.append(((pid, "custom"), str(e)))
    for who, msg in failed:
        log("SETUP FAILED for %s: %s" % (who, msg))
    log("setup done in %.0fs, %d failure(s)" % (time.time() - t0, len(failed)))
    return 2 if failed else 0
