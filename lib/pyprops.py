# Driver side of the PyImath workloads (C19, C20): runs py/<script> in child interpreters against a freshly built
# imath module (config asan | tsan | ref), parses their event stream, attributes crashes to scenarios and folds
# everything into the common result dict of lib/driver.py.
import json, os, re, subprocess, sys, time, threading
from common import *
import pybuild

PYDIR = os.path.join(VERIF, "py")


def _san_kind(err):
    m = re.search(r"ERROR: AddressSanitizer: ([\w-]+)", err)
    if m:
        return "asan-" + m.group(1)
    m = re.search(r"([\w./-]+):(\d+):\d+: runtime error: ([^\n]*)", err)
    if m:
        what = re.sub(r"-?\d[\d.e+x-]*", "N", m.group(3))[:60].strip().replace(" ", "_")
        return "ubsan-%s:%s" % (os.path.basename(m.group(1)), what)
    if "terminate called" in err:
        m = re.search(r"terminate called after throwing an instance of '([^']+)'", err)
        return "terminate-" + (m.group(1) if m else "unknown")
    m = re.search(r"Fatal Python error: ([^\n]*)", err)
    if m:
        return "pyfatal-" + re.sub(r"\W+", "_", m.group(1))[:40]
    return None


def _scen_class(name):
    """scenario name without its size suffix: 'mask:V3fArray:L3' -> 'mask:V3fArray'"""
    return re.sub(r":[LNn]\d+$", "", name)


def run_one(cfg, script, args, timeout, extra_env=None):
    """one child process; returns dict(events=[...], rc, stderr, timed_out)"""
    b = pybuild.py_build(cfg)
    env = dict(os.environ)
    env.update(b["env"])
    if extra_env:
        for k, v in extra_env.items():
            if k in ("LD_LIBRARY_PATH", "PYTHONPATH") and env.get(k):
                env[k] = v + ":" + env[k]
            else:
                env[k] = v
    cmd = [PY, os.path.join(PYDIR, script)] + args
    try:
        p = subprocess.run(cmd, env=env, stdout=subprocess.PIPE, stderr=subprocess.PIPE, timeout=timeout)
        rc, out, err, to = p.returncode, p.stdout, p.stderr, False
    except subprocess.TimeoutExpired as ex:
        rc, out, err, to = -999, ex.stdout or b"", ex.stderr or b"", True
    events = []
    for line in out.decode("utf-8", "replace").splitlines():
        if line.startswith("@@"):
            try:
                events.append(json.loads(line[2:]))
            except ValueError:
                pass
    return dict(events=events, rc=rc, stderr=err.decode("utf-8", "replace"), timed_out=to, cmd=cmd)


def run_workload(result, cfg, script, tier, seed, parts=8, timeout=3600, extra_args=(), extra_env=None, label=None,
                 tsan_filter=None):
    """Run py/<script> as `parts` processes (--part k/n), restart after crashes, fold the outcome into `result`.
    Every violation / crash becomes an entry of result['violations'] with config=cfg."""
    label = label or os.path.splitext(script)[0]
    pybuild.py_build(cfg)        # build (or refresh) once, before the worker threads start
    lock = threading.Lock()
    summaries = []
    rtfail = {}
    t0 = time.time()
    # more parts than cores balances the load (the cost per class is very uneven); at most NCPU children run at a time
    sem = threading.BoundedSemaphore(max(1, int(os.environ.get("VERIF_PYPAR", os.cpu_count() or 16))))

    def worker(k):
        start = 0
        guard = 0
        while True:
            guard += 1
            args = ["--tier", tier, "--seed", str(seed), "--part", "%d/%d" % (k, parts), "--start", str(start)] + list(extra_args)
            with sem:
                r = run_one(cfg, script, args, timeout, extra_env)
            evs = r["events"]
            summ = [e for e in evs if e["ev"] == "summary"]
            viols = [e for e in evs if e["ev"] == "viol"]
            scens = [e for e in evs if e["ev"] == "scenario"]
            with lock:
                if r["timed_out"]:
                    result["inconclusive"].append("%s[%s] part %d: watchdog fired (last scenario %s)" % (
                        label, cfg, k, scens[-1]["name"] if scens else "-"))
                    return
                if summ:
                    s = summ[-1]
                    summaries.append(s)
                    for v in s["violations"]:
                        result["violations"].append(dict(key=v["key"], sub=label, idx=-1, count=v["count"], config=cfg, monitor=None,
                                                         detail=dict(v["detail"], script=script, tier=tier, seed=seed)))
                    if cfg == "tsan" or "ThreadSanitizer" in r["stderr"]:
                        _fold_tsan(result, r["stderr"], label, cfg, tsan_filter)
                    if r["rc"] != 0 and not (cfg == "tsan" and r["rc"] == 66):
                        result["violations"].append(dict(key="crash:%s:%s:exit%d_after_summary" % (cfg, label, r["rc"]), sub=label, idx=-1, count=1,
                                                         config=cfg, monitor=None, detail=dict(stderr_tail=r["stderr"][-3000:], cmd=" ".join(r["cmd"]))))
                    return
                # no summary: the child died.
                # A failure of the sanitizer RUNTIME itself (it could not map its shadow / allocator memory: ENOMEM on a loaded
                # machine) says nothing about the code under test: re-run the same part once, then inconclusive.
                if re.search(r"(ThreadSanitizer|AddressSanitizer|LeakSanitizer|Sanitizer)[^\n]{0,40}(failed to allocate|out of memory|failed to mmap|"
                             r"ReserveShadowMemoryRange failed|unexpected memory mapping)", r["stderr"], re.I) and "runtime error" not in r["stderr"]:
                    rtfail[k] = rtfail.get(k, 0) + 1
                    if rtfail[k] <= 1:
                        result["extra"].setdefault("sanitizer_runtime_failures_retried", []).append("%s[%s] part %d" % (label, cfg, k))
                        continue
                    result["inconclusive"].append("%s[%s] part %d: the sanitizer runtime failed twice (resource exhaustion): %s" % (
                        label, cfg, k, r["stderr"][-300:]))
                    return
                # Attribute to the last announced scenario.
                kind = _san_kind(r["stderr"]) or ("signal%d" % -r["rc"] if r["rc"] < 0 else "exit%d" % r["rc"])
                for v in viols:   # violations reported before the crash are still valid
                    result["violations"].append(dict(key=v["key"], sub=label, idx=-1, count=1, config=cfg, monitor=None,
                                                     detail=dict(v["detail"], script=script, tier=tier, seed=seed)))
                if not scens:
                    result["inconclusive"].append("%s[%s] part %d died before its first scenario: %s\n%s" % (label, cfg, k, kind, r["stderr"][-1500:]))
                    return
                last = scens[-1]
                result["violations"].append(dict(
                    key="crash:%s:%s:%s" % (label, _scen_class(last["name"]), kind), sub=label, idx=-1, count=1, config=cfg, monitor=None,
                    detail=dict(scenario=last["name"], script=script, tier=tier, seed=seed, rc=r["rc"], stderr_tail=r["stderr"][-3500:],
                                replay_args=["--only", last["name"]])))
                result["sanitizer"].setdefault(cfg, dict(cases=0, reports=0))["reports"] += 1
                start = last["i"] + 1
                result["extra"].setdefault("crashed_scenarios", []).append(last["name"])
            if guard > 60:
                with lock:
                    result["inconclusive"].append("%s[%s] part %d: more than 60 crashes, giving up" % (label, cfg, k))
                return

    ths = [threading.Thread(target=worker, args=(k,)) for k in range(parts)]
    for t in ths:
        t.start()
    for t in ths:
        t.join()
    # fold summaries
    ev = sum(s["evaluations"] for s in summaries)
    dn = sum(s["distinct_nontrivial"] for s in summaries)
    classes = {}
    samples = []
    extra = {}
    for s in summaries:
        for kk, vv in s["classes"].items():
            classes[kk] = classes.get(kk, 0) + vv
        for smp in s["samples"]:
            if len(samples) < 6:
                samples.append(smp)
        for kk, vv in (s.get("extra") or {}).items():
            if isinstance(vv, (int, float)) and not isinstance(vv, bool):
                extra[kk] = extra.get(kk, 0) + vv
            elif isinstance(vv, list):
                extra[kk] = sorted(set(extra.get(kk, [])) | set(map(str, vv)))[:400]
            elif isinstance(vv, dict):
                d = extra.setdefault(kk, {})
                for a, b in vv.items():
                    d[a] = d.get(a, 0) + b if isinstance(b, (int, float)) else b
            else:
                extra[kk] = vv
    result["evaluations"] += ev
    if cfg in ("asan", "tsan"):
        result["sanitizer"].setdefault(cfg, dict(cases=0, reports=0))["cases"] += ev
    if not result.get("_dn_cfg") or result["_dn_cfg"].get(label) in (None, cfg):
        # distinct cases are counted once per workload (the first configuration that ran it)
        result.setdefault("_dn_cfg", {})[label] = cfg
        result["distinct_nontrivial"] += dn
    result["subs"].append(dict(name=label, config=cfg, monitor="py/" + script, evaluations=ev, distinct_nontrivial=dn, exhaustive=False,
                               wall_s=time.time() - t0, classes=classes, samples=samples, worst={}, always_report=(cfg != "ref"),
                               space=extra.pop("space", "")))
    if extra:
        result["extra"].setdefault("workloads", {})["%s[%s]" % (label, cfg)] = extra
    result["wall_by_run"]["%s[%s]" % (label, cfg)] = time.time() - t0
    return classes, extra


def _fold_tsan(result, err, label, cfg, flt):
    """ThreadSanitizer reports (halt_on_error=0): de-duplicate by the pair of innermost PyImath frames"""
    blocks = re.split(r"={18}\n", err)
    seen = result["extra"].setdefault("tsan_reports", {})
    for b in blocks:
        if "WARNING: ThreadSanitizer" not in b:
            continue
        m = re.search(r"WARNING: ThreadSanitizer: ([\w -]+?) \(", b)
        kind = (m.group(1) if m else "report").replace(" ", "-")
        frames = re.findall(r"#\d+ ([^\n]*?) (?:/[^\n]*?)?(\w[\w.]*\.(?:h|cpp|cc)):(\d+)", b)
        inner = [f for f in frames if "PyImath" in f[1] or "Imath" in f[1]]
        a = inner[0] if inner else (frames[0] if frames else ("?", "?", "0"))
        sig = "%s:%s" % (a[1], re.sub(r"\W+", "_", a[0])[:60])
        if flt and not flt(b):
            seen.setdefault("ignored:" + sig, 0)
            seen["ignored:" + sig] += 1
            continue
        key = "race:%s:%s:%s" % (label, kind, sig)
        if key not in seen:
            seen[key] = 0
            result["violations"].append(dict(key=key, sub=label, idx=-1, count=1, config=cfg, monitor=None, detail=dict(report=b[:4000])))
            result["sanitizer"].setdefault(cfg, dict(cases=0, reports=0))["reports"] += 1
        seen[key] += 1


def require_classes(result, label, classes, required):
    miss = [c for c in required if not classes.get(c)]
    if miss:
        result["inconclusive"].append("%s: declared input classes never observed: %s" % (label, miss))


def replay_scenario(cfg, script, tier, seed, scenario):
    r = run_one(cfg, script, ["--tier", tier, "--seed", str(seed), "--only", scenario], 1800)
    for e in r["events"]:
        if e["ev"] == "viol":
            print("REPLAY-VIOLATION key=%s detail=%s" % (e["key"], json.dumps(e["detail"])[:1500]))
    sys.stderr.write(r["stderr"][-4000:])
    bad = any(e["ev"] == "viol" for e in r["events"]) or r["rc"] != 0
    print("REPLAY-DONE scenario=%s rc=%s violations=%d" % (scenario, r["rc"], sum(e["ev"] == "viol" for e in r["events"])))
    return 1 if bad else 0
