# Property registry: which monitors / workloads decide which property.
# srcs entries are (path under mon/, extra compile flags for that TU).

def M(name, srcs, **kw):
    d = dict(name=name, srcs=[(s, "") if isinstance(s, str) else tuple(s) for s in srcs])
    d.update(kw)
    return d

PROPS = {}
HOOK_COMMITS = []
NOT_YET = {}


# Every property lives in its own fragment lib/props.d/cNN.py defining PROP = dict(...)
# (so that monitors can be added independently); they are loaded here.
import glob as _glob, os as _os, importlib.util as _ilu
for _f in sorted(_glob.glob(_os.path.join(_os.path.dirname(_os.path.abspath(__file__)), "props.d", "c[0-9][0-9].py"))):
    _spec = _ilu.spec_from_file_location("props_" + _os.path.basename(_f)[:-3], _f)
    _m = _ilu.module_from_spec(_spec)
    _m.M = M
    _spec.loader.exec_module(_m)
    PROPS[_os.path.basename(_f)[:-3].upper()] = _m.PROP
