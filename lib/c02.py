# C02: all build configurations of half.h agree bit for bit; the shipped table is
# what its generator prints.  Builds one monitor out of ~14 differently-flagged
# translation units (mon/c02_cfg/tu.inc) and runs it through the generic driver.
import os
from common import *
import driver


def configure_lookup_off():
    """configure-only cmake tree with IMATH_HALF_USE_LOOKUP_TABLE=OFF: gives the ImathConfig.h a user
    of that option would get (exercises config/CMakeLists.txt + ImathConfig.h.in)"""
    d = os.path.join(BUILD, "cfg-lookupoff")
    files = [f for f in repo_core_files() if "/config/" in f or f.endswith("/CMakeLists.txt")]
    stamp = sha_files(files)
    sf = os.path.join(d, ".verif-stamp")
    hdr = os.path.join(d, "config", "ImathConfig.h")
    if os.path.exists(hdr) and os.path.exists(sf) and open(sf).read() == stamp:
        return os.path.join(d, "config")
    os.makedirs(d, exist_ok=True)
    rc, o, e, _ = run(["cmake", "-G", "Ninja", "-S", REPO, "-B", d, "-DIMATH_HALF_USE_LOOKUP_TABLE=OFF",
                       "-DBUILD_TESTING=OFF", "-DCMAKE_BUILD_TYPE=None"], timeout=600)
    if rc != 0 or not os.path.exists(hdr):
        raise Inconclusive("cmake configure with IMATH_HALF_USE_LOOKUP_TABLE=OFF failed:\n" + o[-2000:] + e[-2000:])
    with open(sf, "w") as f:
        f.write(stamp)
    return os.path.join(d, "config")


def monitor_def():
    off = configure_lookup_off()
    T, C = "c02_cfg/tu_cxx.cpp", "c02_cfg/tu_c.c"
    NT = " -DIMATH_HALF_NO_LOOKUP_TABLE"
    srcs = [("c02_backends.cpp", "")]
    for std in ("14", "17", "20"):
        srcs.append((T, "-std=c++%s -DCFG=cxx%s_table" % (std, std)))
        srcs.append((T, "-std=c++%s -DCFG=cxx%s_notable" % (std, std) + NT))
    srcs += [
        (T, "-std=c++14 -DCFG=cxx14_lookupoff -I" + off),
        (C, "-DCFG=c_table"),
        (C, "-DCFG=c_notable" + NT),
        (C, "-DCFG=c_lookupoff -I" + off),
        (T, "-std=c++14 -DCFG=cxx14_f16c -mf16c"),
        (C, "-DCFG=c_f16c -mf16c"),
        (T, "-std=c++14 -O0 -DCFG=cxx14_O0_notable" + NT),
        (T, "-std=c++14 -O3 -DCFG=cxx14_O3_notable" + NT),
    ]
    return dict(name="c02_backends", srcs=srcs, san_scale=0.02, san_scale_thorough=0.1)


def generator_output():
    outdir = os.path.join(BUILD, "out")
    os.makedirs(outdir, exist_ok=True)
    exe = os.path.join(outdir, "c02_toFloat_gen")
    src = os.path.join(REPO, "src/Imath/toFloat.cpp")
    rc, o, e, _ = run([CXX, "-O1", src, "-o", exe], timeout=300)
    if rc != 0:
        raise Inconclusive("compiling the table generator toFloat.cpp failed:\n" + e[-2000:])
    rc, o, e, to = run([exe], timeout=120)
    if rc != 0 or to:
        raise Inconclusive("running the table generator failed (rc=%s)" % rc)
    p = os.path.join(outdir, "c02_gen_table.txt")
    with open(p, "w") as f:
        f.write(o)
    return p


def run_property(pid, tier, seed, result):
    mon = monitor_def()
    mon["env"] = {"C02_GEN_TABLE": generator_output(), "C02_TABLE_HEADER": os.path.join(REPO, "src/Imath/toFloat.h")}
    driver.monitor_step(pid, mon, tier, seed, result)
    cpu = open("/proc/cpuinfo").read()
    result["extra"]["configurations"] = [s[1] for s in mon["srcs"][1:]]
    result["extra"]["f16c_cpu"] = " f16c" in cpu
    if " f16c" not in cpu:
        result["extra"]["skipped"] = "F16C configurations compiled but not executed: CPU lacks f16c (reported as skipped, not passed)"


def setup():
    mon = monitor_def()
    for cfg in ("ref", "asan"):
        compile_monitor(mon["name"], mon["srcs"], cfg)
