# C09 registry entry (M is injected by lib/props.py) - placeholder texts are completed after calibration
PROP = dict(
    title="Transform builders act as documented; in-place forms pre-multiply",
    rule="tbd",
    assumptions=[],
    technique="tbd",
    level_text="tbd",
    level_note="tbd",
    monitors=[M("c09_transform", ["c09_set.cpp", "c09_inplace.cpp", "c09_frames.cpp"], san_scale=0.05, san_scale_thorough=0.02)],
)
