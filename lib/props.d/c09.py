# C09 registry entry (M is injected by lib/props.py)
PROP = dict(
    title="Transform builders act as documented; in-place forms pre-multiply",
    rule=("Every case is a pure function of (seed, sub-check, index); the index selects the function/overload and the input class, the "
          "counter-based PRNG the values. (1) set* builders (12 overloads of setTranslation/setScale/setShear on Matrix22/33/44, "
          "Matrix22/33::setRotation, Matrix44::setAxisAngle, Matrix44::setEulerAngles) are run on a matrix pre-filled with garbage; every "
          "entry is compared with the documented matrix written out in the monitor from the doc comments ('shear a for each b coord. by f' "
          "= entry [b][a]), exactly for translation/scale/shear and within C*eps of cosl/sinl resp. the Rodrigues formula in long double for "
          "rotations; the matrix is applied to a point through operator*(Vec,Matrix): p+t and per-axis scaling must be bit-exact, shear and "
          "rotations within C*eps*sum|terms| (exact on integer lattices); rotations must be orthonormal with det +1 and right-handed; "
          "translation() must return row N-1 of an arbitrary matrix. Parameter classes: integer lattice, generic, wide exponents, zeros, "
          "identity parameters, a single non-zero parameter; 8 angle classes (generic, many periods up to 1e6/1e12, huge up to 1e9/1e15, "
          "k*pi/2 +- 1e-j, k*pi/2 rounded, k*pi/2 +- few ulps, tiny/zero, +-100); 9 axis classes (lengths 1e-30..1e18 float / 1e30 double, "
          "axis aligned, mixed magnitudes, lattice, the lengthTiny threshold). (2) the 12 in-place forms (Matrix33/44 translate, scale, "
          "shear with every overload, Matrix44::rotate, Matrix22::scale; Matrix22/33::rotate) are run on 8 classes of CURRENT matrix (integer "
          "lattice, dense non-affine, affine, wide exponents, sparse, identity, identity with a dense last column, dense with one non-zero "
          "parameter) and compared with set*(..)*M (M*setRotation for Matrix22/33::rotate) evaluated by loops in long double and by the "
          "library's operator*: bit-exact on lattices and for zero angles, within 16*(eps*sum|terms| + n*denorm_min) otherwise (theory for any evaluation order: 2; worst observed 1.87; the result was bit-identical to the library product in every case); the rotate forms also against a "
          "Rodrigues reference. (3) frame builders on direction pairs from 16 classes (generic, nearly parallel/antiparallel 1e-1..1e-10, "
          "exactly perpendicular, axis aligned, lengths 2^-12..2^12, obtuse, exactly (anti)parallel, zero first/second/both, parallel along "
          "a coordinate axis, identical): orthonormality, handedness (row0 x row1 = row2), determinant, the documented axes and origin, the "
          "exact homogeneous row/column. 'Nearly parallel' is fixed as sin(angle) < sqrt(eps) (sqrt(eps_float) for nextFrame, which uses "
          "acosf); such pairs are executed, counted as skipped and not judged; above it tolerances are C*eps/sin(angle). Zero and exactly "
          "parallel pairs are judged for alignZAxisWithTargetDir and rotationMatrixWithUpDir only. A case is distinct by the hash of its "
          "input bits (capped by the framework: a lower bound); every judged case is non-trivial."),
    assumptions=["long double (x87, 64-bit significand) sinl/cosl/sqrtl of glibc are accurate to 1 ulp of long double; it is the reference "
                 "for float AND double (11 guard bits against the eps-scaled tolerances of several eps)",
                 "element types float and double with matching parameter type (S == T); mixed S/T instantiations are not executed",
                 "finite inputs; magnitudes chosen so that no product overflows; underflow is accounted for by an absolute floor of n*denorm_min",
                 "rotation conventions as read from ImathMatrix.h: row vectors, counter-clockwise / right-hand rule, setEulerAngles = Rx*Ry*Rz",
                 "float axes with |axis|^2 > FLT_MAX (length() = inf) and direction arguments outside 2^-12..2^12 are outside the quantifier "
                 "(executed for the axis case, never judged)",
                 "firstFrame is never called with coincident points (it is noexcept and calls normalizeExc: std::terminate)",
                 "gcc on x86-64 without FMA contraction (bit-identity with the library product is recorded, the verdict uses the eps bound)"],
    technique=("class-directed randomized execution of the real header code with independent oracles (documented matrices written out from "
               "the doc comments, Rodrigues formula and index-loop matrix products in long double, exact integer-lattice equality, "
               "cross-check against the library's own operator*); ASan/UBSan on a 5 % sample"),
    level_text=("All 12 set* overloads, 2+2 rotation builders, 12 in-place forms and 7 frame builders are executed for float and double on "
                "2.4*10^7 (quick) / 2.4*10^9 (thorough) judged executions per run, every boundary class of the quantifier is produced "
                "deterministically (required classes make a run inconclusive otherwise). Structural errors (wrong slot, wrong row, wrong "
                "component, wrong multiplication side, wrong sign, stale entry, wrong handedness) are hard mismatches on integer lattices / "
                "O(1) errors against tolerances of a few eps, and 20 such mutations are all detected by the quick tier. The input spaces "
                "are continuous, so this remains sampling."),
    level_note=("sampled, not exhaustive; an error below the calibrated bounds (4..160 eps, each >= 8x the worst ratio observed on >= 10^7 cases and written to the evidence on every run; scaled "
                "by 1/sin(angle) for cross-product based frames) is invisible outside the exact lattice checks; nearly parallel direction pairs, extreme direction lengths and "
                "S != T instantiations are not judged"),
    monitors=[M("c09_transform", ["c09_set.cpp", "c09_inplace.cpp", "c09_frames.cpp"], san_scale=0.05, san_scale_thorough=0.02)],
)
