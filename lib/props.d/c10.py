# C10 registry entry (M is injected by lib/props.py)
PROP = dict(
    title="Quaternion, matrix and axis-angle rotations are mutually consistent",
    rule=("Class-directed random generation, float and double, one sub-check per clause of the statement. A case is a pure function of "
          "(seed, sub-check, index); index mod K selects the boundary classes so that every class is hit deterministically. Unit quaternions "
          "come from 10 classes (generic; real part +-1e-1..1e-17 and exactly 0; half angle 1e-1..1e-12 towards r=+1 and r=-1; coordinate "
          "axes incl. exact 90/180/360 degrees and +-identity; the trace branch point of extractQuat |r| = 1/2 +- 1e-k; tied and ordered "
          "imaginary parts, one class per largest-diagonal branch), vectors from 6 classes (generic 2^-30..2^30, axis aligned, mixed "
          "magnitudes, zero components incl. the zero vector, along the rotation axis, integer lattice). setRotation/rotationMatrix: from = 6 "
          "direction classes x length e^-5..e^5, to at angle uniform in [0,pi] | 1e-k | pi/2 +- 1e-k | pi - 1e-k for every k = 1..15 | exactly "
          "pi | pi up to rounding | 0. slerp: 4-D angle uniform below 0.95 pi | 1e-1..1e-12 | 0 | pi/2 +- 1e-k | up to 0.95 pi, t = 0 | 1 | "
          "inside | up to 5% outside | 1e-k from an end. spline keys: consecutive rotations 0.1..0.9 rad (tangent continuity), also 0.01..2.4 "
          "rad, 1e-k rad and repeated end keys for the key-interpolation check. Every result is judged against a reference quaternion "
          "algebra written from the basis multiplication table and evaluated in long double (float) / __float128 (double): q v q*, the "
          "Hamilton product, q*/|q|^2, Rodrigues' formula, 2 atan2(|a-b|,|a+b|), (sin((1-t)a) q1 + sin(ta) q2)/sin a; tolerances are C*eps "
          "of the type times the stated scale, C calibrated >= 8x the worst ratio of the unchanged tree. Cases are distinct by a hash of "
          "their inputs (capped by the framework: a lower bound); every judged case is non-trivial (drawn from a named class)."),
    assumptions=["glibc sinl/cosl/atan2l/sqrtl and libquadmath sinq/cosq/atan2q/sqrtq are accurate to well below eps of float/double (reference arithmetic)",
                 "convention read from ImathQuat.h and confirmed by the oracle: Hamilton quaternions, rotateVector(p) = q p q*, matrices act on row vectors, so (q1*q2).toMatrix33() = q2.toMatrix33()*q1.toMatrix33()",
                 "'unit quaternion' = unit after rounding to the type (|q| = 1 + O(eps)); 'close to -1' for exp(log q) = real part <= -1+1e-3 (float) / -1+1e-6 (double), beyond that the tolerance grows as 1/(1+r)",
                 "'reproduces q' (exp(log q), setAxisAngle(axis(),angle()), extractQuat(toMatrix44())) is judged as |q' -+ q|_inf <= C eps and, on the side of the identity (r >= 0, resp. |r| > 1/2 for extractQuat), also as |v' - v| <= C eps |v| for the imaginary part: the quantifier names rotations by 1e-1..1e-12 rad, for which an absolute bound alone would be vacuous",
                 "slerp is judged for angle4D(q1,q2) = a < 0.95 pi (the function documents q1 != -q2) with tolerances proportional to the conditioning 1/cos(a/2); spline tangents are compared by second-order one-sided difference quotients, h = 2^-17 (double, 1e-6) and 2^-7 (float, 2e-2), mismatch relative to max(|tangent|, 4-D angles of the two adjacent key intervals), for key sequences with consecutive rotations of 0.1..0.9 rad",
                 "gcc on x86-64 (SSE2 arithmetic, no FMA contraction); other compilers' code generation is not observed"],
    technique=("class-directed randomised execution of the real Quat / Matrix44 / MatrixAlgo code with a high-precision reference quaternion algebra "
               "(long double / __float128) and calibrated C*eps tolerances; branch-coverage counters for extractQuat, setRotation, log/exp and "
               "sinx_over_x; ASan/UBSan on a 5% sample"),
    level_text=("Each clause of the statement is executed on 2*10^5..2*10^6 (quick, 2.4*10^7 in total) / 4*10^6..4*10^7 (thorough, 4.2*10^8 in total) "
                "class-directed cases per sub-check and type; every branch of extractQuat, of setRotation (direct, two-step, the three arms of the "
                "exactly-antipodal fall-back, halfway vector made of rounding noise), every k of pi - 1e-k (k = 1..15) and the tiny-argument arms of "
                "log/exp/sinx_over_x are required to be observed in every run. The input space (unit quaternions x vectors x t) is continuous and "
                "only sampled."),
    level_note="sampled, not exhaustive; reference functions of glibc/libquadmath are trusted; tangent continuity is a finite-difference estimate",
    monitors=[M("c10_rotation", ["c10_rot.cpp", "c10_setrot.cpp", "c10_slerp.cpp"], san_scale=0.05, san_scale_thorough=0.02)],
)
