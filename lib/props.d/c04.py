# C04 registry entry (M is injected by lib/props.py)
PROP = dict(
    title="Aggregates are component-wise: operators, equality, accessors, layout, text",
    rule=("One sub-check per (aggregate type, element type) and clause: Vec2/3/4 x {short,int,int64,half,float,double}, "
          "Color3/Color4 x {half,float,unsigned char}, Shear6 x {float,double}, Quat x {float,double}, Matrix22/33/44 x {float,double} "
          "(34 instantiations) x {ops, eq, layout, text}. "
          "ops_*: every index draws one operand set (two aggregates + one scalar; class = idx mod 8 for floating types: distinct primes per slot, "
          "primes scaled by powers of two, signed zeros, extremes, inf, NaN, random bit patterns, log-uniform; idx mod 5 for integers: primes, zeros, "
          "extremes, wide operands for +/-, wide operands for *) and runs EVERY spelling of the type on it (binary, compound, self-aliased compound, "
          "scalar on the right, scalar on the left, unary minus, negate(), Quat ~): 19 spellings for vector-like types, 13 for Quat, 15 for matrices; each result "
          "slot is read through the named data member and compared bit for bit (any NaN matches any NaN) with T(a[i] op b[i]) computed by the "
          "element type's own operator. Spellings whose scalar operation is undefined in some slot (signed overflow, /0, -MIN) are not executed and counted as skipped. "
          "eq_*: idx mod 4 == 0: ==, !=, equalWithAbsError/RelError must equal the AND/OR over the slots of the scalar comparison on values incl. signed zeros, inf, NaN, extremes; "
          "otherwise the operands are distinct primes and exactly one slot (idx/4 mod N) differs by 1 (up or down): == / != must flip in both operand orders, "
          "equalWith*Error must be false for a tolerance below and true for a tolerance above the difference, and == against the same values in another element type must agree. "
          "layout_*: distinct exactly-convertible values per slot written through one access path and read through all others: sizeof, member addresses, operator[] (read, write, address), "
          "getValue() pointers, raw bytes, setValue/getValue with scalars and aggregates of every element type, scalar/copy/broadcast/converting constructors from every element type "
          "(result = T(s_i)), interop constructors/assignments from struct{x,y..}, T[N], std::array, subscript-only classes, T[N][N]. "
          "text_*: operator<< under 12 (matrices: 13) flag/precision settings x value classes, compared with every component streamed alone (matrices: parsed back with strtold). "
          "Distinctness is by hash of the operand bit patterns (a lower bound, capped by the framework); every case is non-trivial: its slots carry pairwise different values or a boundary class."),
    assumptions=["the element type's own scalar operator is the specification (integer promotion, half's float round trip, unsigned char wrap-around are the scalar's)",
                 "a NaN result is required to be a NaN; its sign and payload are not compared",
                 "integer operands for which the scalar operation is undefined (signed overflow, division by zero, -MIN) are outside the property and are not executed",
                 "text is observed in the classic \"C\" locale with stream width 0; unsigned char elements are checked for the structure \"(c c c)\" only",
                 "matrix tokens are compared numerically to 4 units of the last printed digit (8x the half-unit error of a correctly rounded conversion) (the operator chooses scientific/showpoint itself), not as strings",
                 "gcc on x86-64; IMATH_FOREIGN_VECTOR_INTEROP enabled (the default for this compiler)"],
    technique=("generated cross product of (type, element type, spelling) from per-type tables of lambdas, executed on class-directed random operand sets and judged slot by slot "
               "against the scalar operator; directed single-slot perturbation for the comparisons; write-one-path/read-all-paths for accessors; "
               "token-level comparison of stream output; the same binary under ASan/UBSan on a 5 % sample (stack objects, accessors driven over exactly 0..N-1)"),
    level_text=("Every (type, element type, spelling) combination named by the statement is instantiated and executed - 610 operator spellings, 2,627 result slots - on 3*10^5 (quick) / 2*10^7 (thorough) operand "
                "sets per instantiation drawn from the boundary classes of the quantifier, with exact (bitwise) comparison; the code paths are straight-line, so a slot typo "
                "is exposed by every operand set of the distinct-primes class. Operand values are sampled, not enumerated."),
    level_note="operand values are sampled; NaN payloads are not compared; width/fill/locale dependent formatting is not explored; compilers other than gcc are not executed",
    monitors=[M("c04_aggregates", ["c04_vec.cpp", "c04_color_shear_quat.cpp", "c04_matrix.cpp", "c04_layout.cpp", "c04_layout2.cpp", "c04_text.cpp"],
                san_scale=0.05, san_scale_thorough=0.01)],
)
