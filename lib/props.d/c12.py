# C12 registry entry (M is injected by lib/props.py)
PROP = dict(
    title="Matrix factorisations recompose to their input with structured factors",
    rule=("One monitor, 33 sub-checks in three families; every case is generated from (seed, sub-check, index) with the input class = index mod K, "
          "so every boundary class is hit deterministically; cases are distinct by a hash of the literal input (matrix entries / point "
          "coordinates, weights and flags; capped by the framework, i.e. a lower bound) and every judged case is non-trivial (it exercises a full factorisation). "
          "(A) SHRT decompositions, float and double, 3-D (Matrix44) and 2-D (Matrix33): affine matrices built as S*H*R*T in long double from random "
          "(s,h,r,t) (16 resp. 12 classes: 1/2/3 negative scales, gimbal-lock and quarter-turn angles, no shear / shear up to 1e3, scales 2^-250..2^250 "
          "(float 2^-30..2^30), one tiny scale down to 2^-500, uniform scale / identity / pure translation) and general affine matrices U diag V^T with graded "
          "conditioning and dense Gaussian matrices with det > 0 / < 0. Each case runs extractSHRT, extractScaling, extractScalingAndShear, "
          "extractAndRemoveScalingAndShear, removeScalingAndShear, sansScalingAndShear (value and in/out overload), sansScaling, removeScaling with exc "
          "alternating; the returned factors are recomposed by the monitor (own long-double builders written from the documented conventions) and compared "
          "with the input row by row: max_j|rec[i][j]-M[i][j]| <= 16 eps kappa |M[i]|, kappa = ||Ln||_F ||Ln^-1||_F of the row-normalised linear part; residual "
          "rotations must satisfy max|R R^T - I| <= 16 eps kappa and det R > 0; translation rows must be preserved exactly (R*T results) or to 4 eps (H*R*T "
          "results). Matrices with eps*kappa > 2^-12 are 'nearly singular': executed, counted, not judged. extractSHRT's rOrder and Euler overloads are run for "
          "all 24 orders (rotation recomposed through Euler<T>::toMatrix44); computeRSMatrix on pairs of regular matrices x 4 flag combinations against "
          "scale(A|B)*rotate(A|B)*translate(A). Degenerate input: matrices whose computed scale is exactly 0 (zero rows, axis-parallel and axis-coplanar rows - "
          "the Gram-Schmidt arithmetic is exact there - at magnitudes 2^-200..2^200) must be reported by every entry point (false and input unchanged / "
          "fall-back returned with exc=false, std::domain_error with exc=true; computeRSMatrix: std::domain_error); checkForZeroScaleInRow(Vec2/Vec3) is "
          "compared with the exact overflow criterion |row_i|/|scl| > max around its guard (scl = +-0, denorm_min, subnormal, min normal, boundary +- k eps). "
          "(B) jacobiSVD 3x3/4x4, float/double, forcePositiveDeterminant off/on and default arguments, on 16 classes of real matrices (Gaussian, magnitude "
          "sweep, rank 1 / N-1, exactly rank-deficient, repeated singular values, scaled signed permutations, diagonal, zero/identity, integer lattice, "
          "symmetric, antisymmetric, graded conditioning, det<0, nearly diagonal, orthogonal): U^T U = I, V^T V = I, U diag(S) V^T = A, S descending and "
          "non-negative (with the flag: det U, det V > 0 and only the last value may be negative), tolerances 128 eps / 192 eps max|A| (3x3), 384 eps / 512 eps max|A| (4x4); "
          "a deterministic sub-check replays 3 literal Matrix44<double> with two pairs of coinciding singular values (witnesses of the 20-sweep cap). jacobiEigenSolver (both overloads), minEigenVector, "
          "maxEigenVector on 14 classes of symmetric matrices: V^T V = I, V diag(S) V^T = A; min/max vectors: unit length, A v = (v.Av) v and |v.Av| equal to the "
          "extreme |eigenvalue| of a reference cyclic-Jacobi solver in long double. "
          "(C) procrustesRotationAndTranslation, V3f/V3d x weighted/unweighted x doScale: 'exact' cases where B_i = s A_i R + t holds exactly for the stored "
          "points (integer lattice points, rational rotations from integer quaternions, dyadic scales; 1..200 points, single point, 2 points, collinear, coplanar, "
          "coincident, zero weights with unrelated partners, weights 2^-12..2^12) or up to the rounding of B: the result must be a proper scaled rotation + "
          "translation, map every A_i onto B_i and (when the points determine it) equal the transform, tolerance 128 eps_double K (64 eps_T K for rounded B) with "
          "K = big*spread1/spread2^2 the conditioning of the point set; 'optimal' cases (noisy, unrelated, reflected, affine images): none of 64 rotations "
          "(8 axes x 1e-1..1e-8 rad) about the centroid of B may reduce the weighted residual by more than 1e-9 of it."),
    assumptions=["an Euler<T> out-parameter is expected to represent the rotation as an Euler object (its own order, angles in its ijk layout); the Vec3 "
                 "out-parameter of the rOrder overload is read in XYZ layout (what the library's toXYZVector documents)",
                 "the 24 non-default rotation orders are recomposed through Euler<T>::toMatrix44 (decided by C11), all other factors through the monitor's own builders",
                 "'degenerate' is judged only where the computed scale is exactly zero (exact arithmetic); nearly singular input (eps*kappa > 2^-12) is executed and counted, not judged",
                 "procrustes inputs whose optimum is not unique (coincident points with doScale, rank <= 1 correlation in the noisy classes, "
                 "sigma2+det*sigma3 < 1e-6 sigma1, point sets with conditioning K > 1e6) are executed and counted, not judged",
                 "long double (64-bit significand) is accurate enough as reference for tolerances of >= 16 eps_double; glibc sinl/cosl/atan2l/sqrtl are correct",
                 "gcc on x86-64 without FMA contraction; other compilers' code generation is not observed"],
    technique=("class-directed randomized execution of the real factorisation code with independent long-double recomposition oracles, exact-lattice "
               "point sets for procrustes, perturbation test of first-order optimality, exception-contract checks on exactly degenerate input; ASan/UBSan on a sampled sweep"),
    level_text=("Every entry point named in the statement (11 3-D and 8 2-D SHRT functions in all overloads, computeRSMatrix, both checkForZeroScaleInRow, "
                "jacobiSVD 3x3/4x4, jacobiEigenSolver 3x3/4x4 in both overloads, min/maxEigenVector, all four procrustes instantiations) is executed for float and double "
                "on 2.7e7 (quick) / 4.4e8 (thorough) generated inputs per run, drawn from boundary classes that cover each class of the quantifier deterministically, "
                "and each result is judged against the defining identity evaluated independently in long double with tolerances calibrated to >= 8x the worst "
                "pristine ratio. The input spaces are continuous, so this is sampling: a defect confined to a set of inputs that none of the classes reaches would be missed."),
    level_note=("sampling of continuous input spaces; nearly singular / non-unique inputs are counted but not judged; non-XYZ rotation orders are recomposed "
                "through Euler<T> (trusting C11); NaN/inf inputs and perspective (non-affine) matrices are outside the statement and not generated"),
    monitors=[M("c12_factor", ["c12_shrt.cpp", "c12_svd.cpp", "c12_procrustes.cpp"], san_scale=0.05, san_scale_thorough=0.02)],
)
