# C12 registry entry (M is injected by lib/props.py)
PROP = dict(
    title="Matrix factorisations recompose to their input with structured factors",
    rule="TBD",
    assumptions=[],
    technique="TBD",
    level_text="TBD",
    level_note="TBD",
    monitors=[M("c12_factor", ["c12_shrt.cpp", "c12_svd.cpp", "c12_procrustes.cpp"], san_scale=0.05)],
)
