# C16 registry entry (M is injected by lib/props.py)
PROP = dict(
    title="Frustum projection, depth mapping, planes and culling are mutually consistent",
    rule=("Frusta are drawn per case index from a product of classes: kind (perspective / orthographic) x near/far ratio decade "
          "(10^0.02..10^8, one decade per class) x window kind (symmetric, asymmetric containing the axis, axis outside the window, "
          "one edge exactly on the axis); near in 10^-3..10^3, window width 0.01..20 x near (perspective) resp. 0.01..10 x depth range or "
          "|near| (orthographic, 1/4 of them with negative near); all six numbers are rounded to T (float and double) and the oracle "
          "works from the rounded values. Camera matrices for planes(p,M)/FrustumTest: identity, rigid, uniformly scaled (10^-2..10^2), "
          "non-uniformly positively scaled (10^-0.7..10^0.7 per axis), translation 0.1..10 x frustum size (1/4 none). "
          "Probes: the 8 analytic corners; points at random screen positions in [-1.5,1.5]^2 and depths log-uniform in [near/4,4 far] / "
          "uniform in NDC / uniform in depth; integer z ranges 8/16/24/31/32 bit and a signed one; per plane points displaced from the "
          "face by len*10^-j (j=1..9), spheres and boxes whose centre sits at signed distance +-rho(1+-10^-j) (j=1..8) from the plane "
          "(rho = radius resp. support radius of the box along the plane normal), flat boxes included. An exact integer lattice "
          "(orthographic boxes, 45-degree perspective frusta, 24 axis rotations, integer translations) supplies points exactly on "
          "each face. A case is distinct by hash(frustum, matrix entries, probe); all cases are non-trivial (no identity shortcuts "
          "exist in these functions)."),
    assumptions=["non-degenerate means left<right, bottom<top, near<far, perspective near>0; (far-near) >= 0.02 |near|; inverted windows are not driven",
                 "the oracle is evaluated in x87 long double (64-bit significand): 2048x finer than double, enough for tolerance-based judgement but not exact",
                 "inputs closer to a frustum boundary than 8 (planes(p): 3) conditioning units (eps x magnitudes x shape factor of the three points a plane is built from) are counted, not judged; "
                 "the conditioning model knows which three corners planes(p,M) uses for each plane (to size the tolerance only, never an expected value)",
                 "'touches' for isVisible(box/sphere) is read as in DESIGN.md: the object contains a point strictly inside the open region; externally tangent objects carry no claim; "
                 "the witness points tried are the centre, the 6 points of a sphere extreme along the plane normals, the 8 corners of a box",
                 "screenRadius/worldRadius are only required to be mutually inverse for orthographic frusta (they ignore the kind); for perspective ones the value r*near/depth is also checked",
                 "integer z values satisfy zmin <= z <= zmax; ranges up to 32 bit (0..2^32-1) are driven",
                 "the throwing *Exc twins are C07's subject and are not driven here"],
    technique=("randomised class-directed execution of Frustum<T>/FrustumTest<T> (T=float,double) against an independent long-double camera-space model "
               "(corners, NDC map, unit plane normals written from the six frustum numbers; world space via the exact inverse of the rounded matrix); "
               "calibrated conditioning-scaled tolerances; exact integer lattice for boundary points; ASan/UBSan on a sampled sweep"),
    level_text=("Every function family named in the statement is executed for float and double on 10^5..2*10^6 (quick) resp. 4*10^6..6*10^7 (thorough) frusta per sub-check "
                "covering both kinds, eight decades of near/far, four window classes incl. off-axis ones, four classes of camera matrices and objects straddling each of the six planes "
                "at graded relative depths 10^-1..10^-8; points exactly on each plane are enumerated on an integer lattice where the library's arithmetic is exact. "
                "Sign verdicts within 8 conditioning units of a boundary are not judged, so a defect that only moves a plane by a few ulps of its conditioning is invisible."),
    level_note="sampled, not exhaustive; conservative culling is judged through witness points, so a false 'invisible' for an object that intersects the frustum only between its witness points is not observed",
    monitors=[M("c16_frustum", ["c16_projection.cpp", "c16_planes.cpp"], san_scale=0.05, san_scale_thorough=0.02)],
)
