# C08 registry entry (M is injected by lib/props.py)
PROP = dict(
    title="length() and normalisation are accurate for every non-overflowing vector",
    rule=("Vectors are generated per case index: dimension = 2 + idx mod 3, input class = (idx div 3) mod 8, sweep counter j = idx div 24. "
          "Classes: (1) all components +-m*2^e with a common exponent e = j swept over the WHOLE range from the smallest subnormal binade "
          "(2^-149 / 2^-1074) to the top binade below sqrt(max)/2; (2) mixed magnitudes: leading exponent swept, the other components "
          "2^0..2^-60 below it (one ratio swept deterministically); (3) a single non-zero component (random mantissa or exact power of two, "
          "either sign) among signed zeros; (4) |v|^2 densely on both sides of the 2*min threshold at which length() switches to the scaled "
          "algorithm (relative offsets +-2^-1..2^-(p+2)), around min, log-uniform over [min/8, 16 min), and exact hits |v|^2 == 2*min and their "
          "1-ulp neighbours; (5) every component subnormal, including 0..4 quanta; (6) components at / just below the quantifier's limit "
          "prev(sqrt(max))/2 (all four exactly at the limit included); (7) independent exponents over the whole range with some zeros; "
          "(8) exponents around half the minimum exponent where squares pass from normal through subnormal to zero. The branch length() takes "
          "is inferred from v.dot(v) < 2*min and counted (lengthTiny_path / sqrt_path, threshold_below / above / exact). "
          "length: compared with the Euclidean norm evaluated by an index loop in long double (float) / __float128 (double; squares exact, "
          "exponent range 2^+-16383 so no scaling is needed), error in units of the spacing of T at the reference (subnormal grid below min), "
          "bound 24 ulps on the lengthTiny path and 18 on the sqrt path (8x the worst observed 2.81 / 2.22); length == 0 iff all components are "
          "zero; result finite. length2: bit for bit equal to v.dot(v), v ^ v and the loop sum_i v[i]*v[i] in T. "
          "normalize, normalizeExc, normalizeNonNull (in place) and normalized, normalizedExc, normalizedNonNull (value): every function on every "
          "vector, all 3 dimensions x {float,double}: no NaN/inf for any non-zero input; when the reference norm is a normal number: "
          "| |n| - 1 | <= 16 eps (|n| in the reference precision), signbit(n_i) == signbit(v_i) (signed zeros kept), "
          "|n_i * ref - v_i| <= 16 eps * ref for every i (8x the worst observed 1.84 / 1.83); Exc forms must not throw on a non-zero vector. "
          "Vectors with a subnormal reference norm are judged for finiteness only (class norm_subnormal_only_finiteness_judged). "
          "zero_vectors: all 4+8+16 sign patterns of the zero vector x {float,double} exhaustively: length and length2 return 0, normalize and "
          "normalized give the zero vector, the Exc forms throw std::domain_error or leave/return the zero vector, never NaN (NonNull forms have "
          "the precondition v != 0 and are not called). Distinct cases are counted by a hash of (dimension, type, component bits) for every 4th "
          "case (lower bound, capped by the framework); every generated vector is non-zero and counts as non-trivial."),
    assumptions=["long double (64-bit significand) and libquadmath __float128 arithmetic incl. sqrtl/sqrtq are correct; squares of float/double inputs are exact in them",
                 "'a few ulps' is read as the calibrated bounds 24 / 18 ulps (length) and 16 eps (normalisation), 8x the worst error observed on 3e9 pristine cases; a regression of a couple of ulps is invisible",
                 "for vectors whose norm is subnormal the normalize family is only required to return finite values (the statement's accuracy clause is restricted to normal norms)",
                 "whether the Exc forms throw on the zero vector is C07's concern; here throwing std::domain_error or returning the zero vector are both accepted",
                 "gcc on x86-64 without FMA contraction (the bit-for-bit length2 == loop sum comparison assumes separately rounded products)"],
    technique=("class-directed randomised execution with deterministic exponent / threshold sweeps against a higher-precision reference norm "
               "(long double / __float128); exhaustive enumeration of signed-zero vectors; ASan/UBSan on a sampled sweep"),
    level_text=("All 8 functions x Vec2/3/4 x {float,double} (48 instantiations) are executed on every run: 1.1e8 vectors (quick) / 3.3e9 (thorough), "
                "every exponent binade of the legal range visited deterministically thousands of times, the 2*min switch-over sampled densely on "
                "both sides with exact hits, signed zeros and single-component vectors by construction, and each result compared with a "
                "higher-precision Euclidean norm. The input space (2^64..2^256 vectors) can only be sampled."),
    level_note="sampled, not exhaustive; tolerance 8x the worst observed error, so few-ulp regressions (e.g. moving the 2*min threshold to min, which measurably does not worsen accuracy) are not flagged",
    monitors=[M("c08_length", ["c08_length.cpp", "c08_normalize.cpp"], san_scale=0.05, san_scale_thorough=0.02)],
)
