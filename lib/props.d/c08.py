# C08 registry entry (M is injected by lib/props.py) -- placeholder texts, completed after calibration
PROP = dict(
    title="length() and normalisation are accurate for every non-overflowing vector",
    rule="tbd",
    assumptions=[],
    technique="tbd",
    level_text="tbd",
    level_note="tbd",
    monitors=[M("c08_length", ["c08_length.cpp", "c08_normalize.cpp"], san_scale=0.05)],
)
