# C20 registry entry (M is injected by lib/props.py)
PROP = dict(
    title="Vectorised PyImath ops equal element-wise scalar ops under any task partition",
    rule=("Entry points are discovered, not listed: every callable of the imath module and of every class in it whose Boost.Python signature "
          "(parsed from the docstring, one case per C++ overload) takes or returns a FixedArray / FixedArray2D / FixedMatrix. Arguments are built "
          "per declared type from a PRNG keyed by (seed, signature, argument kinds, length); every 1-D array argument is supplied plain and as a "
          "masked reference (each position alone, all together, and for three-array entry points every two together: all 2^3 accessor combinations); lengths 3, 201, 333 (thorough: 1, 199, 200, 201, 202, 1000, 4096); in-place operators additionally with a masked left side and a right side of the unmasked length; the largest length additionally with data made of runs of four equal elements. Each "
          "case is executed without a pool (baseline), then - for lengths above the 200-element dispatch threshold - under the test WorkerPool "
          "(py/vpool.cpp, installed through WorkerPool::setCurrentPool; its workers() varies from plan to plan over 1, 2, 3, 4, 5, 7, 8, 16) in three modes: shuffled sub-ranges on the calling thread (5/24 random or "
          "adversarial partitions: one range, element-wise, tiny head/tail, empty ranges, reversed order), real threads with a static range "
          "assignment (2/8 runs; 2..8 threads) and the same with injected yields/sleeps (1/4 runs); result and all arguments must be bit-identical to the "
          "baseline (raw buffer bytes or recursive numeric extraction with floats compared as bit patterns). O2: on up to 40 positions per case the "
          "array result (or mutated first argument) is compared with the scalar binding of the same name applied to the i-th elements - exact, "
          "or within 64 eps of the largest magnitude involved for floating point where different code paths legitimately round differently (counted as o2_within_tolerance); O2b: the same entry point applied to one-element arrays built from the i-th elements must give the i-th result exactly. When the baseline raises, only the outcome (raise, exception class) is compared. O3: for every accessor "
          "combination and every non-first array position an argument one element too long, one too short and - when another argument is a masked "
          "reference - of the unmasked length must raise and leave every argument unchanged (in-place operators, where the last is a documented leniency, are modelled instead). distinct_nontrivial counts distinct (signature, "
          "argument kinds, length) cases above the threshold, i.e. those that ran under the pool. Second workload (c20_scalar.py): 67 scalar "
          "bindings (Vec2/3/4, Matrix33/44, Quat, Euler, Box3, Frustum, Line3, Plane3 methods and module functions, float and double) are called "
          "with random and boundary inputs and compared bit for bit with a C++ program (c20_cref.cpp) that calls the library of /repo's working "
          "tree directly on the same bit patterns; module functions called with python floats may resolve to the float or the double overload, "
          "either reference is accepted."),
    assumptions=["scalar-binding-vs-C++ agreement is checked bit for bit on 67 representative bindings (py/c20_scalar.py vs py/c20_cref.cpp, 400/4000 inputs each); "
                 "the remaining scalar bindings are thin wrappers of the same kind, and the C++ functions themselves are decided by the C04..C18 monitors",
                 "integer operands are non-zero and small, shift counts below 8: inputs for which the scalar C++ operation itself is undefined say nothing about the property",
                 "overloads with arguments of type object/tuple/list/dict/str are skipped and counted (unsupported_types in the evidence)",
                 "ThreadSanitizer sees only the interleavings that occurred; the pool reports how many range pairs truly overlapped in time"],
    technique=("differential runtime monitoring of the real extension module: no-pool baseline vs. randomly partitioned, shuffled and truly concurrent execution under an "
               "installed test WorkerPool (bit-exact comparison), element-wise comparison with the scalar bindings, ASan+UBSan build in quick, plus ThreadSanitizer "
               "build with real threads in thorough"),
    level_text=("All ~2,800 vectorised overloads the module exports are driven (discovered from signatures); partitions, orders and thread schedules are sampled: "
                ">= 10 pool runs per dispatching case in quick, >= 36 in thorough, with adversarial partitions forced by the pool; data races are looked for by "
                "ThreadSanitizer on the interleavings that occurred (thorough)."),
    level_note="partitions and schedules are sampled, not enumerated; scalar-binding-vs-C++ agreement is sampled on 67 bindings",
    custom="c20",
)
