# C17 registry entry (M is injected by lib/props.py)
PROP = dict(
    title="Scalar, root-finding and colour utilities equal their mathematical definitions",
    rule=("floor/ceil/trunc: all 2^32 float bit patterns are enumerated on every run, the 2*0x4f000000 patterns with |x| < 2^31 are judged "
          "against std::floor/ceil/trunc of the exactly converted double; doubles come from 13 boundary classes (integers +-0..3 ulps, "
          "half integers, +-2^31 neighbourhood, tiny, +-0, powers of two, large non-integers, the sliver (-2^31,-2^31+1)); results not "
          "representable in int are skipped. succf/predf/finitef: all 2^32 patterns against the ordered-integer model of the float line "
          "(inf/NaN bit-identical; the sign of a zero result is not compared); succd/predd/finited: 11 classes of doubles. "
          "divs/mods/divp/modp: all ordered pairs of a boundary-heavy int set (1024 values quick, 4096 thorough: 0,+-1,+-2,+-3,+-7, 2^k and "
          "2^k+-1, INT_MAX, INT_MIN+1, INT_MIN, seeded random fill), judged in int64 by the defining identities only (x = y*q + r with "
          "|r| < |y| and sign(r) = sign(x), resp. 0 <= r < |y|); pairs with y = 0 or with an intermediate expression of the implementation "
          "that leaves int (negation, and the y-1-x of divp / y*q of modp) are skipped and counted. abs, sign, cmp, cmpt, iszero, equal, clamp, "
          "equalWithAbsError, equalWithRelError: (a,b,t) triples of float, double and int from lattice classes where every operation is exact "
          "(threshold exactly at / one step off |a-b|), ordering classes, extremes and random classes, against the one-line definitions in "
          "long double / __float128 / int64; a tolerance predicate is judged strictly whenever T arithmetic is exact or the two sides differ "
          "by more than 4 eps, otherwise either answer is accepted. lerp/ulerp: |err| <= 16 eps (|a||1-t|+|b||t|) resp. 16 eps (|a|+|b-a||t|), "
          "exact on the dyadic lattice and at t = 0, 1; ulerp<unsigned> exact on a dyadic lattice; lerpfactor(lerp(a,b,t),a,b) = t within "
          "8 eps * conditioning, lerpfactor = (m-a)/(b-a) within 16 eps, = 0 when a == b or the quotient exceeds max, finite always "
          "(operands <= max/4). Roots: 16 polynomial families built from chosen roots (lattice roots k*2^sh with exactly representable "
          "coefficients; random roots with rounded coefficients; exactly decided double and triple roots; vanishing leading coefficients; "
          "19 literal polynomials): return value = number of distinct real roots (-1: all reals) whenever the sign of the discriminant is "
          "decidable in T arithmetic, every root within C eps (cond + S sqrt(S/sep)) [cubic, C = 64] resp. C eps cond [quadratic C = 16, "
          "linear C = 4], root sets with separation < S/512 skipped; delegation compared bit for bit with the lower-degree solver. "
          "Colour: rgb and hsv triples of the unit cube from 12 + 12 classes (grey axis, black/white, cube vertices/edges, hue wrap, sector "
          "boundaries, near-grey, dark, lattices) for float and double: hsv in [0,1], both round trips (hue modulo 1, ignored where undefined), "
          "both directions against textbook models in higher precision; Vec3 vs Color4 overloads bit-identical with alpha unchanged for "
          "float, double, all 2^24 unsigned char colours, short and int, integer results = trunc(model(v/max)*max); "
          "rgb2packed(packed2rgb(p)) for all 2^32 packed colours through Color4<float> and Vec3<float>. "
          "Enumerated inputs are distinct by construction, generated ones are counted by a hash of their input bits (a lower bound, capped "
          "by the framework's hash set)."),
    assumptions=["glibc floor/ceil/trunc/isfinite/nextafter-free bit model, long double and __float128 (libquadmath) arithmetic are correct",
                 "'well separated' for roots is taken as: distance between any two distinct roots (complex ones included) >= 2^-9 of the "
                 "largest root magnitude, and discriminant larger than 4x its first-order rounding bound in T; other root sets are skipped",
                 "the accuracy 'commensurate with conditioning' of the cubic solver is C eps (cond + S sqrt(S/sep)): Cardano's formula builds "
                 "every root from terms of the size S of the largest root, and its trigonometric branch loses sqrt(S/sep)",
                 "integer-element colour conversions truncate; where model*max is within 32 eps*max of an integer either neighbour is accepted",
                 "Imath::floor<double> on (-2^31,-2^31+1) wraps an intermediate int although the result is representable: its value is checked "
                 "in the ref build and the sliver is not driven in the ASan/UBSan build",
                 "inputs are finite (NaN only for succ/pred/finite), int pairs whose intermediate expressions overflow are outside the quantifier",
                 "gcc on x86-64, SSE arithmetic without FMA contraction"],
    technique=("exhaustive execution over all 2^32 floats (floor/ceil/trunc, succf/predf/finitef), all 2^32 packed colours, all 2^24 uchar "
               "colours and a complete int grid; class-directed sampling elsewhere; oracles: glibc, bit-level models, int64 identities, "
               "higher-precision definitions, polynomials with known roots, textbook HSV models; ASan/UBSan on a sampled sweep"),
    level_text=("Every float is pushed through floor/ceil/trunc/succf/predf/finitef and every packed colour through the packed round trip on "
                "every run, all 2^24 unsigned-char colours through four colour conversions, and the complete grid of a boundary-heavy int "
                "set through the four division functions; these parts leave no input of their space unexplored. Doubles, (a,b,t) triples, "
                "polynomial coefficient tuples and real-valued colours can only be sampled: about 4*10^7 (quick) / 3.5*10^9 (thorough) "
                "class-directed cases per run, each judged by an oracle that shares no code with the library."),
    level_note=("floating tolerances are calibrated engineering bounds (8x the worst ratio seen on >= 10^7 cases), a regression of a few ulps "
                "inside them is invisible except on the exact lattices; ill-conditioned root sets and predicates within rounding of their "
                "threshold are skipped/accepted and counted"),
    monitors=[M("c17_utils", ["c17_fun.cpp", "c17_roots.cpp", "c17_color.cpp"], san_scale=0.05, san_scale_thorough=0.02)],
)
