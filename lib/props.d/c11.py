# C11 registry entry (M is injected by lib/props.py)
PROP = dict(
    title="Euler angles round-trip through matrices and quaternions in all 24 orders",
    rule=("Every sub-check cycles deterministically through the 24 Order enumerators (order = idx mod 24; the 12 non-repeated ones for the "
          "XYZ-layout check, the 6 non-repeated static ones for makeNear) and through 32 class slots, for float and double. Angle triples: "
          "uniform in [-pi,pi], +-4 periods, middle angle exactly at and within 1e-k (k=1..15) of +-pi/2 (0/+-pi for repeated orders), "
          "also shifted by whole periods, quarter-turn multiples, 0/pi multiples, tiny angles. Rotations to extract from: random unit "
          "quaternions, exact signed permutation matrices, rotations composed in long double with the middle angle of THIS order at / "
          "within 1e-k of gimbal lock, tiny and near-180-degree rotations; each as Matrix33, embedded Matrix44, Matrix44 with a translation, "
          "and as a quaternion. Oracle: the rotation composed from three elementary axis rotations in long double (axis sequence parsed from "
          "the enumerator NAME for static orders and from the documented legend digits of its value for rotating orders), an independent "
          "long double quaternion<->matrix conversion, bit comparison for toMatrix33/toMatrix44, extract(M33)/extract(M44), constructor/"
          "setXYZVector/toXYZVector. A case is distinct by the hash of (order, type, input angles or matrix); every generated case is "
          "non-trivial (non-zero rotation classes dominate; the all-zero triple occurs only in the 0/pi class)."),
    assumptions=["glibc sinl/cosl/remainderl/sqrtl (x87 long double) are accurate to well below double eps (reference composition)",
                 "static orders mean: first letter's axis first, about fixed axes, row-vector convention, as documented in the class comment; "
                 "rotating orders are judged against the documented legend digits of the enumerator value, NOT against their names "
                 "(10 of the 12 'r' names do not spell the rotation their value encodes - recorded as an observation)",
                 "'identical angles' for a 4x4 that carries a translation means equal modulo 2 pi (a translation can turn a -0 inside N*M into +0, "
                 "i.e. -pi into +pi); for the pure embedding the angles must be bit-identical",
                 "angleMod/makeNear family is judged at single precision relative to max(pi, |arguments|) because angleMod returns float for every T",
                 "gcc on x86-64 without FMA contraction; -O2 (ref) and -O1 ASan/UBSan builds"],
    technique=("class-directed random execution of the real Euler/Matrix/Quat code against a long double compositional reference; "
               "bit-exact differential checks between the textual copies (toMatrix33/44, extract 3x3/4x4); ASan/UBSan on a sampled sweep"),
    level_text=("All 24 orders, both scalar types and every entry point named in the statement are driven on every run: 9.6*10^6 (quick) / "
                "1.2*10^8 (thorough) Euler->matrix/quaternion cases, 7.7*10^6 / 9.6*10^7 extraction cases (x 5 extraction entry points), all 576 "
                "re-ordering pairs (1.2*10^6 / 4.6*10^7 cases), 4*10^6 / 10^8 MatrixAlgo extractor cases, 1.6*10^7 / 2*10^8 angleMod and "
                "7.7*10^6 / 9.6*10^7 makeNear-family cases, and the gimbal-lock neighbourhoods 1e-1..1e-15 of each order deterministically. The angle space itself "
                "(2^96 / 2^192 triples) is sampled, not exhausted."),
    level_note=("angle triples and rotations are sampled; huge angles (beyond +-4 periods, +-1000 periods for angleMod) are not driven; the names of "
                "the rotating-frame enumerators are not judged"),
    monitors=[M("c11_euler", ["c11_euler.cpp", "c11_extract.cpp", "c11_near.cpp"], san_scale=0.05, san_scale_thorough=0.01)],
)
