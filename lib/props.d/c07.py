# C07 registry entry (M is injected by lib/props.py)
PROP = dict(
    title="Throwing and non-throwing variants of every operation agree",
    rule="tbd",
    assumptions=[],
    technique="tbd",
    level_text="tbd",
    level_note="tbd",
    monitors=[M("c07_variants", ["c07_vec.cpp", "c07_matrix.cpp", "c07_frustum.cpp"], san_scale=0.05)],
)
