# C07 registry entry (M is injected by lib/props.py)
PROP = dict(
    title="Throwing and non-throwing variants of every operation agree",
    rule=("Every checked/unchecked pair is executed on the same generated input and the pair of outcomes - value bits or dynamic type of the "
          "exception - is judged: Vec2/3/4<float,double> normalizeExc/normalizedExc vs normalize/normalized/normalizeNonNull/normalizedNonNull "
          "(11 vector classes: signed zeros, one/all subnormal, |v|^2 around 2*min, underflowing/overflowing squares, max, mixed, benign, lattice, "
          "any exponent); Vec3(Vec4<T>) vs Vec3(Vec4<T>,INF_EXCEPTION) (w in {+-0, subnormal, <1, 1+-3ulp, >=1} x numerators {max*|w|+-2ulp, benign, "
          "zero, huge, subnormal, any}); Matrix22/33/44 inverse/invert and Matrix33/44 gjInverse/gjInvert with (true) vs (false) vs () "
          "(12 matrix classes incl. exactly singular, |det| around 1, power-of-two permutation blocks exactly on / one to two representable values "
          "beside the guard value |cofactor|/|det| = 1/min, random row/column-scaled blocks within 2^+-3 of it and fine-tuned to within a few eps "
          "of it, tiny, huge, near-singular; affine and general paths); Frustum projectionMatrix, aspect, localToScreen (through a derived class), "
          "projectPointToScreen, normalizedZToDepth, ZToDepth, DepthToZ, screenRadius, worldRadius, set(fov) vs their Exc twins (right-left, "
          "top-bottom, far-near in {0, subnormal, around 2/max, around 2*near/max, tiny, one ulp, around 1, huge, reversed}; p.z, near, depth in "
          "{0, subnormal, around the guard value +-3 ulp, around 1, benign, huge}; zval at the pole of the depth mapping); 11 Matrix44 and 8 Matrix33 "
          "decomposition entry points and checkForZeroScaleInRow (Vec3, Vec2) with exc=true vs exc=false (12 matrix classes incl. zero row, zero "
          "block, axis-aligned parallel rows, 2^k-multiple rows, nearly parallel rows, tiny, huge, mixed dynamic range). The class is idx mod K, so "
          "every class occurs in every run. Cases are distinct by a hash of all input bits (per-thread table, a lower bound); a case is non-trivial "
          "when it is not a duplicate - the boundary classes are about 90 % of all cases."),
    assumptions=["inputs are finite (NaN inputs are excluded: every guard is a comparison, NaN trivially takes one branch)",
                 "two NaN results count as identical whatever their sign/payload; everything else, including the sign of zero, is compared bit for bit",
                 "the unchecked form's failure report is: normalisation - the null vector for a null input; matrix inverse - the identity for a matrix that is not (value-)equal to the identity; decomposition - false / the input matrix (documented in ImathMatrixAlgo.h); the unchecked Frustum methods and Vec3(Vec4) have no failure report",
                 "guard tightness is judged on the exact quotient of the guarded division (from the exact inputs, in __float128); where the library's own operands (cofactors, determinant, three-term sums) carry rounding error the demand is relaxed by the a-priori bound 8 eps sum|terms| + 16 denorm_min and inputs whose bound exceeds 1/2 (1/4 for Frustum) of the value are skipped and counted",
                 "DepthToZ/DepthToZExc convert a floating value to long: the pair is driven only where that value is provably inside the long range (|value| < 2^60), the Exc form alone where its guard provably fires first; z ranges are limited to |z| < 2^31 (the library stores zmax - zmin in an int)",
                 "normalizeNonNull/normalizedNonNull are not called on the null vector (documented precondition)",
                 "gcc on x86-64 (SSE2 arithmetic, no FMA contraction); other compilers' code generation is not observed"],
    technique=("differential execution of checked vs unchecked entry points on class-directed boundary inputs with exception-type classification "
               "(typeid of the caught std::exception); __float128 exact-quotient oracle for guard tightness (Leibniz determinants/cofactors, exact "
               "Gram-Schmidt for the decomposition); ASan/UBSan on a sampled sweep"),
    level_text=("For each of the ~60 checked/unchecked entry-point pairs, 3*10^5 - 1.5*10^6 (quick) / 10^7 - 6*10^7 (thorough) inputs per element "
                "type are pushed through both members and the outcomes compared bit for bit; the inputs are concentrated on both sides of every "
                "guard (exact equality with the guard value and 1-3 representable values beside it are generated deterministically), so an edit to "
                "one textual copy, a guard that moved, a dropped throw, an ignored exc flag or a wrong exception type shows on the first few cases "
                "of the affected class. Inputs are sampled, not enumerated: a discrepancy confined to a set of inputs no class reaches would be missed."),
    level_note="sampled inputs (class-directed); NaN payloads not compared; long-valued DepthToZ only where the conversion is defined; z ranges beyond int not driven",
    monitors=[M("c07_variants", ["c07_vec.cpp", "c07_matrix.cpp", "c07_frustum.cpp", "c07_decomp.cpp"], san_scale=0.05, san_scale_thorough=0.01)],
)
