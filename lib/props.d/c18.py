# C18 registry entry (M is injected by lib/props.py)
PROP = dict(
    title="Random generators are deterministic, range-correct and rand48-compatible",
    rule=("rand48_states: 48-bit states, 18/32 drawn uniformly and 14/32 from boundary classes chosen by idx mod 32 (0, 2^48-1, the states whose successor is 0 / 2^48-1 / has its high 31 "
          "or high 16 bits all ones or all zero / is a 0,1,0x7fff,0x8000,0xffff word combination / a single bit / within 15 of either end, computed with the inverse LCG step); from "
          "each state Imath's nrand48 and erand48 are both called and 6 further calls are chained on the same array; after every call the return value and the caller's array are "
          "compared with the platform's ::nrand48/::erand48 run on a copy and with an independently written LCG (integers and states exactly, erand48 |diff| < 2^-48 and 0 <= x < 1). "
          "call_histories: call sequences of length 1..64 (1 and 64 forced) over 3 caller-owned arrays, the static state (srand48 with 10 seed classes: 0, -1, 0xffffffff, bits above 32, "
          "LONG_MAX, LONG_MIN, random, seeds solved so that the first draw is extreme; lrand48, drand48 tracked against ::srand48/::lrand48/::drand48 and the LCG through the whole "
          "history and by one closing draw), two same-seed Rand48, two same-seed Rand32 and an unrelated generator of each kind executing nextb/nexti/nextf/nextf(a,b)/init/samplers; the "
          "twins follow one script at different paces and must agree position by position and with a third same-seed generator run alone afterwards. "
          "member_sequences: per index one Rand32 and one Rand48 sequence of 10^4 member calls from a random / extreme seed or an injected extreme state, every call range-checked "
          "(nextf in [0,1), nexti in [0,2^32) resp. [0,2^31), nextb a 0/1 byte, nextf(a,b) outside the closed interval by at most 8 roundings of the larger end point, a,b from 8 classes "
          "incl. reversed, equal, +-FLT_MAX/DBL_MAX, subnormal), Rand48 members compared with ::nrand48/::erand48 applied to the observed state, then replayed on a twin constructed in "
          "differently pre-filled storage. sphere_gauss_samplers: Vec2/3/4 x float/double x Rand32/Rand48 (idx mod 12), 4 rounds of solidSphereRand (|v|^2 <= 1 + 8 eps in long double, worst seen 0.84 eps), "
          "hollowSphereRand (| |v| - 1 | <= 16 eps, worst seen 1.47 eps), gaussRand and gaussSphereRand (finite) per generator state (random / extreme seed, injected boundary state), "
          "each draw repeated on a same-state twin. A start-up probe and a watchdog turn a non-terminating rejection loop into a violation instead of a hang. "
          "Distinct cases: states / histories / (generator, state, combination) by hash (uniform states every 4th: a lower bound, capped by the framework), each position of a randomly seeded "
          "sequence counts as one case; all are non-trivial (each is one judged call or call sequence)."),
    assumptions=["the platform's nrand48/erand48/srand48/lrand48/drand48 (glibc) implement POSIX; they are cross-checked against an independent LCG model on every call",
                 "Rand32/Rand48 are observed and put into extreme states through their object representation (both are trivially copyable standard-layout classes of 8 resp. 6 bytes)",
                 "unsigned long is 64 bits (LP64); 'documented range' of Rand32::nexti is the header's [0 ... 0xffffffff]",
                 "'up to one rounding' is read as: distance outside [min(a,b),max(a,b)] <= C*(eps*max(|a|,|b|) + denorm_min); a-priori bound C=1, worst observed 0.997 in 4.6*10^9 calls, monitored at C=8",
                 "the static state before the first srand48 of the process is not part of the statement (every history seeds first)",
                 "statistical quality of the sequences is not judged"],
    technique=("model-based differential execution: every call of the rand48 family is compared with two independent oracles (POSIX libc, own LCG) after each step of generated call "
               "histories; metamorphic twin/replay comparison for purity; geometric post-conditions in long double for the samplers; class-directed boundary states via the inverse LCG; "
               "ASan/UBSan on a 5 % (thorough: 2 %) sweep"),
    level_text=("Each run executes 1.6*10^8 (quick) / 1.0*10^10 (thorough) judged rand48 calls from 2*10^7 / 1.28*10^9 start states with every named boundary class hit deterministically, "
                "4*10^5 / 2.4*10^7 mixed call histories, 2*10^8 / 1.2*10^10 generator member calls (10^4 / 6*10^5 seeds and extreme states x 10^4 positions x two generators) and 3.8*10^7 / "
                "3.8*10^9 sampler draws. The 2^48 states, 2^64 seeds and the call sequences are sampled, not enumerated; because the update is one 64-bit multiply-add with fixed constants and "
                "the outputs are fixed bit-fields of the state, the uniform sample plus the carry/overflow boundary classes leave little room for a state-dependent defect."),
    level_note="states, seeds and histories are sampled; positions beyond 10^4 in one sequence are not visited; only glibc is used as the POSIX reference",
    monitors=[M("c18_random", ["c18_random.cpp", "c18_samplers.cpp"], san_scale=0.05, san_scale_thorough=0.02)],
)
