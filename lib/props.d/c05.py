# C05 registry entry (M is injected by lib/props.py)
PROP = dict(
    title="Products, transposes, minors, determinants equal their algebraic definitions",
    rule=("Every case is a pure function of (seed, sub-check, index); its input class is index mod 9: dense (uniform in [-1,1] times one "
          "power of two per operand), logscale (every entry +-m*2^e), integer lattice (-8..8), sparse (half the entries +-0), affine (last "
          "column exactly (0,..,0,1)), zero_lastcol (a non-empty random subset of the last column is +-0: the zero-skipping branches of "
          "Matrix44::determinant), lattice_sparse, signed_zero ({+0,-0,+1,-1,dense}), scaled permutation matrices. Each index drives all "
          "dimensions of its function family (2/3/4) and all spellings (member / operator / compound / static, also dst aliasing src and "
          "A*=A). Results are compared entry by entry with the textbook sum written as loops over indices (Leibniz permutation sums for "
          "determinants and minors, Levi-Civita loop for cross, Hamilton basis table for quaternions) in long double (float) or __float128 "
          "(double): |got-ref| <= C*eps*sum|terms|; on the two lattice classes equality is exact; outerProduct and transposes are exact for "
          "every class; spellings are compared bit for bit. Homogeneous forms (Vec2 x M33, Vec3 x M44): reference (v,1)*M divided by its last "
          "coordinate, bound C*eps*(S_j+|x_j|S_w)/|w|, cases with |w| < 1e-3*sum|terms of w| are skipped and counted. A case is counted as "
          "distinct non-trivial when at least one result has a non-zero term (for transposes: the matrix is not symmetric); distinctness is "
          "by a 64-bit hash of the operand bit patterns, capped by the framework (a lower bound)."),
    assumptions=["operands are finite and well scaled (no overflow, no subnormal intermediate products): entry magnitudes within about 2^-21..2^21 for the vector, "
                 "quaternion and outer products, 2^-31..2^31 for transposes and traces, 2^-11..2^11 for matrix / vector-matrix products, minors and "
                 "determinants, 2^-5..2^5 for det(A*B)",
                 "long double (64-bit significand) and libquadmath __float128 arithmetic are correct; they make the reference error negligible "
                 "(<= 2^-40 of the bound)",
                 "bit-for-bit agreement of spellings is observed for gcc -O2 and -O1 on x86-64 without FMA contraction; another compiler may "
                 "legitimately contract differently in two textual copies",
                 "aliasing dst with src in multVecMatrix/multDirMatrix and A*=A are treated as legal calls; Matrix44::multiply(a,b,c) is never "
                 "called with c aliasing a or b (documented precondition)"],
    technique=("class-directed random and integer-lattice execution of every product entry point against index-loop reference sums in a wider "
               "type with calibrated rounding bounds; exact equality on lattices; bitwise comparison of spellings; algebraic relations "
               "between different entry points; ASan/UBSan on a sampled sweep"),
    level_text=("Operand spaces are continuous, so this is sampling: 2.5*10^7 case indices per quick run and 1.1*10^9 per thorough run (each index "
                "drives every dimension and every spelling of its function family: 1.3*10^8 / 5*10^9 judged executions), spread "
                "deterministically over 9 input classes per function family, float and double (plus mixed Vec<float> x Matrix<double> and "
                "Vec<double> x Matrix<float>). Because dense operands "
                "make every term of every unrolled sum matter and lattice operands are judged exactly, a wrong index, sign or operand in any "
                "single term is a hard mismatch on essentially every case rather than a rare event."),
    level_note=("bounds C (units eps*sum|terms|) vs worst ratio observed on the pristine tree over 1.13*10^9 indices: dot 16 (1.91), cross 8 (0.994), "
                "quaternion 16 (1.86), matrix product 16 (1.92), vector x matrix 16 (1.93), homogeneous 24 (1.53), trace 16 (1.50), determinant 40 (3.00), "
                "minors 40 (2.21), relations 96 (4.08): each >= 8x the worst ratio, so regressions of a few ulps are invisible except on lattices; "
                "operands that overflow, underflow or are non-finite are outside the sampled space; homogeneous results with |w| < 1e-3*sum|terms of w| "
                "are skipped (0.05% of the cases) as are exact w = 0 (sparse/lattice classes); gcc 12.2 -O2 (SLP vectorizer) drops a "
                "double->float->double round trip through a local temporary, so a float-typed temporary slipped into a double path is visible "
                "only in the -O1 sanitizer configuration of this check"),
    monitors=[M("c05_products", ["c05_products.cpp", "c05_products_mat.cpp", "c05_products_det.cpp"], san_scale=0.05, san_scale_thorough=0.01)],
)
