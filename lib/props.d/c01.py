# C01 registry entry (M is injected by lib/props.py)
PROP = dict(
    title="float<->half conversion is exact IEEE-754 binary16, round-to-nearest-even",
    rule=("Exhaustive enumeration of all 2^16 half and all 2^32 float bit patterns through imath_half_to_float, "
          "imath_float_to_half, half(float).bits() and float(half); each result is compared with an arithmetic binary16 "
          "model (ldexp/ilogb/nearbyint) and with the CPU's F16C instructions. Enumerated inputs are distinct by "
          "construction; a case counts as non-trivial when it is a tie, has a subnormal result, is a NaN/inf, or lies "
          "within 64 ulps of the overflow/flush thresholds (half->float: every pattern). "
          "fp_environment_independence re-runs blocks of 2^16 inputs under 4 rounding modes x FTZ/DAZ."),
    assumptions=["the FPU implements ldexp/ilogb/nearbyint(FE_TONEAREST) and F16C correctly",
                 "gcc 12 on x86-64; other compilers' code generation is not observed"],
    technique="exhaustive execution (2^32 + 2^16 inputs) with arithmetic binary16 reference model + F16C hardware oracle; ASan/UBSan on a sampled sweep",
    level_text=("Every one of the 2^32 float and 2^16 half bit patterns is pushed through the real conversion code on every run "
                "(quick and thorough alike) and compared with two independent oracles; for the configuration that is built "
                "(gcc, x86-64, table path) this leaves no input unexplored, which is as strong as runtime monitoring gets."),
    level_note="trusts glibc ldexp/ilogb/nearbyint and the CPU's F16C unit as oracles; other compilers/architectures are not executed",
    monitors=[M("c01_half", ["c01_half.cpp", ("c01_f16c.cpp", "-mf16c")], san_scale=0.02, san_scale_thorough=0.1)],
)
