# C02 registry entry
PROP = dict(
    title="Every half-conversion back-end and language mode returns identical bits",
    rule=("half.h is compiled into separate translation units under each configuration {C++14/17/20} x {lookup table, "
          "IMATH_HALF_NO_LOOKUP_TABLE}, cmake option IMATH_HALF_USE_LOOKUP_TABLE=OFF (C and C++), plain C (table / no table), "
          "-mf16c (C and C++), -O0 and -O3 bit-shift builds; each exports the two C conversion functions (C++ TUs also the "
          "class constructor / cast). All 2^32 float patterns and all 2^16 half patterns are pushed through every "
          "configuration and compared bit for bit with the C++14 table build (which C01 ties to the arithmetic model); on "
          "F16C configurations NaN results are compared on NaN-ness and sign only. The generator toFloat.cpp is compiled and "
          "run on every check and its 65,536 printed entries are compared with toFloat.h and with the table in libImath. "
          "Inputs are distinct by enumeration; every input is non-trivial here because each one is a differential test "
          "across >= 14 configurations."),
    assumptions=["gcc 12 / x86-64 only; MSVC, clang and CUDA branches of half.h are not compiled",
                 "F16C configurations run only if /proc/cpuinfo lists f16c (otherwise reported as skipped)"],
    technique="exhaustive differential execution of separately compiled build configurations (2^32 + 2^16 inputs each); generator program re-run and diffed against shipped table; ASan/UBSan on a sampled sweep",
    level_text=("Exhaustive over the full input space for every configuration that this toolchain can build; a divergence "
                "in any #if branch, language mode or table entry is observed directly rather than inferred."),
    level_note="compares configurations with each other; absolute correctness of the reference configuration is C01's job",
    custom="c02",
)
