# C19 registry entry (M is injected by lib/props.py)
PROP = dict(
    title="PyImath arrays index like Python sequences and honour read-only protection",
    rule=("Five workloads drive the real imath extension module built from /repo (ASan+UBSan build; thorough also the -O2 build) from child "
          "interpreters. (1) c19_index: for each of the ~56 1-D FixedArray classes and every length 0..4 (thorough 0..6): every integer index in "
          "-7..7, every slice with start/stop in {None,-6..6} and step in {None,+-1,+-2,+-3} (get, scalar set, array set with right and wrong "
          "lengths), every 0/1 mask (and masks using 2/-1 as 'true') of the right length plus wrong lengths (masked reference read, write through "
          "by index/slice/array/mask, mask-indexed scalar and array stores with full-length, reduced-length and wrong-length sources, ifelse), and "
          "every write form on a read-only array, its masked references, aliases, element references and component views; each result is compared "
          "with the same operation on a Python list; the index and mask groups run a second time on strided component views (IntArray = V3iArray.y, "
          "V2iArray = Box2iArray.min, FloatArray = QuatfArray.r, ... 10 view kinds) both as the array under test and as the source of assignments. A case is distinct by (class, length, index/slice/mask); all are non-trivial (they select). "
          "(2) c19_seq: random 40-step operation sequences per class over a pool of arrays, aliases, masked references, element references and "
          "slice copies derived from one another (get/set/mask/makeReadOnly/in-place +,-/ifelse/release+gc), every live object compared with an "
          "alias-tracking model after every step; distinct by hash of the executed trace. (3) c19_nd: FixedArray2D (5 classes), FixedMatrix (3) and "
          "FixedVArray (4) against nested lists for every integer index and forward slice per dimension over sizes 0..3 (0..4), masks, 1-D and "
          "2-D sources (variable-array rows from dense, strided-view and masked-reference sources), wrong shapes and malformed indices. (4) c19_life: every kind of view in chains owner->view->view with the owners released "
          "in every order, gc and allocator churn in between, then read/written. (5) c19_buffer: StringArray/WstringArray store/readback "
          "histories; memoryview export of every exporting class (nbytes, shape, bytes, readonly, write-through, writable requests on read-only "
          "arrays, strided component views); ...ArrayFromBuffer with array.array sources of all 12 typecodes x shapes x lengths."),
    assumptions=["CPython 3.11 and Boost.Python 1.83 as installed; the interpreter itself is not instrumented (PYTHONMALLOC=malloc makes its blocks visible to ASan)",
                 "the vptr sub-check of UBSan is disabled for the PyImath build (Boost.Python reads a destroyed holder's vptr; not PyImath code)",
                 "'raises' means any Python exception; the exception type is not part of the statement",
                 "the read-only flag is modelled per Python object and inherited by views derived after makeReadOnly(); a writable alias created before "
                 "makeReadOnly() may still write to the shared storage (the statement speaks of writes 'through' the read-only object)",
                 "masking a masked reference and mask-assigning an array to a masked reference may be refused (documented restrictions) but must not corrupt",
                 "FixedArray2D negative-step slices are not claimed by the statement and not judged"],
    technique=("model-based runtime monitoring: exhaustive small-scope and random operation histories on the real extension module checked step by step "
               "against Python list / nested-list / alias models; ASan+UBSan (LD_PRELOAD into CPython) decides out-of-bounds access and view lifetimes; "
               "crashes attributed per scenario"),
    level_text=("Small scopes are enumerated completely per class (all indices, slices, masks for lengths <= 4 resp. 6; all index/slice pairs per dimension "
                "for 2-D sizes <= 3 resp. 4; all release orders of chains up to 3 views); longer histories are sampled (6 resp. 60 sequences of 40 steps per "
                "class). Memory safety and lifetimes are decided by AddressSanitizer on exactly those executions."),
    level_note="scopes are bounded; ASan misses intra-object overflows and reuse after quarantine; only gcc/CPython 3.11/Boost 1.83 are executed",
    custom="c19",
)
