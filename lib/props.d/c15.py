# C15 registry entry (M is injected by lib/props.py)
PROP = dict(
    title="Line, plane, sphere, triangle primitives satisfy their geometric definitions",
    rule=("Random and constructed configurations, float and double, one sub-check per function family and type (30 sub-checks). "
          "Every case is a pure function of (seed, sub-check, index); the boundary class is index mod K, so each class is hit "
          "deterministically: line/point (10 classes: lattice, axis aligned, point on / near the line, far along, large offset, "
          "point == pos, scales 2^-20 / 2^20); line/line (18 classes: skew, lattice, intersecting, perpendicular, nearly parallel "
          "with sin graded 0.3 .. 1e-7, one-ulp direction perturbation, exactly parallel with identical / negated / constructor-built "
          "directions); planes from the three constructor and the three set() forms with moderate / lattice / large-offset / "
          "wide-exponent coordinates and graded thinness of the defining triangle; reflection of points at graded heights; "
          "line-plane crossing at graded angles down to cos 1e-7, exactly parallel and in-plane lines; plane*matrix for rotation, "
          "positive scale, shear, translation, rigid, composed affine, integer unimodular, reflection and identity matrices with 4 "
          "points of the plane and 3 off-plane test points per case; sphere/line with the origin outside (hit, pointing away, miss), "
          "inside, at the centre, exactly on the sphere (Pythagorean quadruples), on it after rounding, graded tangency 1e-1..1e-9, "
          "large offsets, tiny and huge radii; circumscribe on 6 box classes; line/triangle aimed at chosen barycentrics: interior, "
          "+-10^-1..10^-7 from an edge or a vertex on either side, far outside, back facing, triangle behind the line origin, large "
          "offset, slivers, lattice, exact edge midpoints, grazing, exactly degenerate (repeated vertex, collinear lattice points) and "
          "exactly parallel; closestVertex (point form for Vec2/3/4, line form) with graded near-ties; rotatePoint with quarter "
          "turns, tiny angles, many turns, points near / on the axis; project/orthogonal/reflect on Vec2/3/4 pairs (parallel, "
          "perpendicular lattice, nearly parallel, |s| below the lengthTiny threshold, magnitudes 2^+-40). "
          "Oracle: the stored members of the Imath objects (pos, dir, normal, distance, centre, radius, matrix entries, vertices) are "
          "converted exactly to long double (float cases) / __float128 (double cases) and the geometric definition is evaluated there "
          "with loops over indices (normal equations with the true |dir|^2, exact quadratic with A = dir.dir, sub-triangle area "
          "ratios for barycentrics). Each verdict is `error <= B * eps * (magnitude formula)`; the formula carries the conditioning "
          "(1/sin^2 for closest points of two lines, 1/cos for plane parameters, L^2(M+L)/A for planes through three points, aspect "
          "ratio and 1/cos for triangle hits, (B^2+4A(v.v+r^2))/sqrt(disc) for sphere roots) and the worst error/formula ratio is "
          "recorded. Truth-valued results (hit / miss, side, front) are judged only outside the margin the same formula gives; cases "
          "inside it are counted as skipped_*. Line pairs with |sin| < 1e-3 that are not exactly parallel are only required to give "
          "finite results and points on their lines; for exactly parallel lines (bit-identical or negated stored directions) distanceTo "
          "must equal the point-line distance and closestPoints must either return false or a genuinely closest pair "
          "(key closestPoints.<type>:parallel_lines_true_but_not_closest); closestPoints == false is accepted while sin^2 < 64 eps. "
          "Calibration (thorough tier, 1.1*10^9 cases, pristine tree): worst error/formula ratios 0.3 .. 14.7, every bound B is >= 8x "
          "the worst ratio of its check (B = 8 .. 128, see the constants at the top of the three sources). A case is distinct by the hash of its stored inputs (capped lower bound); every "
          "generated case is non-trivial (no class is a no-op)."),
    assumptions=["long double / libquadmath arithmetic (+ - * / sqrt sin cos) is correct to its own precision",
                 "Line3::dir is what Line3's constructor (or a copy / negation of such a direction) stores: the functions' documented precondition 'direction is normalized' is honoured",
                 "coordinates are moderate (|x| <= ~2^20, vector-algebra functions up to 2^+-40 and down to the lengthTiny range): overflow of squared lengths is outside the statement",
                 "plane * matrix is driven with affine matrices (last column 0,0,0,1); orientation preserving = positive determinant of the upper 3x3 block",
                 "reflectVector / reflect are judged against their implemented and mutually consistent convention 2(n.v)n - v (normal component kept, tangential component negated); the sense of rotatePoint against the convention fixed by PyImathTest (l.rotatePoint((2,2,0), pi/2) about +x = (2,0,-2)), i.e. -angle relative to setAxisAngle",
                 "circumscribe is additionally required to be tight (the header says 'tightly encloses'), reported under its own key circumscribe.*:not_tight",
                 "gcc on x86-64 without FMA contraction; other compilers' code generation is not observed"],
    technique=("class-directed randomised execution of the real templates with an extended-precision geometric oracle and conditioning-aware "
               "tolerance formulas (calibrated: bound >= 8x the worst ratio seen on the pristine tree); exact lattice constructions for "
               "parallel / degenerate / on-sphere / in-plane cases; ASan/UBSan on a 5% sample"),
    level_text=("All five headers' functions named in the statement are executed on 2.7*10^7 (quick) / 1.1*10^9 (thorough) configurations "
                "per run in float and double, every result judged against an independent extended-precision evaluation of the geometric "
                "definition with a tolerance of a few dozen rounding units of the conditioned magnitude; exact degeneracies (parallel lines, "
                "zero-area triangles, origin on the sphere, line in the plane) are constructed on integer lattices so that their handling is "
                "observed rather than hoped for. The input space is continuous, so this is sampling, not exhaustion."),
    level_note=("sampling of a continuous space; truth-valued results inside the rounding margin (near-tangent, hits within ~10 tolerance units of an edge, "
                "line pairs with |sin| < 1e-3) are skipped and counted, not judged; huge coordinates (overflowing squares) and projective matrices are not explored"),
    monitors=[M("c15_geom", ["c15_line.cpp", "c15_plane.cpp", "c15_tri.cpp"], san_scale=0.05, san_scale_thorough=0.02)],
)
