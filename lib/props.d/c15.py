# C15 registry entry (M is injected by lib/props.py)
PROP = dict(
    title="Line, plane, sphere, triangle primitives satisfy their geometric definitions",
    rule="TBD",
    assumptions=[],
    technique="TBD",
    level_text="TBD",
    level_note="TBD",
    monitors=[M("c15_geom", ["c15_line.cpp", "c15_plane.cpp", "c15_tri.cpp"], san_scale=0.05)],
)
