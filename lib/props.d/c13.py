# C13 registry entry (M is injected by lib/props.py)
PROP = dict(
    title="Box/Interval are closed axis-aligned point sets; box transforms are tight",
    rule=("Model: a box is the set {p : min <= p <= max} on an integer lattice. Enumerated completely: every box with min,max in "
          "{-2..2}^d (d=2,3; {-3..3} for Interval; Vec4: {-1..1}^4 quick, {-2..2}^4 thorough; inverted boxes included) x every lattice "
          "point one step beyond, for Box<Vec2<T>>, Box<Vec3<T>>, the generic Box template instantiated on thin wrappers derived from "
          "Vec2<T>/Vec3<T> (same data as the specialisations) and on Vec4<T>, and Interval<T>, T in {short,int,int64_t,float,double,half}: "
          "intersects(point) = membership; isEmpty/hasVolume/isInfinite/size/center/majorAxis = their definitions from min/max (specialisation "
          "and generic compared directly where the definition leaves freedom); clip/closestPointInBox = nearest lattice point (exact squared "
          "distances, d-dimensional brute force cross-check); intersects(box) in both directions on all unordered pairs of lattice boxes "
          "({-3..3} Interval, {-2..2}^2, {-1..1}^3 quick / {-2..2}^3 thorough, {-1..1}^4, random pairs of the larger lattices) = 'the sets "
          "share a lattice point'; default/makeEmpty contain none and makeInfinite all of the extreme representable points; isInfinite on "
          "every subset of slots at the extremes. Histories: every sequence of extendBy(point|box|canonical-empty box) up to length 4 "
          "(Interval, d=2; d=3: length 3 over {-1,0,1}^3 and 4 over {-1,1}^3; d=4: 2 and 3) checked after every step against the running "
          "min/max, plus random sequences of 5..24 steps over the lattice and over extreme values. closestPointOnBox: all lattice boxes x "
          "points (6 element types) against brute force over the surface, and random float/double cases incl. exact and near ties. "
          "transform/affineTransform (4 overloads): integer affine and projective matrices x all 3375 non-empty lattice boxes -> exactly "
          "the bound of the 8 exactly transformed corners; random float/double boxes x matrices (8 scale classes) -> each face within "
          "24 eps sum|terms| (affine; 16 eps x the quotient bound on the projective path) of the __float128 extreme over the corners and 32 interior images contained; empty->empty, infinite->infinite "
          "for each overload with default / emptied / pre-filled out-parameters. Enumerated cases are distinct by construction; random cases "
          "are counted by a hash of their inputs; a lattice case is non-trivial when the point is on the boundary or adjacent outside, the "
          "box is inverted, the pair is disjoint/touching, or the point lies outside the box (clip)."),
    assumptions=["element types exercised: short,int,int64_t,float,double,half; dimensions 1 (Interval), 2, 3, 4; other instantiations are not executed",
                 "'every representable point' of makeInfinite is observed on the pool {lowest,max,their neighbours,0,-0,+-1,+-denormal,min normal}^d (infinities/NaN are not points)",
                 "center is judged on non-empty boxes (the header leaves it undefined for empty ones; the copies must still agree there); size/center on non-lattice values only for moderate magnitudes (no overflow)",
                 "extendBy(box) arguments are non-empty or the canonical empty box (makeEmpty), as in the property's design",
                 "transform on float data: magnitudes 1e-24..1e30 without overflow/underflow; projective matrices only with w of one sign and |w| >= 2% of sum|w terms|; affineTransform only with last column (0,0,0,1)",
                 "oracles trust integer arithmetic, IEEE division/comparison, long double and libquadmath"],
    technique=("exhaustive execution over integer lattices against a set model with exact arithmetic (membership, predicates, pairs, histories, "
               "closest points, integer matrices), differential comparison of the three template copies, sampled float/double execution against "
               "__float128 bounds with a calibrated formula tolerance; ASan/UBSan on a sampled sweep"),
    level_text=("The finite lattice part is enumerated completely on every run (about 7*10^8 judged evaluations quick, 10^10 thorough), so every "
                "comparison operator, every unrolled component and every axis of each of the six template copies is exercised on both sides of each "
                "boundary, including inverted boxes; what is sampled is the float/double coordinate space of transform and closestPointOnBox "
                "(10^6 / 4*10^7 cases per function) and the space of longer histories."),
    level_note="lattices are small (coordinates -3..3); float/double transforms and long histories are sampled; half boxes only on the lattice parts",
    monitors=[M("c13_box", ["c13_box.cpp", "c13_extend.cpp", "c13_algo.cpp", "c13_pairs.cpp"], san_scale=0.05, san_scale_thorough=0.02)],
)
