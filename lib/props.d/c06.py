# C06 registry entry (M is injected by lib/props.py)
PROP = dict(
    title="Matrix inversion returns a true inverse, or a clean singular outcome",
    rule="TODO",
    assumptions=[],
    technique="TODO",
    level_text="TODO",
    level_note="TODO",
    monitors=[M("c06_inv", ["c06_inv_float.cpp", "c06_inv_double.cpp"], san_scale=0.05, san_scale_thorough=0.01)],
)
