# C06 registry entry (M is injected by lib/props.py)
PROP = dict(
    title="Matrix inversion returns a true inverse, or a clean singular outcome",
    rule=("Every case is one Matrix22/33/44 (float and double are separate sub-checks) pushed through all spellings: inverse(), "
          "inverse(false), inverse(true), invert(), invert(false), invert(true) and, for 3x3/4x4, the same six gjInverse/gjInvert forms "
          "(throwing forms inside try/catch; a throw of std::invalid_argument counts as the singular outcome). "
          "accuracy_*: dimension = idx mod 3, generator kind = (idx/3) mod 8 {dense random, graded cond 10^k up to 10^(2.1*digits) built as "
          "U diag(s) V^T, two small singular values (1,10^-a,10^-b), integer lattice, unimodular lattice (|det| exactly 1), "
          "signed-permutation matrices needing pivoting, |det| = (1+d)^n around 1, scale sweep 2^-20..2^20} x {full, affine embedding "
          "(every 5th affine one with a last column that only looks affine)}; the reference inverse is Gauss-Jordan with full pivoting in "
          "long double (float) / __float128 (double); judged: max|X-Xref| <= C*cond_inf*eps*||Xref||_inf while C*cond*eps <= 1/2, "
          "no inf/NaN while cond < 1/(16 eps^2), in-place form bit-identical to its value form. Results of the 3x3 cofactor path on "
          "inputs with amplification ||B||_inf^2/||adj B||_inf > 8 that miss the bound by at most that amplification get the key suffix "
          ":sv_gap (known finding). "
          "singular_*: integer lattices with int64 determinant 0 (dependent row, rank 1, duplicate column, zero) scaled by 2^e, and "
          "zero row / zero column / identical rows / power-of-two multiple row with lattice or random-float entries; determinant paths "
          "must return the identity when all products are exact, Gauss-Jordan must when a zero pivot is structurally certain, otherwise "
          "finite-or-identity. overflow_guard_*: signed permuted power-of-two diagonal blocks with exact quotient 2^Q around the "
          "overflow threshold and |det| = 2^D around 1. affine_continuity_*: affine M vs M' with one last-column entry moved by one ulp. "
          "Distinct = hash of the matrix bits (lower bound, capped by the framework); every generated case is non-trivial except exactly "
          "singular draws of the accuracy generators (skipped and counted)."),
    assumptions=["long double / libquadmath __float128 arithmetic is correct (reference inverse; its own error ~cond*1e-19 resp. cond*1e-34 is negligible against the bounds)",
                 "cond is the infinity-norm condition number of the stored array; accuracy is judged only while C*cond*eps <= 1/2 (first-order regime) - beyond it only finiteness is required up to cond 1/(16 eps^2)",
                 "in the band max/8 <= |cofactor/det| <= max with |det| < 1 either the identity or the exact inverse is accepted (the library's guard is conservative by max*min ~ 4)",
                 "results of the 3x3 cofactor path on inputs with amplification > 8 are classified under the recorded known finding *:sv_gap",
                 "gcc on x86-64 without FMA contraction; other compilers' code generation is not observed"],
    technique=("class-directed random execution of all 12 inversion spellings against a full-pivoting Gauss-Jordan reference in a wider type; exact "
               "integer-lattice oracle for singular outcomes; exact power-of-two oracle for the overflow guard; ASan/UBSan on a sampled sweep"),
    level_text=("Per run 2.4*10^6 (quick) / 6*10^7 (thorough) matrices per element type through every spelling, with the condition number, "
                "determinant branch, affine test, pivoting need and guard threshold each forced by a generator class that must be observed "
                "(otherwise the run is inconclusive); singular and guard outcomes are judged exactly, accuracy by a calibrated multiple "
                "(>= 8x the worst pristine ratio) of cond*eps."),
    level_note="condition numbers, scales and perturbations are sampled on grids, not all floats; accuracy beyond cond ~ 1/(64 eps) is not judged (only finiteness)",
    monitors=[M("c06_inv", ["c06_inv_float.cpp", "c06_inv_double.cpp"], san_scale=0.05, san_scale_thorough=0.01)],
)
