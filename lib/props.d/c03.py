# C03 registry entry (M is injected by lib/props.py)
PROP = dict(
    title="half is a coherent numeric type: arithmetic, classes, limits, round(n)",
    rule=("Compound arithmetic: every half bit pattern as left operand of += -= *= /= against (quick) ~640 boundary half patterns in both "
          "operand orders, (thorough) all 2^16 right operands, i.e. all 2^32 ordered pairs, and against float right-hand sides drawn from "
          "21 boundary classes (left operand cycles through all patterns; class = idx mod 21). Each result is compared bit for bit with "
          "model_f2h(model_h2f(a) op b), an arithmetic binary16 model (ldexp/ilogb/nearbyint) around one IEEE float operation; a NaN result "
          "must be some NaN. Enumerated pairs are distinct by construction, float cases are distinct by hash(lhs, rhs bits), recorded for every 4th case only and capped by the framework (a lower bound); a case is "
          "non-trivial when at least one of its four results is inexact, a tie, subnormal, zero, overflowing, infinite or NaN. "
          "Classification/unary minus, text I/O, round(n) and 11 halfFunction tables are enumerated over all 2^16 patterns (every pattern "
          "counts as one distinct case; for round(n) a case is non-trivial when the result differs from the input or is truncated). "
          "numeric_limits/HALF_* are recomputed from scans over all patterns, from the behaviour of half(float)/float(half) and from decimal "
          "round trips (9 assertion groups)."),
    assumptions=["the FPU's single-precision + - * / are IEEE-754 correctly rounded (this is the 'operating once in float' of the statement)",
                 "glibc ldexp/ilogb/nearbyint/strtof/strtod/snprintf are correct (used by the binary16 model and the decimal round trips)",
                 "a NaN result is required to be a NaN, its sign and payload are not compared",
                 "text I/O is observed in the classic \"C\" locale at stream precision 6 (default) and 5",
                 "gcc on x86-64, table-based half->float path; other compilers' code generation is not observed"],
    technique=("exhaustive execution over all 2^16 patterns (all 2^32 ordered operand pairs x 4 operators in the thorough tier) with an "
               "arithmetic binary16 reference model; class-directed sampling of float right-hand sides; ASan/UBSan on a sampled sweep"),
    level_text=("Everything that depends only on half operands is enumerated completely (classification, negation, round(n) for 25 values of "
                "n, text round trips, 11 halfFunction tables on every run; all 2^32 operand pairs of the four compound operators in the "
                "thorough tier, 2^16 x ~640 boundary pairs in both orders in the quick tier) and judged bit-exactly. Float right-hand sides "
                "(2^48 combinations) can only be sampled: 2.1*10^7 (quick) / 5.5*10^8 (thorough) cases per run from boundary classes aimed at "
                "ties, thresholds and cancellation."),
    level_note="float right-hand sides are sampled; NaN payloads are not compared; locale-dependent stream formatting is not explored",
    monitors=[M("c03_halfnum", ["c03_halfnum.cpp"], san_scale=0.2, san_scale_thorough=1.0 / 256)],
)
