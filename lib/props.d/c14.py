# C14 registry entry (M is injected by lib/props.py)
PROP = dict(
    title="Ray-box and line-box intersection are geometrically exact",
    rule=("intersects(box,ray), intersects(box,ray,ip) and findEntryAndExitPoints(line,box,entry,exit) are executed for float and double on every case. "
          "lattice_*: every box with min,max in {-2..2}^2 x {-1..1} (all 5625 (min,max) pairs, inverted = empty included) x every origin in {-3..3}^2 x {-2..2} x every "
          "direction in {-2..2}^3\\{0} set directly in Line3::dir = 170,887,500 cases (thorough: x3 cyclic axis rotations so that each of the x/y/z blocks of the code sees the "
          "wide and the narrow range). halflattice_*: the 1350 non-empty boxes of that lattice (flat boxes in every axis included) x origins on the half-integer grid "
          "{-3,-2.5..3}^2 x {-2,-1.5..2} x the same directions = 254,623,500 cases per axis rotation (quick: rotation seed%3, thorough: all three). Both are judged by an exact "
          "rational slab test (int64 cross multiplication, loops over axes, no division); because all quotients are exactly representable, truth values and ip / entry / exit are "
          "compared with ==. wide_*: samples of the lattice {-8..8}/S (S=1,2,4), directions {-7..7}^3\\{0} from 8 class-directed generators (idx%8: generic, line through a "
          "corner, through an edge point, flat box, axis-parallel with the origin below/on/inside/on/above the slab, origin inside/on the surface, empty box, aimed/near miss; in half of the cases zero direction components are passed as -0.0); "
          "truth value exact (distinct quotients of such integers differ by > 1e-4 relative, equal ones round equally), points exact when the binding parameter has a power-of-two "
          "denominator, else inside the closed box, on its surface and within 16*eps*(|pos_j|+|t*dir_j|) of pos+t*dir. stress_*: real-valued boxes with moderate coordinates "
          "(integer, real, face at 0, size 1e-3; flat; empty), unit directions with components +0, -0, denormal, smallest normal, 1e-30, 2^-k - partly produced by Line3's own "
          "constructor - and un-normalised directions scaled by up to 2^125 / 2^1021, origins aimed at the box, exactly on face planes, inside, at denormal distance of a face at 0; "
          "oracle: the same slab loop in long double (float) / __float128 (double); a verdict is given only when every deciding comparison t_near(i) <= t_far(j) holds or fails "
          "with relative margin > 1e-4 (comparisons with an exact 0 are exact); near ties, underflowing quotients and quotients within 1e-3 of the overflow threshold are skipped "
          "and counted. Enumerated cases are distinct by construction; sampled cases are distinct by a hash of their 12 input values (every 4th recorded, capped by the framework: "
          "a lower bound). A case is non-trivial when the box is empty or flat, the line touches the box in a single point (edge/corner graze), a direction component is zero "
          "(axis-parallel, incl. lines inside a face plane), or the origin is inside / on the surface; in stress_* every judged case counts."),
    assumptions=["IEEE-754 binary32/binary64 arithmetic with correctly rounded + - * / in round-to-nearest, no flush-to-zero (the default environment of the build)",
                 "long double (x87, 64-bit significand) and libquadmath __float128 arithmetic are correct (stress oracle)",
                 "directions are non-zero and finite, box and origin coordinates are finite; NaN / infinite inputs are outside the statement and not driven",
                 "'on the ray to within rounding' is read as |p_j - (pos_j + t*dir_j)| <= 16*eps*(|pos_j| + |t*dir_j|) per component (worst observed ratio 1.76 over 2.8*10^9 sampled cases), plus 4 denormal quanta for results of denormal magnitude",
                 "stress part: 'moderate' box coordinates are |c| <= 10; a hit/miss verdict is only given when the exact decision has relative margin > 1e-4 in the ray parameter"],
    technique=("exhaustive execution over two finite lattices with an exact rational (int64) slab-test oracle and == comparison of all outputs; class-directed sampling of a wider "
               "lattice with the same oracle; class-directed float stress inputs against a long double / __float128 slab test with a robustness margin; ASan/UBSan on a sampled sweep"),
    level_text=("Both lattices are enumerated completely on every quick run (4.3*10^8 cases for each of float and double, every one through all three entry points, truth values and "
                "points compared exactly), the thorough tier repeats them under all three axis rotations (2.6*10^9 cases) - within these lattices nothing is left unexplored, "
                "including every edge/corner graze, flat and empty box, axis-parallel ray and origin-on-surface configuration they contain. Inputs outside the lattices "
                "(inexact quotients, extreme direction components) can only be sampled: 1.2*10^8 (quick) / 2*10^9 (thorough) wide-lattice cases and 4*10^7 / 8*10^8 stress cases."),
    level_note=("beyond the two enumerated lattices the input space is sampled; stress verdicts exclude near ties (relative margin <= 1e-4), underflowing quotients and NaN/inf inputs; "
                "only gcc/x86-64 code generation is executed"),
    monitors=[M("c14_raybox", ["c14_raybox.cpp", "c14_wide.cpp", "c14_stress.cpp"], san_scale=0.05, san_scale_thorough=0.02)],
)
